package main

import (
	"fmt"
	"os"
	"path/filepath"
	"sort"
	"strings"

	"verifharness/hx"

	"github.com/Workiva/frugal/compiler/generator/golang"
	"github.com/Workiva/frugal/compiler/parser"
)

func toJty(t *parser.Type) jty {
	if t == nil {
		return nil
	}
	return []jty{hexs(t.Name), toJty(t.KeyType), toJty(t.ValueType)}
}

// link does what parser.parseFrugal does (parse, link the includes, validate), but goes on
// after a validation failure so that the tree can be shown to the model, and records the
// outcome of validation for every file. Syntax errors and unreadable includes end it.
func link(path string, visited []string, cache map[string]*parser.Frugal, verr map[*parser.Frugal]error) (*parser.Frugal, error) {
	file, err := os.Open(path)
	if err != nil {
		return nil, err
	}
	defer file.Close()
	base := filepath.Base(path)
	parts := strings.Split(base, ".")
	if len(parts) != 2 {
		return nil, fmt.Errorf("Invalid file: %s", path)
	}
	name := parts[0]
	for _, v := range visited {
		if v == name {
			return nil, fmt.Errorf("Circular include: %s", name)
		}
	}
	if c, ok := cache[path]; ok {
		return c, nil
	}
	visited = append(visited[:len(visited):len(visited)], name)
	parsed, err := parser.ParseReader(path, file)
	if err != nil {
		return nil, err
	}
	f := parsed.(*parser.Frugal)
	f.Name = name
	f.File = path
	f.Dir = filepath.Dir(path)
	f.Path = path
	for _, incl := range f.Includes {
		include := incl.Value
		if !strings.HasSuffix(include, ".thrift") && !strings.HasSuffix(include, ".frugal") {
			return nil, fmt.Errorf("Bad include name: %s", include)
		}
		pi, err := link(filepath.Join(f.Dir, include), visited, cache, verr)
		if err != nil {
			return nil, fmt.Errorf("Include %s: %s", include, err)
		}
		f.ParsedIncludes[filepath.Base(include[:len(include)-7])] = pi
	}
	// validation follows typedefs into the includes (isException): as parseFrugal does, never
	// validate a file one of whose includes failed validation (an include with circular
	// typedefs would overflow the stack)
	incOK := true
	for _, pi := range f.ParsedIncludes {
		if verr[pi] != nil {
			incOK = false
		}
	}
	if incOK {
		verr[f] = parser.VerifValidate(f)
	} else {
		verr[f] = fmt.Errorf("not validated: an include failed validation")
	}
	parser.VerifFinish(f)
	cache[path] = f
	return f, nil
}

func dump(f *parser.Frugal, verr map[*parser.Frugal]error) *jfile {
	j := &jfile{Name: f.Name, Typedefs: [][]jty{}, Structs: []string{}, Unions: []string{}, Exceptions: []string{},
		Enums: []string{}, Uses: []jty{}, Incs: []jinc{}, IndexOK: true}
	last := map[string]*parser.TypeDef{}
	for _, td := range f.Typedefs {
		j.Typedefs = append(j.Typedefs, []jty{hexs(td.Name), toJty(td.Type)})
		last[td.Name] = td
	}
	// the model takes the index to be "last declaration wins"
	for n, td := range last {
		if parser.VerifTypedefIndex(f, n) != td {
			j.IndexOK = false
		}
	}
	for _, s := range f.Structs {
		j.Structs = append(j.Structs, hexs(s.Name))
	}
	for _, s := range f.Unions {
		j.Unions = append(j.Unions, hexs(s.Name))
	}
	for _, s := range f.Exceptions {
		j.Exceptions = append(j.Exceptions, hexs(s.Name))
	}
	for _, s := range f.Enums {
		j.Enums = append(j.Enums, hexs(s.Name))
	}
	for _, c := range f.Constants {
		j.Uses = append(j.Uses, toJty(c.Type))
	}
	for _, group := range [][]*parser.Struct{f.Structs, f.Unions, f.Exceptions} {
		for _, s := range group {
			for _, fl := range s.Fields {
				j.Uses = append(j.Uses, toJty(fl.Type))
			}
		}
	}
	for _, s := range f.Services {
		for _, m := range s.Methods {
			if m.ReturnType != nil {
				j.Uses = append(j.Uses, toJty(m.ReturnType))
			}
			for _, fl := range m.Arguments {
				j.Uses = append(j.Uses, toJty(fl.Type))
			}
			for _, fl := range m.Exceptions {
				j.Uses = append(j.Uses, toJty(fl.Type))
			}
		}
	}
	for _, s := range f.Scopes {
		for _, op := range s.Operations {
			j.Uses = append(j.Uses, toJty(op.Type))
		}
	}
	names := make([]string, 0, len(f.ParsedIncludes))
	for n := range f.ParsedIncludes {
		names = append(names, n)
	}
	sort.Strings(names)
	for _, n := range names {
		j.Incs = append(j.Incs, jinc{hexs(n), dump(f.ParsedIncludes[n], verr)})
	}
	if e := verr[f]; e != nil {
		j.VErr = e.Error()
	} else {
		j.Valid = true
	}
	return j
}

func allValid(j *jfile) bool {
	if !j.Valid {
		return false
	}
	for _, i := range j.Incs {
		if !allValid(i.File) {
			return false
		}
	}
	return true
}

func obsBool(f func() bool) obs {
	v, p := hx.Guarded(watchdog, f)
	if p == "hang" {
		return obs{Code: hx.CodeHang}
	}
	if p != "" {
		return obs{Code: hx.CodePanic, P: p}
	}
	return obs{Code: 0, B: v}
}

var wireIDs = map[string]string{"thrift.BOOL": "2", "thrift.BYTE": "3", "thrift.DOUBLE": "4", "thrift.I16": "6",
	"thrift.I32": "8", "thrift.I64": "10", "thrift.STRING": "11", "thrift.STRUCT": "12", "thrift.MAP": "13",
	"thrift.SET": "14", "thrift.LIST": "15"}

func ask(f *parser.Frugal, path []string, t *parser.Type, out *[]query, seen map[string]bool, budget *int) {
	if t == nil || *budget <= 0 {
		return
	}
	key := strings.Join(path, "/") + "|" + t.String() + "|" + t.Name
	if !seen[key] {
		seen[key] = true
		*budget--
		q := query{Path: path, Ty: toJty(t)}
		q.Valid = obsBool(func() bool { return parser.VerifIsValidType(f, t) })
		u, p := hx.Guarded(watchdog, func() *parser.Type { return f.UnderlyingType(t) })
		switch {
		case p == "hang":
			q.Underlying = obs{Code: hx.CodeHang}
		case p != "":
			q.Underlying = obs{Code: hx.CodePanic, P: p}
		default:
			q.Underlying = obs{Code: 0, Ty: toJty(u)}
		}
		q.IsEnum = obsBool(func() bool { return f.IsEnum(t) })
		q.IsStruct = obsBool(func() bool { return f.IsStruct(t) })
		q.IsUnion = obsBool(func() bool { return f.IsUnion(t) })
		s, p := hx.Guarded(watchdog, func() string { return golang.VerifGetEnumFromThriftType(f, t) })
		switch {
		case p == "hang":
			q.GoEnum = obs{Code: hx.CodeHang}
		case p != "":
			q.GoEnum = obs{Code: hx.CodePanic, P: p}
		default:
			q.GoEnum = obs{Code: 0, S: wireIDs[s]}
		}
		*out = append(*out, q)
	}
	ask(f, path, t.KeyType, out, seen, budget)
	ask(f, path, t.ValueType, out, seen, budget)
}

func walk(f *parser.Frugal, path []string, out *[]query, seen map[string]bool, budget *int, done map[*parser.Frugal]bool) {
	if done[f] {
		return
	}
	done[f] = true
	for _, td := range f.Typedefs {
		ask(f, path, td.Type, out, seen, budget)
		ask(f, path, &parser.Type{Name: td.Name}, out, seen, budget)
	}
	for _, c := range f.Constants {
		ask(f, path, c.Type, out, seen, budget)
	}
	for _, group := range [][]*parser.Struct{f.Structs, f.Unions, f.Exceptions} {
		for _, s := range group {
			for _, fl := range s.Fields {
				ask(f, path, fl.Type, out, seen, budget)
			}
		}
	}
	for _, s := range f.Services {
		for _, m := range s.Methods {
			ask(f, path, m.ReturnType, out, seen, budget)
			for _, fl := range m.Arguments {
				ask(f, path, fl.Type, out, seen, budget)
			}
			for _, fl := range m.Exceptions {
				ask(f, path, fl.Type, out, seen, budget)
			}
		}
	}
	for _, s := range f.Scopes {
		for _, op := range s.Operations {
			ask(f, path, op.Type, out, seen, budget)
		}
	}
	names := make([]string, 0, len(f.ParsedIncludes))
	for n := range f.ParsedIncludes {
		names = append(names, n)
	}
	sort.Strings(names)
	for _, n := range names {
		walk(f.ParsedIncludes[n], append(path[:len(path):len(path)], hexs(n)), out, seen, budget, done)
	}
}

func types(q req) resp {
	if err := os.MkdirAll(q.Dir, 0o777); err != nil {
		return resp{Code: 103, Msg: err.Error()}
	}
	for n, txt := range q.Files {
		if err := os.MkdirAll(filepath.Dir(filepath.Join(q.Dir, n)), 0o777); err != nil {
			return resp{Code: 103, Msg: err.Error()}
		}
		if err := os.WriteFile(filepath.Join(q.Dir, n), []byte(txt), 0o666); err != nil {
			return resp{Code: 103, Msg: err.Error()}
		}
	}
	mainPath := filepath.Join(q.Dir, q.Main)
	var r resp
	// the real entry point
	perr, p := hx.Guarded(watchdog, func() error {
		_, err := parser.ParseFrugal(mainPath)
		return err
	})
	if p != "" {
		r.Code = hx.CodePanic
		if p == "hang" {
			r.Code = hx.CodeHang
		}
		r.Panic = p
		return r
	}
	r.ParseOK = perr == nil
	if perr != nil {
		r.ParseErr = perr.Error()
	}
	// the same steps, one by one
	verr := map[*parser.Frugal]error{}
	type lr struct {
		f   *parser.Frugal
		err error
	}
	l, p := hx.Guarded(watchdog, func() lr {
		f, err := link(mainPath, nil, map[string]*parser.Frugal{}, verr)
		return lr{f, err}
	})
	if p != "" {
		r.Code = hx.CodePanic
		if p == "hang" {
			r.Code = hx.CodeHang
		}
		r.Panic = p
		return r
	}
	if l.err != nil {
		r.LinkErr = l.err.Error()
		r.Agree = perr != nil
		r.Code = hx.CodeOther
		return r
	}
	r.Tree = dump(l.f, verr)
	ok := allValid(r.Tree)
	r.Agree = ok == r.ParseOK
	if ok {
		budget := 400
		walk(l.f, []string{}, &r.Queries, map[string]bool{}, &budget, map[*parser.Frugal]bool{})
	}
	return r
}
