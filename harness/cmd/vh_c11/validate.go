package main

// vh_c11 "validate": the real validation pass and include resolution on a program given as IDL
// text, observed step by step.
//
//	{"op":"validate","dir":D,"files":{name:text},"main":name}
//	  -> {"code":0|100|102,
//	      "parse_ok":bool, "parse_err":text (directory stripped), "vtree":tree of the result,
//	      "entries":[{"path":relative path,"ast":parse tree | "err":text}..]   every file, parsed alone
//	      "calls":[{"tree":[name, parse tree, includes], "err":text, "ok":bool}..]} every Frugal.validate call
//
// Parse trees are dumped in the canonical nested-list form of vh_c10 / Judge/JParser.v (byte
// strings as hex, small integers as numbers, lists as arrays); Judge/JCompilerValidate.v decodes
// them and checks its decoder by re-encoding.

import (
	"encoding/hex"
	"fmt"
	"math"
	"os"
	"path/filepath"
	"sort"
	"strings"

	"verifharness/hx"

	"github.com/Workiva/frugal/compiler/parser"
)

type vL = []interface{}

func vhs(s string) string { return hex.EncodeToString([]byte(s)) }

func vEncZ(v int64) vL {
	sign := 0
	var u uint64
	if v < 0 {
		sign = 1
		u = uint64(-(v+1)) + 1
	} else {
		u = uint64(v)
	}
	return vL{sign, int64(u >> 32), int64(u & 0xffffffff)}
}

func vEncAnns(a parser.Annotations) vL {
	out := vL{}
	for _, x := range a {
		out = append(out, vL{vhs(x.Name), vhs(x.Value)})
	}
	return out
}

func vEncComment(c []string) vL {
	if c == nil {
		return vL{}
	}
	lines := vL{}
	for _, l := range c {
		lines = append(lines, vhs(l))
	}
	return vL{lines}
}

func vEncType(t *parser.Type) vL {
	opt := func(x *parser.Type) vL {
		if x == nil {
			return vL{}
		}
		return vL{vEncType(x)}
	}
	return vL{vhs(t.Name), opt(t.KeyType), opt(t.ValueType), vEncAnns(t.Annotations)}
}

func vEncValue(v interface{}) vL {
	switch x := v.(type) {
	case string:
		return vL{0, vhs(x)}
	case bool:
		if x {
			return vL{1, 1}
		}
		return vL{1, 0}
	case int64:
		return vL{2, vEncZ(x)}
	case float64:
		b := math.Float64bits(x)
		return vL{3, int64(b >> 32), int64(b & 0xffffffff)}
	case []interface{}:
		items := vL{}
		for _, y := range x {
			items = append(items, vEncValue(y))
		}
		return vL{4, items}
	case []parser.KeyValue:
		items := vL{}
		for _, kv := range x {
			items = append(items, vL{vEncValue(kv.Key), vEncValue(kv.Value)})
		}
		return vL{5, items}
	case parser.Identifier:
		return vL{6, vhs(string(x))}
	}
	return vL{7}
}

func vEncFields(fs []*parser.Field) vL {
	out := vL{}
	for _, f := range fs {
		def := vL{}
		if f.Default != nil {
			def = vL{vEncValue(f.Default)}
		}
		out = append(out, vL{vEncComment(f.Comment), vEncZ(int64(f.ID)), vhs(f.Name), int(f.Modifier), vEncType(f.Type), def, vEncAnns(f.Annotations)})
	}
	return out
}

func vEncStruct(s *parser.Struct) vL {
	return vL{vEncComment(s.Comment), vhs(s.Name), vEncFields(s.Fields), int(s.Type), vEncAnns(s.Annotations)}
}

func vEncFrugal(f *parser.Frugal) vL {
	incs, nss, tds, cs, es, ss, xs, us, svs, scs := vL{}, vL{}, vL{}, vL{}, vL{}, vL{}, vL{}, vL{}, vL{}, vL{}
	for _, i := range f.Includes {
		incs = append(incs, vL{vhs(i.Name), vhs(i.Value), vEncAnns(i.Annotations)})
	}
	for _, n := range f.Namespaces {
		nss = append(nss, vL{vhs(n.Scope), vhs(n.Value), vEncAnns(n.Annotations)})
	}
	for _, t := range f.Typedefs {
		tds = append(tds, vL{vEncComment(t.Comment), vhs(t.Name), vEncType(t.Type), vEncAnns(t.Annotations)})
	}
	for _, c := range f.Constants {
		cs = append(cs, vL{vEncComment(c.Comment), vhs(c.Name), vEncType(c.Type), vEncValue(c.Value), vEncAnns(c.Annotations)})
	}
	for _, e := range f.Enums {
		vs := vL{}
		for _, v := range e.Values {
			vs = append(vs, vL{vEncComment(v.Comment), vhs(v.Name), vEncZ(int64(v.Value)), vEncAnns(v.Annotations)})
		}
		es = append(es, vL{vEncComment(e.Comment), vhs(e.Name), vs, vEncAnns(e.Annotations)})
	}
	for _, s := range f.Structs {
		ss = append(ss, vEncStruct(s))
	}
	for _, s := range f.Exceptions {
		xs = append(xs, vEncStruct(s))
	}
	for _, s := range f.Unions {
		us = append(us, vEncStruct(s))
	}
	for _, s := range f.Services {
		ms := vL{}
		for _, m := range s.Methods {
			ret := vL{}
			if m.ReturnType != nil {
				ret = vL{vEncType(m.ReturnType)}
			}
			ow := 0
			if m.Oneway {
				ow = 1
			}
			ms = append(ms, vL{vEncComment(m.Comment), vhs(m.Name), ow, ret, vEncFields(m.Arguments), vEncFields(m.Exceptions), vEncAnns(m.Annotations)})
		}
		svs = append(svs, vL{vEncComment(s.Comment), vhs(s.Name), vhs(s.Extends), ms, vEncAnns(s.Annotations)})
	}
	for _, s := range f.Scopes {
		ops := vL{}
		for _, o := range s.Operations {
			ops = append(ops, vL{vEncComment(o.Comment), vhs(o.Name), vEncType(o.Type), vEncAnns(o.Annotations)})
		}
		vars := vL{}
		pstr := ""
		if s.Prefix != nil {
			pstr = s.Prefix.String
			for _, v := range s.Prefix.Variables {
				vars = append(vars, vhs(v))
			}
		}
		scs = append(scs, vL{vEncComment(s.Comment), vhs(s.Name), vL{vhs(pstr), vars}, ops, vEncAnns(s.Annotations)})
	}
	return vL{incs, nss, tds, cs, es, ss, xs, us, svs, scs}
}

// vEncTree dumps a file and, recursively, its resolved includes; keys in order of first
// occurrence among the file's includes (the order the model's ParsedIncludes list has).
func vEncTree(f *parser.Frugal) vL {
	incs := vL{}
	done := map[string]bool{}
	for _, inc := range f.Includes {
		v := inc.Value
		if len(v) < 7 {
			continue
		}
		key := filepath.Base(v[:len(v)-7])
		if done[key] {
			continue
		}
		done[key] = true
		if sub, ok := f.ParsedIncludes[key]; ok {
			incs = append(incs, vL{vhs(key), vEncTree(sub)})
		}
	}
	if len(done) != len(f.ParsedIncludes) {
		// a partially linked file (validation of an include failed): the remaining keys, sorted
		rest := []string{}
		for k := range f.ParsedIncludes {
			if !done[k] {
				rest = append(rest, k)
			}
		}
		sort.Strings(rest)
		for _, k := range rest {
			incs = append(incs, vL{vhs("?" + k), vL{}})
		}
	}
	return vL{vhs(f.Name), vEncFrugal(f), incs}
}

type vEntry struct {
	Path string      `json:"path"`
	Ast  interface{} `json:"ast,omitempty"`
	Err  string      `json:"err,omitempty"`
	OK   bool        `json:"ok"`
}

type vCall struct {
	Tree  interface{} `json:"tree"`
	OK    bool        `json:"ok"`
	Err   string      `json:"err,omitempty"`
	Panic string      `json:"panic,omitempty"`
}

type vResp struct {
	Code     int         `json:"code"`
	Panic    string      `json:"panic,omitempty"`
	Msg      string      `json:"msg,omitempty"`
	ParseOK  bool        `json:"parse_ok"`
	ParseErr string      `json:"parse_err,omitempty"`
	VTree    interface{} `json:"vtree,omitempty"`
	Entries  []vEntry    `json:"entries"`
	Calls    []vCall     `json:"calls"`
	LinkErr  string      `json:"link_err,omitempty"`
}

// vLink does what parser.parseFrugal does, step by step, and records every call of the real
// Frugal.validate with the tree it was applied to (dumped before the scopes are sorted).
func vLink(path string, visited, visitedPaths []string, cache map[string]*parser.Frugal, calls *[]vCall) (*parser.Frugal, error) {
	file, err := os.Open(path)
	if err != nil {
		return nil, err
	}
	defer file.Close()
	parts := strings.Split(filepath.Base(path), ".")
	if len(parts) != 2 {
		return nil, fmt.Errorf("Invalid file: %s", path)
	}
	name := parts[0]
	cleaned := filepath.Clean(path)
	for _, v := range visitedPaths {
		if v == cleaned {
			return nil, fmt.Errorf("Circular include: %s", append(visited, name))
		}
	}
	for i, v := range visited {
		if v == name {
			return nil, fmt.Errorf("Duplicate file name %s: %s is included by way of %s (includes and generated code are named after the file name)",
				name, cleaned, visitedPaths[i])
		}
	}
	if c, ok := cache[path]; ok {
		return c, nil
	}
	visited = append(visited[:len(visited):len(visited)], name)
	visitedPaths = append(visitedPaths[:len(visitedPaths):len(visitedPaths)], cleaned)
	parsed, err := parser.ParseReader(path, file)
	if err != nil {
		return nil, err
	}
	f := parsed.(*parser.Frugal)
	f.Name = name
	f.File = path
	f.Dir = filepath.Dir(path)
	f.Path = path
	for _, incl := range f.Includes {
		include := incl.Value
		if !strings.HasSuffix(include, ".thrift") && !strings.HasSuffix(include, ".frugal") {
			return nil, fmt.Errorf("Bad include name: %s", include)
		}
		pi, err := vLink(filepath.Join(f.Dir, include), visited, visitedPaths, cache, calls)
		if err != nil {
			return nil, fmt.Errorf("Include %s: %s", include, err)
		}
		f.ParsedIncludes[filepath.Base(include[:len(include)-7])] = pi
	}
	call := vCall{Tree: vEncTree(f)}
	verr, p := hx.Guarded(watchdog, func() error { return parser.VerifValidate(f) })
	if p != "" {
		call.Panic = p
		*calls = append(*calls, call)
		return nil, fmt.Errorf("validate crashed: %s", p)
	}
	if verr != nil {
		call.Err = verr.Error()
		*calls = append(*calls, call)
		return nil, verr
	}
	call.OK = true
	*calls = append(*calls, call)
	parser.VerifFinish(f)
	cache[path] = f
	return f, nil
}

func validateOp(q req) interface{} {
	r := vResp{Entries: []vEntry{}, Calls: []vCall{}}
	if q.Dir == "" {
		return vResp{Code: 103, Msg: "no dir"}
	}
	if err := os.MkdirAll(q.Dir, 0o777); err != nil {
		return vResp{Code: 103, Msg: err.Error()}
	}
	names := make([]string, 0, len(q.Files))
	for n, txt := range q.Files {
		names = append(names, n)
		if err := os.MkdirAll(filepath.Dir(filepath.Join(q.Dir, n)), 0o777); err != nil {
			return vResp{Code: 103, Msg: err.Error()}
		}
		if err := os.WriteFile(filepath.Join(q.Dir, n), []byte(txt), 0o666); err != nil {
			return vResp{Code: 103, Msg: err.Error()}
		}
	}
	sort.Strings(names)
	strip := func(s string) string { return strings.ReplaceAll(s, filepath.Clean(q.Dir)+"/", "") }
	mainPath := filepath.Join(q.Dir, q.Main)

	// the real entry point
	type pr struct {
		f   *parser.Frugal
		err error
	}
	res, p := hx.Guarded(watchdog, func() pr {
		f, err := parser.ParseFrugal(mainPath)
		return pr{f, err}
	})
	if p != "" {
		r.Code = hx.CodePanic
		if p == "hang" {
			r.Code = hx.CodeHang
		}
		r.Panic = p
		return r
	}
	r.ParseOK = res.err == nil
	if res.err != nil {
		r.ParseErr = strip(res.err.Error())
	} else {
		r.VTree = vEncTree(res.f)
	}

	// every file parsed alone: the file system the model's parseFrugal reads
	for _, n := range names {
		full := filepath.Join(q.Dir, n)
		e := vEntry{Path: filepath.Clean(n)}
		fh, err := os.Open(full)
		if err != nil {
			continue
		}
		v, perr := parser.ParseReader(full, fh)
		fh.Close()
		if perr != nil {
			e.Err = strip(perr.Error())
		} else {
			e.OK = true
			e.Ast = vEncFrugal(v.(*parser.Frugal))
		}
		r.Entries = append(r.Entries, e)
	}

	// the same steps, one by one, with every validate call recorded
	type lr struct {
		err error
	}
	l, p := hx.Guarded(watchdog, func() lr {
		_, err := vLink(mainPath, nil, nil, map[string]*parser.Frugal{}, &r.Calls)
		return lr{err}
	})
	if p != "" {
		r.Code = hx.CodePanic
		if p == "hang" {
			r.Code = hx.CodeHang
		}
		r.Panic = p
		return r
	}
	if l.err != nil {
		r.LinkErr = strip(l.err.Error())
	}
	return r
}
