// vh_c11: observations for property C11 (the compiler is total).
//
// Reads JSON requests on stdin, writes one JSON observation per request on stdout.
//
//	{"op":"casing","fn":F,"s":hex,"s2":hex}  -> {"code":0|100,"out":hex,"panic":..}
//	{"op":"gen","s":hex}                     -> {"code":0|7|100,"lang":hex,"opts":[[hexk,hexv]..sorted],"msg":..}
//	{"op":"langs"}                           -> {"langs":[[lang,[opt..sorted]]..sorted]}
//	{"op":"types","dir":D,"files":{name:text},"main":name}
//	     -> {"code":..,"tree":file,"queries":[..],"parse_ok":bool,"parse_err":..,"agree":bool}
//	{"op":"validate",...}                    -> see validate.go
//
// The helpers are the real ones (reached through compiler/**/verif_c11.go, build tag verif).
package main

import (
	"encoding/hex"
	"fmt"
	"os"
	"path/filepath"
	"sort"
	"strings"
	"time"

	"verifharness/hx"

	"github.com/Workiva/frugal/compiler"
	"github.com/Workiva/frugal/compiler/generator"
	"github.com/Workiva/frugal/compiler/generator/dartlang"
	"github.com/Workiva/frugal/compiler/generator/golang"
	"github.com/Workiva/frugal/compiler/generator/java"
	"github.com/Workiva/frugal/compiler/parser"
)

type req struct {
	Op    string            `json:"op"`
	Fn    string            `json:"fn"`
	S     string            `json:"s"`
	S2    string            `json:"s2"`
	Dir   string            `json:"dir"`
	Files map[string]string `json:"files"`
	Main  string            `json:"main"`
}

// a type: nil or [name, key, value]
type jty interface{}

type jfile struct {
	Name       string   `json:"name"`
	Typedefs   [][]jty  `json:"typedefs"` // [name, type]
	Structs    []string `json:"structs"`
	Unions     []string `json:"unions"`
	Exceptions []string `json:"exceptions"`
	Enums      []string `json:"enums"`
	Uses       []jty    `json:"uses"`
	Incs       []jinc   `json:"incs"`
	Valid      bool     `json:"valid"`
	VErr       string   `json:"verr"`
	IndexOK    bool     `json:"index_ok"`
}

type jinc struct {
	Name string `json:"name"`
	File *jfile `json:"file"`
}

type obs struct {
	Code int    `json:"code"` // 0 ok, 100 panic, 102 hang
	Ty   jty    `json:"ty,omitempty"`
	B    bool   `json:"b,omitempty"`
	S    string `json:"s,omitempty"`
	P    string `json:"panic,omitempty"`
}

type query struct {
	Path       []string `json:"path"`
	Ty         jty      `json:"ty"`
	Valid      obs      `json:"valid"`
	Underlying obs      `json:"underlying"`
	IsEnum     obs      `json:"is_enum"`
	IsStruct   obs      `json:"is_struct"`
	IsUnion    obs      `json:"is_union"`
	GoEnum     obs      `json:"go_enum"`
}

type resp struct {
	Code     int             `json:"code"`
	Out      string          `json:"out,omitempty"`
	Panic    string          `json:"panic,omitempty"`
	Msg      string          `json:"msg,omitempty"`
	Lang     string          `json:"lang,omitempty"`
	Opts     [][2]string     `json:"opts,omitempty"`
	Langs    [][]interface{} `json:"langs,omitempty"`
	Tree     *jfile          `json:"tree,omitempty"`
	Queries  []query         `json:"queries,omitempty"`
	ParseOK  bool            `json:"parse_ok"`
	ParseErr string          `json:"parse_err,omitempty"`
	LinkErr  string          `json:"link_err,omitempty"`
	Agree    bool            `json:"agree"`
}

const watchdog = 10 * time.Second

func unhex(s string) string {
	b, err := hex.DecodeString(s)
	if err != nil {
		panic(err)
	}
	return string(b)
}

func hexs(s string) string { return hex.EncodeToString([]byte(s)) }

func casing(q req) resp {
	s, s2 := unhex(q.S), unhex(q.S2)
	out, p := hx.Guarded(watchdog, func() string {
		switch q.Fn {
		case "go_snake":
			return golang.VerifSnakeToCamel(s)
		case "go_title":
			return golang.VerifTitle(s)
		case "go_title_svc":
			return golang.VerifTitleServiceName(s, s2)
		case "java_const":
			return java.VerifToConstantName(s)
		case "dart_file":
			return dartlang.VerifToFileName(s)
		case "dart_const":
			return dartlang.VerifToScreamingCapsConstant(s)
		case "dart_field":
			return dartlang.VerifToFieldName(s)
		case "dart_lcfirst":
			return dartlang.VerifLowercaseFirstCharacter(s)
		case "parser_lcfirst":
			return parser.LowercaseFirstLetter(s)
		}
		panic("vh_c11: unknown fn " + q.Fn)
	})
	if p == "hang" {
		return resp{Code: hx.CodeHang}
	}
	if p != "" {
		return resp{Code: hx.CodePanic, Panic: p}
	}
	return resp{Code: 0, Out: hexs(out)}
}

func gen(q req) resp {
	type r struct {
		lang string
		opts map[string]string
		err  error
	}
	v, p := hx.Guarded(watchdog, func() r {
		lang, opts, err := compiler.CleanGenParam(unhex(q.S))
		if err != nil {
			return r{err: err}
		}
		// GetProgramGenerator mutates the options of "go" (package_prefix gets a slash): work on a copy
		cp := map[string]string{}
		for k, v := range opts {
			cp[k] = v
		}
		_, err = compiler.GetProgramGenerator(lang, cp)
		return r{lang, opts, err}
	})
	if p == "hang" {
		return resp{Code: hx.CodeHang}
	}
	if p != "" {
		return resp{Code: hx.CodePanic, Panic: p}
	}
	if v.err != nil {
		return resp{Code: hx.CodeOther, Msg: v.err.Error()}
	}
	out := resp{Code: 0, Lang: hexs(v.lang), Opts: [][2]string{}}
	keys := make([]string, 0, len(v.opts))
	for k := range v.opts {
		keys = append(keys, k)
	}
	sort.Strings(keys)
	for _, k := range keys {
		out.Opts = append(out.Opts, [2]string{hexs(k), hexs(v.opts[k])})
	}
	return out
}

func langs() resp {
	var out [][]interface{}
	names := make([]string, 0)
	for l := range generator.Languages {
		names = append(names, l)
	}
	sort.Strings(names)
	for _, l := range names {
		opts := make([]string, 0)
		for o := range generator.Languages[l] {
			opts = append(opts, o)
		}
		sort.Strings(opts)
		out = append(out, []interface{}{l, opts})
	}
	return resp{Langs: out}
}

func main() {
	if err := hx.Serve(func(q req) interface{} {
		switch q.Op {
		case "validate":
			return validateOp(q)
		case "casing":
			return casing(q)
		case "gen":
			return gen(q)
		case "langs":
			return langs()
		case "types":
			return types(q)
		}
		return resp{Code: 103, Msg: "unknown op " + q.Op}
	}); err != nil {
		fmt.Fprintln(os.Stderr, "vh_c11:", err)
		os.Exit(3)
	}
}

var _ = filepath.Join
var _ = strings.Split
