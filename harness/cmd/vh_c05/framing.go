// Framing layer of C05: TFramedTransport.Read, fAdapterTransport.readFrame,
// readRequestFrame, the adapter read loop and FSimpleServer.accept, fed a byte
// stream in chosen chunks, either through net.Pipe + TSocket (peer closes at
// the end) or through a scripted thrift.TTransport (any terminal error).
//
// requests (rx):
//   fr_read   {mode, chunks[], final, maxlen, reads[]}  -> reads: [{k,data,err,rem}]
//   fr_frames {mode, which: "adapter"|"server", chunks[], final, maxlen} -> frames[], end
//   fr_adapter{mode, chunks[], final}                    -> calls, end (0 = nil cause), closed
//   fr_accept {mode, chunks[], final}                    -> frames[], end (0 nil, 50 process error)
package main

import (
	"context"
	"encoding/hex"
	"errors"
	"io"
	"net"
	"sync"
	"sync/atomic"
	"time"

	frugal "github.com/Workiva/frugal/lib/go"
	"github.com/apache/thrift/lib/go/thrift"

	"verifharness/hx"
)

type readObs struct {
	K    int    `json:"k"`
	Data string `json:"data"`
	Err  int    `json:"err"`
	Rem  uint64 `json:"rem"`
}

// scriptTransport delivers the chunks one Read at a time (split when the
// caller's buffer is smaller), then returns the terminal error for ever.
type scriptTransport struct {
	mu     sync.Mutex
	chunks [][]byte
	final  error
	open   bool
	wrote  int
}

func (s *scriptTransport) Read(p []byte) (int, error) {
	s.mu.Lock()
	defer s.mu.Unlock()
	if len(p) == 0 {
		return 0, nil
	}
	if len(s.chunks) == 0 {
		return 0, s.final
	}
	n := copy(p, s.chunks[0])
	if n == len(s.chunks[0]) {
		s.chunks = s.chunks[1:]
	} else {
		s.chunks[0] = s.chunks[0][n:]
	}
	return n, nil
}
func (s *scriptTransport) Write(p []byte) (int, error) {
	s.mu.Lock()
	defer s.mu.Unlock()
	s.wrote += len(p)
	return len(p), nil
}
func (s *scriptTransport) Flush(context.Context) error { return nil }
func (s *scriptTransport) Open() error                 { s.mu.Lock(); s.open = true; s.mu.Unlock(); return nil }
func (s *scriptTransport) IsOpen() bool                { s.mu.Lock(); defer s.mu.Unlock(); return s.open }
func (s *scriptTransport) Close() error                { s.mu.Lock(); s.open = false; s.mu.Unlock(); return nil }
func (s *scriptTransport) RemainingBytes() uint64      { return ^uint64(0) }

func finalError(code int) error {
	switch code {
	case hx.CodeEOF:
		return thrift.NewTTransportException(thrift.END_OF_FILE, "EOF")
	case hx.CodeTimedOut:
		return thrift.NewTTransportException(thrift.TIMED_OUT, "i/o timeout")
	case hx.CodeNotOpen:
		return thrift.NewTTransportException(thrift.NOT_OPEN, "Connection not open")
	default:
		return thrift.NewTTransportException(thrift.UNKNOWN_TRANSPORT_EXCEPTION, "connection reset by peer")
	}
}

// mkTransport builds the connection. cleanup must be called at the end.
func mkTransport(q req) (thrift.TTransport, func(), error) {
	chunks := make([][]byte, 0, len(q.Chunks))
	for _, h := range q.Chunks {
		b, err := hex.DecodeString(h)
		if err != nil {
			return nil, nil, err
		}
		if len(b) == 0 {
			return nil, nil, errors.New("empty chunk")
		}
		chunks = append(chunks, b)
	}
	if q.Mode == "pipe" {
		if q.Final != hx.CodeEOF {
			return nil, nil, errors.New("pipe mode ends with EOF only")
		}
		c1, c2 := net.Pipe()
		done := make(chan struct{})
		go func() {
			defer close(done)
			c2.SetWriteDeadline(time.Now().Add(5 * time.Second))
			for _, c := range chunks {
				if _, err := c2.Write(c); err != nil {
					break
				}
			}
			c2.Close()
		}()
		// what the read side writes (server replies) is discarded
		go io.Copy(io.Discard, c2)
		tr := thrift.NewTSocketFromConnConf(c1, nil)
		return tr, func() { c1.Close(); c2.Close(); <-done }, nil
	}
	return &scriptTransport{chunks: chunks, final: finalError(q.Final), open: true}, func() {}, nil
}

func maxLen(q req) uint32 {
	if q.MaxLen == 0 {
		return 16384000
	}
	return uint32(q.MaxLen)
}

// recording processor: remembers every frame it is handed; fails on 0xEE...
type recProc struct {
	mu     sync.Mutex
	frames []string
}

func (p *recProc) Process(in, out *frugal.FProtocol) error {
	b, _ := io.ReadAll(in.Transport())
	p.mu.Lock()
	p.frames = append(p.frames, hex.EncodeToString(b))
	p.mu.Unlock()
	if len(b) > 0 && b[0] == 0xEE {
		return errors.New("recProc: refused")
	}
	return nil
}
func (p *recProc) AddMiddleware(frugal.ServiceMiddleware)         {}
func (p *recProc) Annotations() map[string]map[string]string { return nil }

func handleFraming(q req) resp {
	r := resp{Rx: q.Rx, Closed: -2}
	if q.Rx == "fr_server" {
		return handleRealServer(q)
	}
	tr, cleanup, err := mkTransport(q)
	if err != nil {
		r.Code, r.Msg = 103, err.Error()
		return r
	}
	defer cleanup()
	switch q.Rx {
	case "fr_read":
		framed := frugal.NewTFramedTransportMaxLength(tr, maxLen(q))
		obs, p := hx.Guarded(8*time.Second, func() []readObs {
			out := make([]readObs, 0, len(q.Reads))
			for _, k := range q.Reads {
				buf := make([]byte, k)
				n, err := framed.Read(buf)
				if n < 0 || n > k {
					out = append(out, readObs{K: k, Err: 104})
					break
				}
				out = append(out, readObs{K: k, Data: hex.EncodeToString(buf[:n]), Err: hx.Classify(err), Rem: framed.RemainingBytes()})
			}
			return out
		})
		r.Reads = obs
		r.Code, r.Panic = classifyPanic(p)
	case "fr_frames":
		framed := frugal.NewTFramedTransportMaxLength(tr, maxLen(q))
		type fr struct {
			frames []string
			end    int
		}
		res, p := hx.Guarded(8*time.Second, func() fr {
			var out fr
			for i := 0; i < 100000; i++ {
				var b []byte
				var err error
				if q.Which == "server" {
					b, err = frugal.VerifD05ReadRequestFrame(framed)
				} else {
					b, err = frugal.VerifD05AdapterReadFrame(framed)
				}
				if err != nil {
					out.end = hx.Classify(err)
					return out
				}
				out.frames = append(out.frames, hex.EncodeToString(b))
			}
			out.end = 105 // never failed: the stream is finite, so this is a loop without progress
			return out
		})
		r.Frames, r.End = res.frames, res.end
		r.Code, r.Panic = classifyPanic(p)
	case "fr_adapter":
		at := frugal.NewAdapterTransport(tr)
		var calls int64
		frugal.VerifC15WrapRegistry(at, func([]byte, error) { atomic.AddInt64(&calls, 1) })
		if err := at.Open(); err != nil {
			r.Code, r.Msg = 103, err.Error()
			return r
		}
		select {
		case cause, ok := <-at.Closed():
			if !ok || cause == nil {
				r.End = 0
			} else {
				r.End = hx.Classify(cause)
				r.Msg = cause.Error()
			}
			r.Closed = 1
		case <-time.After(5 * time.Second):
			r.Closed = -1
		}
		_, p := hx.Guarded(3*time.Second, func() bool { return at.IsOpen() })
		r.Code, r.Panic = classifyPanic(p)
		r.Calls = int(atomic.LoadInt64(&calls))
	case "fr_accept":
		proc := &recProc{}
		srv := frugal.NewFSimpleServer(proc, nil, protoFactory)
		end, p := hx.Guarded(8*time.Second, func() int {
			err := frugal.VerifD05Accept(srv, tr)
			if err == nil {
				return 0
			}
			if err.Error() == "recProc: refused" {
				return 50
			}
			return hx.Classify(err)
		})
		r.End = end
		// whether accept closed the connection it stopped serving (observation only)
		if _, p2 := hx.Guarded(2*time.Second, func() bool { return tr.IsOpen() }); p2 == "" {
			if tr.IsOpen() {
				r.Closed = 0
			} else {
				r.Closed = 1
			}
		}
		proc.mu.Lock()
		r.Frames = append([]string{}, proc.frames...)
		proc.mu.Unlock()
		r.Code, r.Panic = classifyPanic(p)
	default:
		r.Code, r.Msg = 103, "unknown framing receiver"
	}
	return r
}

// fr_server: a real FSimpleServer on a TCP socket. The peer writes the chunks and
// keeps its end open; closed = 1 when the server closed the connection within the
// wait (it stopped serving it), 0 when it is still open (it waits for more).
var (
	realSrvOnce sync.Once
	realSrvAddr string
	realSrvErr  error
	realSrvProc = &recProc{}
)

func handleRealServer(q req) resp {
	r := resp{Rx: q.Rx, Closed: -2}
	realSrvOnce.Do(func() {
		st, err := thrift.NewTServerSocket("127.0.0.1:0")
		if err != nil {
			realSrvErr = err
			return
		}
		if err := st.Listen(); err != nil {
			realSrvErr = err
			return
		}
		realSrvAddr = st.Addr().String()
		srv := frugal.NewFSimpleServer(realSrvProc, st, protoFactory)
		go srv.Serve()
	})
	if realSrvErr != nil {
		r.Code, r.Msg = 103, realSrvErr.Error()
		return r
	}
	conn, err := net.DialTimeout("tcp", realSrvAddr, 2*time.Second)
	if err != nil {
		r.Code, r.Msg = 103, err.Error()
		return r
	}
	defer conn.Close()
	realSrvProc.mu.Lock()
	realSrvProc.frames = nil
	realSrvProc.mu.Unlock()
	for _, h := range q.Chunks {
		b, _ := hex.DecodeString(h)
		conn.SetWriteDeadline(time.Now().Add(2 * time.Second))
		if _, err := conn.Write(b); err != nil {
			break // the server may already have closed
		}
	}
	wait := time.Duration(q.N) * time.Millisecond
	if wait == 0 {
		wait = 400 * time.Millisecond
	}
	conn.SetReadDeadline(time.Now().Add(wait))
	_, err = io.Copy(io.Discard, conn)
	if err == nil {
		r.Closed = 1 // EOF: closed by the server
	} else if ne, ok := err.(net.Error); ok && ne.Timeout() {
		r.Closed = 0
	} else {
		r.Closed = 1 // reset
		r.Msg = err.Error()
	}
	realSrvProc.mu.Lock()
	r.Frames = append([]string{}, realSrvProc.frames...)
	realSrvProc.mu.Unlock()
	return r
}
