// vh_c05: delivers arbitrary byte strings to every receiving entry point of the Go
// runtime and reports what happened and whether a well-formed message sent
// afterwards was still served.
//
// request:  {"rx": "<receiver>", "bad": hex, "n": repeat}
// response: {"rx":..., "code": int, "good": bool, "closed": int, "panic": str}
//   code: error class of the call where one is returned (exec, rrh, http status class),
//   good: the well-formed follow-up message was handled,
//   closed (adapter): -1 still open, 0 closed cleanly (nil cause), else error class of the cause
package main

import (
	"bytes"
	"context"
	"encoding/base64"
	"encoding/binary"
	"encoding/hex"
	"fmt"
	"io"
	"net"
	"net/http"
	"net/http/httptest"
	"os"
	"strings"
	"sync"
	"sync/atomic"
	"time"

	frugal "github.com/Workiva/frugal/lib/go"
	"github.com/apache/thrift/lib/go/thrift"
	"github.com/go-stomp/stomp"
	"github.com/nats-io/nats.go"
	"github.com/sirupsen/logrus"

	"verifharness/hx"
)

type req struct {
	Rx  string `json:"rx"`
	Bad string `json:"bad"`
	N   int    `json:"n"`
	// framing layer (framing.go)
	Mode   string   `json:"mode,omitempty"`
	Which  string   `json:"which,omitempty"`
	Chunks []string `json:"chunks,omitempty"`
	Final  int      `json:"final,omitempty"`
	MaxLen int64    `json:"maxlen,omitempty"`
	Reads  []int    `json:"reads,omitempty"`
	// HTTP (httpio.go)
	Status int    `json:"status,omitempty"`
	Body   string `json:"body,omitempty"`
	Trunc  bool   `json:"trunc,omitempty"`
	Over   string `json:"over,omitempty"` // trunc: the response announces len(body)+over bytes (decimal; default 10)
	Limit  *string `json:"limit,omitempty"`
	CLen   *int64 `json:"clen,omitempty"`
}

type resp struct {
	Rx     string `json:"rx"`
	Code   int    `json:"code"`
	Good   bool   `json:"good"`
	Closed int    `json:"closed"`
	Panic  string `json:"panic,omitempty"`
	Msg    string `json:"msg,omitempty"`
	// framing layer / HTTP
	Reads   []readObs `json:"reads,omitempty"`
	Frames  []string  `json:"frames,omitempty"`
	End     int       `json:"end"`
	Calls   int       `json:"calls"`
	Payload *string   `json:"payload,omitempty"`
	OutLen  int       `json:"outlen"`
}

var protoFactory = frugal.NewFProtocolFactory(thrift.NewTBinaryProtocolFactoryConf(nil))

// ---- a minimal processor: method "ping" replies with an empty result struct ----

// The processor function is wired as generated code wires it: it embeds FBaseProcessorFunction
// (which shares the processor's write mutex) and replies through SendReply.
type pingFn struct {
	*frugal.FBaseProcessorFunction
	calls *int64
}

type emptyResult struct{}

func (emptyResult) Write(ctx context.Context, p thrift.TProtocol) error {
	if err := p.WriteStructBegin(ctx, "ping_result"); err != nil {
		return err
	}
	if err := p.WriteFieldStop(ctx); err != nil {
		return err
	}
	return p.WriteStructEnd(ctx)
}
func (emptyResult) Read(ctx context.Context, p thrift.TProtocol) error { return p.Skip(ctx, thrift.STRUCT) }
func (emptyResult) String() string                                     { return "ping_result" }

func (p *pingFn) Process(ctx frugal.FContext, in, out *frugal.FProtocol) error {
	c := context.Background()
	if err := in.Skip(c, thrift.STRUCT); err != nil {
		in.ReadMessageEnd(c)
		return p.SendError(ctx, out, frugal.APPLICATION_EXCEPTION_PROTOCOL_ERROR, "ping", err.Error())
	}
	if err := in.ReadMessageEnd(c); err != nil {
		return err
	}
	atomic.AddInt64(p.calls, 1)
	return p.SendReply(ctx, out, "ping", emptyResult{})
}

func newProcessor() (frugal.FProcessor, *int64) {
	var calls int64
	bp := frugal.NewFBaseProcessor()
	bp.AddToProcessorMap("ping", &pingFn{frugal.NewFBaseProcessorFunction(bp.GetWriteMutex(), nil), &calls})
	return bp, &calls
}

// goodRequest builds a framed, well-formed "ping" request (with size prefix).
func goodRequest(ctx frugal.FContext) []byte {
	mem := thrift.NewTMemoryBuffer()
	p := protoFactory.GetProtocol(mem)
	c := context.Background()
	p.WriteRequestHeader(ctx)
	p.WriteMessageBegin(c, "ping", thrift.CALL, 0)
	p.WriteStructBegin(c, "ping_args")
	p.WriteFieldStop(c)
	p.WriteStructEnd(c)
	p.WriteMessageEnd(c)
	p.Flush(c)
	b := mem.Bytes()
	out := make([]byte, 4+len(b))
	binary.BigEndian.PutUint32(out, uint32(len(b)))
	copy(out[4:], b)
	return out
}

// goodPublish builds a framed scope message for op "op" (as generated publishers do).
func goodPublish() []byte {
	ctx := frugal.NewFContext("")
	mem := thrift.NewTMemoryBuffer()
	p := protoFactory.GetProtocol(mem)
	c := context.Background()
	p.WriteRequestHeader(ctx)
	p.WriteMessageBegin(c, "op", thrift.CALL, 0)
	p.WriteStructBegin(c, "x")
	p.WriteFieldStop(c)
	p.WriteStructEnd(c)
	p.WriteMessageEnd(c)
	p.Flush(c)
	b := mem.Bytes()
	out := make([]byte, 4+len(b))
	binary.BigEndian.PutUint32(out, uint32(len(b)))
	copy(out[4:], b)
	return out
}

// scope callback as generated recv<Op> does: header, message begin, payload
func scopeCallback(count *int64) frugal.FAsyncCallback {
	return func(tr thrift.TTransport) error {
		p := protoFactory.GetProtocol(tr)
		if _, err := p.ReadRequestHeader(); err != nil {
			return err
		}
		c := context.Background()
		name, _, _, err := p.ReadMessageBegin(c)
		if err != nil {
			return err
		}
		if name != "op" {
			p.Skip(c, thrift.STRUCT)
			p.ReadMessageEnd(c)
			return thrift.NewTApplicationException(frugal.APPLICATION_EXCEPTION_UNKNOWN_METHOD, "Unknown function "+name)
		}
		if err := p.Skip(c, thrift.STRUCT); err != nil {
			return err
		}
		p.ReadMessageEnd(c)
		atomic.AddInt64(count, 1)
		return nil
	}
}

func waitFor(d time.Duration, f func() bool) bool {
	end := time.Now().Add(d)
	for time.Now().Before(end) {
		if f() {
			return true
		}
		time.Sleep(2 * time.Millisecond)
	}
	return f()
}

// ---- long-lived fixtures (one per process) ----

type fixtures struct {
	once     sync.Once
	err      error
	natsURL  string
	conn     *nats.Conn // raw publisher connection
	cliConn  *nats.Conn
	srvConn  *nats.Conn
	subConn  *nats.Conn
	client   frugal.FTransport
	inbox    string
	srvCalls *int64
	subCount int64
	stompAdr string
	stompPub *stomp.Conn
	stompCnt int64
	httpSrv  *httptest.Server
	httpCall *int64
}

var fx fixtures

func (f *fixtures) init() error {
	f.once.Do(func() {
		_, url, err := hx.StartNats()
		if err != nil {
			f.err = err
			return
		}
		f.natsURL = url
		conns := make([]*nats.Conn, 4)
		for i := range conns {
			if conns[i], err = hx.NatsConn(url); err != nil {
				f.err = err
				return
			}
		}
		f.conn, f.cliConn, f.srvConn, f.subConn = conns[0], conns[1], conns[2], conns[3]
		// server on subject "svc"
		proc, calls := newProcessor()
		f.srvCalls = calls
		srv := frugal.NewFNatsServerBuilder(f.srvConn, proc, protoFactory, []string{"svc"}).WithWorkerCount(1).Build()
		go srv.Serve()
		// client transport
		f.inbox = "inbox.c05"
		f.client = frugal.NewFNatsTransport(f.cliConn, "svc", f.inbox)
		if err := f.client.Open(); err != nil {
			f.err = err
			return
		}
		// scope subscriber on topic "t"
		sub := frugal.NewNatsFSubscriberTransport(f.subConn)
		if err := sub.Subscribe("t", scopeCallback(&f.subCount)); err != nil {
			f.err = err
			return
		}
		time.Sleep(50 * time.Millisecond)
		// stomp
		adr, _, err := hx.StartStomp()
		if err != nil {
			f.err = err
			return
		}
		f.stompAdr = adr
		sc, err := hx.StompConn(adr)
		if err != nil {
			f.err = err
			return
		}
		ssub := frugal.NewFStompSubscriberTransportFactoryBuilder(sc).Build().GetTransport()
		if err := ssub.Subscribe("t", scopeCallback(&f.stompCnt)); err != nil {
			f.err = err
			return
		}
		if f.stompPub, err = hx.StompConn(adr); err != nil {
			f.err = err
			return
		}
		// http
		hproc, hcalls := newProcessor()
		f.httpCall = hcalls
		f.httpSrv = httptest.NewServer(frugal.NewFrugalHandlerFunc(hproc, protoFactory))
	})
	return f.err
}

func classifyPanic(p string) (int, string) {
	if p == "hang" {
		return hx.CodeHang, p
	}
	if p != "" {
		return hx.CodePanic, p
	}
	return 0, ""
}

func handle(q req) resp {
	if strings.HasPrefix(q.Rx, "fr_") {
		return handleFraming(q)
	}
	if strings.HasPrefix(q.Rx, "hc_") || strings.HasPrefix(q.Rx, "hs_") {
		return handleHTTPIO(q)
	}
	bad, _ := hex.DecodeString(q.Bad)
	r := resp{Rx: q.Rx, Closed: -2}
	switch q.Rx {
	case "exec": // fBaseTransport.ExecuteFrame
		code, p := hx.Guarded(5*time.Second, func() int { return hx.Classify(frugal.VerifBaseExecuteFrame(bad)) })
		r.Code = code
		if c, s := classifyPanic(p); c != 0 {
			r.Code, r.Panic = c, s
		}
		return r
	case "rrh": // FProtocol.ReadRequestHeader
		code, p := hx.Guarded(5*time.Second, func() int {
			_, err := protoFactory.GetProtocol(&thrift.TMemoryBuffer{Buffer: bytes.NewBuffer(bad)}).ReadRequestHeader()
			return hx.Classify(err)
		})
		r.Code = code
		if c, s := classifyPanic(p); c != 0 {
			r.Code, r.Panic = c, s
		}
		return r
	}
	if err := fx.init(); err != nil {
		r.Code, r.Msg = 103, err.Error()
		return r
	}
	switch q.Rx {
	case "nats_client":
		// garbage straight into the client's inbox subject, then a real request
		fx.conn.Publish(fx.inbox+".1", bad)
		fx.conn.Flush()
		ctx := frugal.NewFContext("")
		ctx.SetTimeout(2 * time.Second)
		res, p := hx.Guarded(5*time.Second, func() error {
			_, err := fx.client.Request(ctx, goodRequest(ctx))
			return err
		})
		r.Good = p == "" && res == nil
		if res != nil {
			r.Msg = res.Error()
		}
		r.Code, r.Panic = classifyPanic(p)
	case "nats_server":
		before := atomic.LoadInt64(fx.srvCalls)
		fx.conn.PublishRequest("svc", "reply.c05.bad", bad)
		fx.conn.Flush()
		ctx := frugal.NewFContext("")
		ctx.SetTimeout(2 * time.Second)
		res, p := hx.Guarded(5*time.Second, func() error {
			_, err := fx.client.Request(ctx, goodRequest(ctx))
			return err
		})
		r.Good = p == "" && res == nil && atomic.LoadInt64(fx.srvCalls) > before
		if res != nil {
			r.Msg = res.Error()
		}
		r.Code, r.Panic = classifyPanic(p)
	case "nats_scope":
		before := atomic.LoadInt64(&fx.subCount)
		fx.conn.Publish("frugal.t", bad)
		fx.conn.Publish("frugal.t", goodPublish())
		fx.conn.Flush()
		r.Good = waitFor(2*time.Second, func() bool { return atomic.LoadInt64(&fx.subCount) == before+1 })
	case "stomp":
		before := atomic.LoadInt64(&fx.stompCnt)
		fx.stompPub.Send("/topic/frugal.t", "", bad)
		fx.stompPub.Send("/topic/frugal.t", "", goodPublish())
		r.Good = waitFor(2*time.Second, func() bool { return atomic.LoadInt64(&fx.stompCnt) == before+1 })
	case "http", "http_raw":
		before := atomic.LoadInt64(fx.httpCall)
		body := bad
		if q.Rx == "http" {
			body = []byte(base64.StdEncoding.EncodeToString(bad))
		}
		hr, err := http.Post(fx.httpSrv.URL, "application/x-frugal", bytes.NewReader(body))
		if err != nil {
			r.Code, r.Msg = hx.CodeOther, err.Error()
		} else {
			io.Copy(io.Discard, hr.Body)
			hr.Body.Close()
			r.Code = hr.StatusCode
		}
		ctx := frugal.NewFContext("")
		g := goodRequest(ctx)
		hr2, err := http.Post(fx.httpSrv.URL, "application/x-frugal", strings.NewReader(base64.StdEncoding.EncodeToString(g)))
		if err == nil {
			io.Copy(io.Discard, hr2.Body)
			hr2.Body.Close()
			r.Good = hr2.StatusCode == 200 && atomic.LoadInt64(fx.httpCall) > before
		}
	case "adapter":
		// a fresh connection per case: the bad stream, then EOF; observe how it closes
		c1, c2 := net.Pipe()
		tr := frugal.NewAdapterTransport(thrift.NewTSocketFromConnConf(c1, nil))
		if err := tr.Open(); err != nil {
			r.Code, r.Msg = 103, err.Error()
			return r
		}
		closed := tr.Closed()
		go func() {
			c2.SetWriteDeadline(time.Now().Add(3 * time.Second))
			c2.Write(bad)
			c2.Close()
		}()
		select {
		case cause, ok := <-closed:
			if !ok || cause == nil {
				r.Closed = 0
			} else {
				r.Closed = hx.Classify(cause)
				r.Msg = cause.Error()
			}
		case <-time.After(4 * time.Second):
			r.Closed = -1
		}
		_, p := hx.Guarded(3*time.Second, func() bool { return tr.IsOpen() })
		r.Code, r.Panic = classifyPanic(p)
		r.Good = true
	default:
		r.Code, r.Msg = 103, "unknown receiver"
	}
	return r
}

func main() {
	logrus.SetOutput(io.Discard)
	if err := hx.Serve(handle); err != nil {
		fmt.Fprintln(os.Stderr, "vh_c05:", err)
		os.Exit(3)
	}
}
