// HTTP side of C05: the response path of fHTTPTransport.Request/Oneway against an
// httptest server that answers with any status/body (optionally cutting the body
// short), base64.StdEncoding.DecodeString on its own (validates the transcription
// in Model/ReceiversHttp.v), and NewFrugalHandlerFunc called with any
// x-frugal-payload-limit value / Content-Length.
//
// requests (rx):
//   hc_resp {status, body(hex), trunc, n: 1 = Oneway} -> code, payload(hex)
//           code: 0 frame, 1 nil/nil, 1000+TTransportException type, 2000+TProtocolException type, 3000 other
//   hc_b64  {body(hex)}                                -> good (decoded without error), payload(hex)
//   hs_req  {bad: "good"|"raw", body(hex), limit(hex, optional), clen(optional)}
//           -> code (status), outlen (reference run: bytes the processor wrote), end (reference status)
package main

import (
	"strconv"
	"bytes"
	"encoding/base64"
	"encoding/hex"
	"fmt"
	"io"
	"net/http"
	"net/http/httptest"
	"sync"
	"time"

	frugal "github.com/Workiva/frugal/lib/go"
	"github.com/apache/thrift/lib/go/thrift"

	"verifharness/hx"
)

type hcScript struct {
	status int
	body   []byte
	trunc  bool
	over   int64
}

var (
	hcOnce   sync.Once
	hcSrv    *httptest.Server
	hcMu     sync.Mutex
	hcCur    hcScript
	hcClient frugal.FTransport
	hsOnce   sync.Once
	hsFunc   http.HandlerFunc
)

func hcInit() {
	hcOnce.Do(func() {
		hcSrv = httptest.NewServer(http.HandlerFunc(func(w http.ResponseWriter, r *http.Request) {
			io.Copy(io.Discard, r.Body)
			hcMu.Lock()
			s := hcCur
			hcMu.Unlock()
			if s.trunc {
				hj, ok := w.(http.Hijacker)
				if !ok {
					w.WriteHeader(599)
					return
				}
				conn, buf, err := hj.Hijack()
				if err != nil {
					return
				}
				fmt.Fprintf(buf, "HTTP/1.1 %d X\r\nContent-Length: %d\r\nConnection: close\r\n\r\n", s.status, int64(len(s.body))+s.over)
				buf.Write(s.body)
				buf.Flush()
				conn.Close()
				return
			}
			w.Header().Set("Content-Type", "application/x-frugal")
			w.WriteHeader(s.status)
			w.Write(s.body)
		}))
		hcClient = frugal.NewFHTTPTransportBuilder(&http.Client{}, hcSrv.URL).Build()
		hcClient.Open()
	})
}

func classifyHC(err error) int {
	if te, ok := err.(thrift.TTransportException); ok {
		return 1000 + int(te.TypeId())
	}
	if pe, ok := err.(thrift.TProtocolException); ok {
		return 2000 + pe.TypeId()
	}
	return 3000
}

func handleHTTPIO(q req) resp {
	r := resp{Rx: q.Rx, Closed: -2}
	body, err := hex.DecodeString(q.Body)
	if err != nil {
		r.Code, r.Msg = 103, err.Error()
		return r
	}
	switch q.Rx {
	case "hc_b64":
		type dres struct {
			b  []byte
			ok bool
		}
		d, p := hx.Guarded(5*time.Second, func() dres {
			b, err := base64.StdEncoding.DecodeString(string(body))
			return dres{b, err == nil}
		})
		if c, s := classifyPanic(p); c != 0 {
			r.Code, r.Panic = c, s
			return r
		}
		r.Good = d.ok
		if d.ok {
			h := hex.EncodeToString(d.b)
			r.Payload = &h
		}
	case "hc_resp":
		hcInit()
		hcMu.Lock()
		over := int64(10)
		if v, err := strconv.ParseInt(q.Over, 10, 64); err == nil && v > 0 {
			over = v
		}
		hcCur = hcScript{status: q.Status, body: body, trunc: q.Trunc, over: over}
		hcMu.Unlock()
		type cres struct {
			code    int
			payload *string
			msg     string
		}
		res, p := hx.Guarded(8*time.Second, func() cres {
			ctx := frugal.NewFContext("")
			ctx.SetTimeout(4 * time.Second)
			payload := []byte{0, 0, 0, 1, 42}
			if q.N == 1 {
				if err := hcClient.Oneway(ctx, payload); err != nil {
					return cres{code: classifyHC(err), msg: err.Error()}
				}
				return cres{code: 1}
			}
			if q.N == 2 {
				// the same response met by a two-way call of FStandardClient (what generated clients do)
				cl := frugal.NewFStandardClient(frugal.NewFServiceProvider(hcClient, protoFactory))
				err := cl.Call(ctx, "ping", thrift.NewTApplicationException(0, ""), thrift.NewTApplicationException(0, ""))
				if err != nil {
					return cres{code: classifyHC(err), msg: err.Error()}
				}
				return cres{code: 0}
			}
			tp, err := hcClient.Request(ctx, payload)
			if err != nil {
				return cres{code: classifyHC(err), msg: err.Error()}
			}
			if tp == nil {
				return cres{code: 1}
			}
			b, _ := io.ReadAll(tp)
			h := hex.EncodeToString(b)
			return cres{code: 0, payload: &h}
		})
		if c, s := classifyPanic(p); c != 0 {
			r.Code, r.Panic = c, s
			return r
		}
		r.Code, r.Payload = res.code, res.payload
		if len(res.msg) > 200 {
			res.msg = res.msg[:200]
		}
		r.Msg = res.msg
	case "hs_req":
		hsOnce.Do(func() {
			proc, _ := newProcessor()
			hsFunc = frugal.NewFrugalHandlerFunc(proc, protoFactory)
		})
		if q.Bad == "good" {
			body = []byte(base64.StdEncoding.EncodeToString(goodRequest(frugal.NewFContext(""))))
		}
		call := func(limit *string, clen *int64) (int, []byte, string) {
			type hres struct {
				code int
				body []byte
			}
			res, p := hx.Guarded(5*time.Second, func() hres {
				rq := httptest.NewRequest("POST", "/frugal", bytes.NewReader(body))
				if limit != nil {
					rq.Header["X-Frugal-Payload-Limit"] = []string{*limit}
				}
				if clen != nil {
					rq.ContentLength = *clen
				}
				rec := httptest.NewRecorder()
				hsFunc(rec, rq)
				return hres{rec.Code, rec.Body.Bytes()}
			})
			return res.code, res.body, p
		}
		// reference run: no limit header, honest Content-Length
		rc, rb, p := call(nil, nil)
		if c, s := classifyPanic(p); c != 0 {
			r.Code, r.Panic = c, s
			return r
		}
		r.End = rc
		r.OutLen = -1
		if rc == 200 {
			if dec, err := base64.StdEncoding.DecodeString(string(rb)); err == nil && len(dec) >= 4 {
				r.OutLen = len(dec) - 4
			}
		}
		var limit *string
		if q.Limit != nil {
			lb, err := hex.DecodeString(*q.Limit)
			if err != nil {
				r.Code, r.Msg = 103, err.Error()
				return r
			}
			s := string(lb)
			limit = &s
		}
		sc, sb, p := call(limit, q.CLen)
		if c, s := classifyPanic(p); c != 0 {
			r.Code, r.Panic = c, s
			return r
		}
		r.Code = sc
		if sc == 200 {
			if dec, err := base64.StdEncoding.DecodeString(string(sb)); err == nil && len(dec) >= 4 {
				r.Calls = len(dec) - 4 // bytes of the reply actually sent
				r.Good = true
			}
		}
	default:
		r.Code, r.Msg = 103, "unknown http receiver"
	}
	return r
}
