package main

func handleHTTPIO(q req) resp { return resp{Rx: q.Rx, Code: 103, Msg: "not yet"} }
