// vh_lab: protocol-level reference equipment for the generated-code checks (C02 ...), independent
// of any generated code: a schema-less Thrift reader and writer over Apache Thrift's protocols.
//
// requests (JSON lines on stdin):
//
//	{"op":"tree",  "proto":"binary|compact|json", "bytes":hex}   -> {"code":0,"tree":T,"rest":n}
//	{"op":"build", "proto":..., "tree":T}                        -> {"code":0,"out":hex}
//
// T: struct {"s":[[id, wiretype, v], ...]}, list {"l":[etype,[v...]]}, set {"e":[etype,[v...]]},
// map {"m":[ktype,vtype,[[k,v]...]]}, bool true/false, integers as numbers (i64 as decimal
// string), double as 16 hex digits of its bits, string/binary as hex.
package main

import (
	"context"
	"encoding/hex"
	"encoding/json"
	"fmt"
	"math"
	"os"
	"strconv"
	"time"

	"github.com/apache/thrift/lib/go/thrift"

	"verifharness/hx"
	labdriver "verifharness/lab/driver"
)

type req struct {
	Op    string      `json:"op"`
	Proto string      `json:"proto"`
	Bytes string      `json:"bytes"`
	Tree  interface{} `json:"tree"`
}

type resp struct {
	Code  int         `json:"code"`
	Tree  interface{} `json:"tree,omitempty"`
	Out   string      `json:"out,omitempty"`
	Rest  int         `json:"rest"`
	Err   string      `json:"err,omitempty"`
	Panic string      `json:"panic,omitempty"`
}

func num(x interface{}) (int64, error) {
	switch v := x.(type) {
	case float64:
		return int64(v), nil
	case string:
		return strconv.ParseInt(v, 10, 64)
	case json.Number:
		return v.Int64()
	}
	return 0, fmt.Errorf("not a number: %T", x)
}

func writeValue(ctx context.Context, p thrift.TProtocol, t thrift.TType, v interface{}) error {
	switch t {
	case thrift.BOOL:
		b, _ := v.(bool)
		return p.WriteBool(ctx, b)
	case thrift.BYTE:
		n, err := num(v)
		if err != nil {
			return err
		}
		return p.WriteByte(ctx, int8(n))
	case thrift.I16:
		n, err := num(v)
		if err != nil {
			return err
		}
		return p.WriteI16(ctx, int16(n))
	case thrift.I32:
		n, err := num(v)
		if err != nil {
			return err
		}
		return p.WriteI32(ctx, int32(n))
	case thrift.I64:
		n, err := num(v)
		if err != nil {
			return err
		}
		return p.WriteI64(ctx, n)
	case thrift.DOUBLE:
		s, _ := v.(string)
		bits, err := strconv.ParseUint(s, 16, 64)
		if err != nil {
			return err
		}
		return p.WriteDouble(ctx, math.Float64frombits(bits))
	case thrift.STRING:
		// {"bin": hex} is written with WriteBinary (differs from WriteString under JSON), plain hex with WriteString
		if m, ok := v.(map[string]interface{}); ok {
			s, _ := m["bin"].(string)
			b, err := hex.DecodeString(s)
			if err != nil {
				return err
			}
			return p.WriteBinary(ctx, b)
		}
		s, _ := v.(string)
		b, err := hex.DecodeString(s)
		if err != nil {
			return err
		}
		return p.WriteString(ctx, string(b))
	case thrift.STRUCT:
		return writeStruct(ctx, p, v)
	case thrift.LIST, thrift.SET:
		m, _ := v.(map[string]interface{})
		key := "l"
		if t == thrift.SET {
			key = "e"
		}
		arr, _ := m[key].([]interface{})
		if len(arr) != 2 {
			return fmt.Errorf("bad list/set node")
		}
		et, err := num(arr[0])
		if err != nil {
			return err
		}
		vals, _ := arr[1].([]interface{})
		if t == thrift.LIST {
			err = p.WriteListBegin(ctx, thrift.TType(et), len(vals))
		} else {
			err = p.WriteSetBegin(ctx, thrift.TType(et), len(vals))
		}
		if err != nil {
			return err
		}
		for _, x := range vals {
			if err := writeValue(ctx, p, thrift.TType(et), x); err != nil {
				return err
			}
		}
		if t == thrift.LIST {
			return p.WriteListEnd(ctx)
		}
		return p.WriteSetEnd(ctx)
	case thrift.MAP:
		m, _ := v.(map[string]interface{})
		arr, _ := m["m"].([]interface{})
		if len(arr) != 3 {
			return fmt.Errorf("bad map node")
		}
		kt, err := num(arr[0])
		if err != nil {
			return err
		}
		vt, err := num(arr[1])
		if err != nil {
			return err
		}
		vals, _ := arr[2].([]interface{})
		if err := p.WriteMapBegin(ctx, thrift.TType(kt), thrift.TType(vt), len(vals)); err != nil {
			return err
		}
		for _, x := range vals {
			pair, _ := x.([]interface{})
			if len(pair) != 2 {
				return fmt.Errorf("bad map entry")
			}
			if err := writeValue(ctx, p, thrift.TType(kt), pair[0]); err != nil {
				return err
			}
			if err := writeValue(ctx, p, thrift.TType(vt), pair[1]); err != nil {
				return err
			}
		}
		return p.WriteMapEnd(ctx)
	}
	return fmt.Errorf("unknown wire type %d", t)
}

func writeStruct(ctx context.Context, p thrift.TProtocol, v interface{}) error {
	m, _ := v.(map[string]interface{})
	fields, _ := m["s"].([]interface{})
	if err := p.WriteStructBegin(ctx, "S"); err != nil {
		return err
	}
	for _, f := range fields {
		t, _ := f.([]interface{})
		if len(t) != 3 {
			return fmt.Errorf("bad field")
		}
		id, err := num(t[0])
		if err != nil {
			return err
		}
		wt, err := num(t[1])
		if err != nil {
			return err
		}
		if err := p.WriteFieldBegin(ctx, "f", thrift.TType(wt), int16(id)); err != nil {
			return err
		}
		if err := writeValue(ctx, p, thrift.TType(wt), t[2]); err != nil {
			return err
		}
		if err := p.WriteFieldEnd(ctx); err != nil {
			return err
		}
	}
	if err := p.WriteFieldStop(ctx); err != nil {
		return err
	}
	return p.WriteStructEnd(ctx)
}

func handle(q req) resp {
	r, why := hx.Guarded(20*time.Second, func() resp {
		ctx := context.Background()
		switch q.Op {
		case "tree":
			b, err := hex.DecodeString(q.Bytes)
			if err != nil {
				return resp{Code: 103, Err: err.Error()}
			}
			buf := thrift.NewTMemoryBuffer()
			buf.Write(b)
			p, err := labdriver.Protocol(q.Proto, buf)
			if err != nil {
				return resp{Code: 103, Err: err.Error()}
			}
			t, err := labdriver.TreeStruct(ctx, p, 0)
			if err != nil {
				return resp{Code: labdriver.Classify(err), Err: err.Error()}
			}
			return resp{Code: 0, Tree: t, Rest: buf.Len()}
		case "build":
			buf := thrift.NewTMemoryBuffer()
			p, err := labdriver.Protocol(q.Proto, buf)
			if err != nil {
				return resp{Code: 103, Err: err.Error()}
			}
			if err := writeStruct(ctx, p, q.Tree); err != nil {
				return resp{Code: 7, Err: err.Error()}
			}
			if err := p.Flush(ctx); err != nil {
				return resp{Code: 7, Err: err.Error()}
			}
			return resp{Code: 0, Out: hex.EncodeToString(buf.Bytes())}
		}
		return resp{Code: 103, Err: "unknown op " + q.Op}
	})
	if why != "" {
		if why == "hang" {
			return resp{Code: 102, Err: why}
		}
		return resp{Code: 100, Panic: why}
	}
	return r
}

func main() {
	if err := hx.Serve(handle); err != nil {
		fmt.Fprintln(os.Stderr, "vh_lab:", err)
		os.Exit(3)
	}
}
