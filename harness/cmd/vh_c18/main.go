// vh_c18: drives the real IDL auditor (compiler/parser) for property C18.
//
// Request (one JSON object per line on stdin): {"old": "<path>", "new": "<path>"}.
// Response: the two parse trees as the audit sees them (root declarations, table of parsed
// files with their typedefs and includes), every message the auditor logged (level 1 = error,
// 2 = warning; pieces joined by one space, as the repository's own mock logger does) and whether
// Audit returned an error.
package main

import (
	"fmt"
	"math"
	"os"
	"sort"
	"strings"
	"time"

	"github.com/Workiva/frugal/compiler/parser"

	"verifharness/hx"
)

type req struct {
	Old string `json:"old"`
	New string `json:"new"`
}

type jty []interface{} // nil or [name, key, value]

type jfield struct {
	ID      int    `json:"id"`
	Name    string `json:"name"`
	Mod     int    `json:"mod"` // 0 required, 1 optional, 2 default
	Type    jty    `json:"type"`
	Default string `json:"default"`
}
type jstruct struct {
	Name   string   `json:"name"`
	Fields []jfield `json:"fields"`
}
type jenumv struct {
	Name  string `json:"name"`
	Value int    `json:"value"`
}
type jenum struct {
	Name   string   `json:"name"`
	Values []jenumv `json:"values"`
}
type jconst struct {
	Name  string `json:"name"`
	Type  jty    `json:"type"`
	Value string `json:"value"`
}
type jns struct {
	Scope string `json:"scope"`
	Value string `json:"value"`
}
type jmethod struct {
	Name   string   `json:"name"`
	Oneway bool     `json:"oneway"`
	Ret    jty      `json:"ret"`
	Args   []jfield `json:"args"`
	Excs   []jfield `json:"excs"`
}
type jservice struct {
	Name    string    `json:"name"`
	Extends string    `json:"extends"`
	Methods []jmethod `json:"methods"`
}
type jop struct {
	Name string `json:"name"`
	Type jty    `json:"type"`
}
type jscope struct {
	Name   string `json:"name"`
	Prefix string `json:"prefix"`
	Ops    []jop  `json:"ops"`
}
type jtypedef struct {
	Name string `json:"name"`
	Type jty    `json:"type"`
}
type jinclude struct {
	Name string `json:"name"`
	File int    `json:"file"`
}
type jfile struct {
	Name     string     `json:"name"`
	Typedefs []jtypedef `json:"typedefs"`
	Includes []jinclude `json:"includes"`
}
type jprogram struct {
	Files      []jfile    `json:"files"`
	Scopes     []jscope   `json:"scopes"`
	Namespaces []jns      `json:"namespaces"`
	Constants  []jconst   `json:"constants"`
	Enums      []jenum    `json:"enums"`
	Structs    []jstruct  `json:"structs"`
	Exceptions []jstruct  `json:"exceptions"`
	Unions     []jstruct  `json:"unions"`
	Services   []jservice `json:"services"`
}

type jdiag struct {
	Level int    `json:"level"`
	Msg   string `json:"msg"`
}

type resp struct {
	ParseErr string    `json:"parse_err,omitempty"`
	Crash    string    `json:"crash,omitempty"`
	Old      *jprogram `json:"old,omitempty"`
	New      *jprogram `json:"new,omitempty"`
	Diags    []jdiag   `json:"diags"`
	Failed   bool      `json:"failed"`
	Err      string    `json:"err,omitempty"`
}

type capture struct {
	diags []jdiag
	errs  int
}

func (c *capture) LogWarning(p ...string) {
	c.diags = append(c.diags, jdiag{2, strings.Join(p, " ")})
}
func (c *capture) LogError(p ...string) {
	c.errs++
	c.diags = append(c.diags, jdiag{1, strings.Join(p, " ")})
}
func (c *capture) ErrorsLogged() bool { return c.errs > 0 }

func expType(t *parser.Type) jty {
	if t == nil {
		return nil
	}
	return jty{t.Name, expType(t.KeyType), expType(t.ValueType)}
}

// render: reflect.DeepEqual(a, b) iff render(a) == render(b) for the values the parser produces
func render(v interface{}) string {
	switch x := v.(type) {
	case nil:
		return ""
	case int64:
		return fmt.Sprintf("i%d", x)
	case float64:
		if x == 0 {
			return "d0" // DeepEqual compares floats with ==: 0 and -0 are equal
		}
		return fmt.Sprintf("d%x", math.Float64bits(x))
	case bool:
		return fmt.Sprintf("b%v", x)
	case string:
		return fmt.Sprintf("s%q", x)
	case parser.Identifier:
		return fmt.Sprintf("n%q", string(x))
	case []interface{}:
		parts := make([]string, len(x))
		for i, e := range x {
			parts[i] = render(e)
		}
		return "l" + fmt.Sprint(len(x)) + "[" + strings.Join(parts, ",") + "]"
	case []parser.KeyValue:
		parts := make([]string, len(x))
		for i, e := range x {
			parts[i] = render(e.Key) + ":" + render(e.Value)
		}
		return "m" + fmt.Sprint(len(x)) + "{" + strings.Join(parts, ",") + "}"
	default:
		return fmt.Sprintf("?%T:%#v", v, v)
	}
}

func expFields(fs []*parser.Field) []jfield {
	out := make([]jfield, 0, len(fs))
	for _, f := range fs {
		out = append(out, jfield{f.ID, f.Name, int(f.Modifier), expType(f.Type), render(f.Default)})
	}
	return out
}

func expStructs(ss []*parser.Struct) []jstruct {
	out := make([]jstruct, 0, len(ss))
	for _, s := range ss {
		out = append(out, jstruct{s.Name, expFields(s.Fields)})
	}
	return out
}

func export(root *parser.Frugal) *jprogram {
	p := &jprogram{}
	// table of files: breadth first from the root, one entry per distinct *Frugal
	index := map[*parser.Frugal]int{root: 0}
	queue := []*parser.Frugal{root}
	for qi := 0; qi < len(queue); qi++ {
		f := queue[qi]
		names := make([]string, 0, len(f.ParsedIncludes))
		for n := range f.ParsedIncludes {
			names = append(names, n)
		}
		sort.Strings(names)
		jf := jfile{Name: f.Name, Typedefs: []jtypedef{}, Includes: []jinclude{}}
		for _, td := range f.Typedefs {
			jf.Typedefs = append(jf.Typedefs, jtypedef{td.Name, expType(td.Type)})
		}
		for _, n := range names {
			inc := f.ParsedIncludes[n]
			if _, ok := index[inc]; !ok {
				index[inc] = len(queue)
				queue = append(queue, inc)
			}
			jf.Includes = append(jf.Includes, jinclude{n, index[inc]})
		}
		p.Files = append(p.Files, jf)
	}
	p.Scopes = []jscope{}
	for _, s := range root.Scopes {
		js := jscope{Name: s.Name, Prefix: s.Prefix.String, Ops: []jop{}}
		for _, o := range s.Operations {
			js.Ops = append(js.Ops, jop{o.Name, expType(o.Type)})
		}
		p.Scopes = append(p.Scopes, js)
	}
	p.Namespaces = []jns{}
	for _, n := range root.Namespaces {
		p.Namespaces = append(p.Namespaces, jns{n.Scope, n.Value})
	}
	p.Constants = []jconst{}
	for _, c := range root.Constants {
		p.Constants = append(p.Constants, jconst{c.Name, expType(c.Type), render(c.Value)})
	}
	p.Enums = []jenum{}
	for _, e := range root.Enums {
		je := jenum{Name: e.Name, Values: []jenumv{}}
		for _, v := range e.Values {
			je.Values = append(je.Values, jenumv{v.Name, v.Value})
		}
		p.Enums = append(p.Enums, je)
	}
	p.Structs = expStructs(root.Structs)
	p.Exceptions = expStructs(root.Exceptions)
	p.Unions = expStructs(root.Unions)
	p.Services = []jservice{}
	for _, s := range root.Services {
		js := jservice{Name: s.Name, Extends: s.Extends, Methods: []jmethod{}}
		for _, m := range s.Methods {
			js.Methods = append(js.Methods, jmethod{m.Name, m.Oneway, expType(m.ReturnType),
				expFields(m.Arguments), expFields(m.Exceptions)})
		}
		p.Services = append(p.Services, js)
	}
	return p
}

func handle(q req) resp {
	r, crash := hx.Guarded(20*time.Second, func() resp {
		var out resp
		out.Diags = []jdiag{}
		oldF, err := parser.ParseFrugal(q.Old)
		if err != nil {
			out.ParseErr = "old: " + err.Error()
			return out
		}
		newF, err := parser.ParseFrugal(q.New)
		if err != nil {
			out.ParseErr = "new: " + err.Error()
			return out
		}
		out.Old = export(oldF)
		out.New = export(newF)
		lg := &capture{}
		err = parser.NewAuditorWithLogger(lg).Audit(q.Old, q.New)
		if lg.diags != nil {
			out.Diags = lg.diags
		}
		out.Failed = err != nil
		if err != nil {
			out.Err = err.Error()
		}
		return out
	})
	if crash != "" {
		return resp{Crash: crash, Diags: []jdiag{}}
	}
	return r
}

func main() {
	if err := hx.Serve(handle); err != nil {
		fmt.Fprintln(os.Stderr, "vh_c18:", err)
		os.Exit(3)
	}
}
