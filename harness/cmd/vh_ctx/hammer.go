package main

import (
	"encoding/json"
	"fmt"
	"os"
	"runtime"
	"sync"
	"sync/atomic"

	frugal "github.com/Workiva/frugal/lib/go"
)

// Mode "hammer": the layer every generated client method, processor function and subscriber callback goes through
// - one frugal.Method per service method, shared by all requests, invoked reflectively through its middleware chain -
// under back-to-back invocations from several goroutines.  Each invocation brings its own FContext (correlation id =
// its tag, a request header of its own) and its tag as the argument; the handler answers with what ITS context says
// and adds a response header to it.  The caller then looks at what came back and at its own context (C09: "each
// handler invocation sees the FContext of its own request and response headers reach the caller that made it").

type hammerReq struct {
	Goroutines int `json:"goroutines"`
	Calls      int `json:"calls"`
	Middleware int `json:"middleware"` // pass-through middlewares around the handler
}

type hammerResp struct {
	Invocations  int    `json:"invocations"`
	WrongContext int64  `json:"wrong_context"` // handler invocations whose FContext was not the one of the invocation's argument
	WrongResult  int64  `json:"wrong_result"`  // callers that got another call's result, or whose context lacks their handler's header
	First        string `json:"first,omitempty"`
	Panic        string `json:"panic,omitempty"`
}

type hammerHandler struct {
	wrong int64
}

func (h *hammerHandler) Echo(ctx frugal.FContext, tag string) (string, error) {
	own, _ := ctx.RequestHeader("x-own")
	if ctx.CorrelationID() != tag || own != tag {
		atomic.AddInt64(&h.wrong, 1)
	}
	ctx.AddResponseHeader("echo", tag)
	return ctx.CorrelationID(), nil
}

func hammer() {
	var q hammerReq
	if err := json.NewDecoder(os.Stdin).Decode(&q); err != nil {
		fmt.Fprintln(os.Stderr, "vh_ctx hammer:", err)
		os.Exit(3)
	}
	if q.Goroutines <= 0 {
		q.Goroutines = 8
	}
	if runtime.GOMAXPROCS(0) < 2 {
		runtime.GOMAXPROCS(2)
	}
	h := &hammerHandler{}
	var mws []frugal.ServiceMiddleware
	for i := 0; i < q.Middleware; i++ {
		mws = append(mws, func(next frugal.InvocationHandler) frugal.InvocationHandler { return next })
	}
	method := frugal.NewMethod(h, h.Echo, "Echo", mws)
	var r hammerResp
	var mu sync.Mutex
	var wg sync.WaitGroup
	start := make(chan struct{})
	for g := 0; g < q.Goroutines; g++ {
		wg.Add(1)
		go func(g int) {
			defer wg.Done()
			defer func() {
				if p := recover(); p != nil {
					mu.Lock()
					r.Panic = fmt.Sprint(p)
					mu.Unlock()
				}
			}()
			<-start
			for i := 0; i < q.Calls; i++ {
				tag := fmt.Sprintf("g%d-c%d", g, i)
				fctx := frugal.NewFContext(tag)
				fctx.AddRequestHeader("x-own", tag)
				res := method.Invoke([]interface{}{fctx, tag})
				got, _ := res[0].(string)
				echo, ok := fctx.ResponseHeader("echo")
				if got != tag || !ok || echo != tag || res.Error() != nil {
					if atomic.AddInt64(&r.WrongResult, 1) == 1 {
						mu.Lock()
						r.First = fmt.Sprintf("call %s returned %q; its context's response header echo = %q (present %v)", tag, got, echo, ok)
						mu.Unlock()
					}
				}
			}
		}(g)
	}
	close(start)
	wg.Wait()
	r.Invocations = q.Goroutines * q.Calls
	r.WrongContext = atomic.LoadInt64(&h.wrong)
	json.NewEncoder(os.Stdout).Encode(r)
}
