// vh_ctx: runs FContext operation sequences on the real implementation and dumps
// every context's maps after every operation (C09, C17).
//
// request:  {"ops":[{"k":1,"cid":hex} | {"k":2,"i":n,"m":0|1|2,"key":hex,"val":hex} | {"k":3,"i":n,"ns":int}
//                   | {"k":4,"i":n,"m":..} | {"k":5,"u":n,"key":..,"val":..} | {"k":6,"i":n,"generic":bool}
//                   | {"k":7} | {"k":8,"p":n,"hdrs":[[hexk,hexv]..]} | {"k":9,"i":n,"hdrs":..}]}
// response: {"start":uint, "dumps":[{"ctxs":[{"req":[[k,v]..],"resp":..,"eph":..,"timeout_ns":int}],"umaps":[[[k,v]..]..]}]}
package main

import (
	"bytes"
	"context"
	"encoding/hex"
	"fmt"
	"io"
	"os"
	"sort"
	"strconv"
	"time"

	frugal "github.com/Workiva/frugal/lib/go"
	"github.com/apache/thrift/lib/go/thrift"
	"github.com/sirupsen/logrus"

	"verifharness/hx"
)

type opq struct {
	K       int         `json:"k"`
	Cid     string      `json:"cid"`
	I       int         `json:"i"`
	M       int         `json:"m"`
	Key     string      `json:"key"`
	Val     string      `json:"val"`
	Ns      int64       `json:"ns"`
	U       int         `json:"u"`
	P       int         `json:"p"`
	Generic bool        `json:"generic"`
	Hdrs    [][2]string `json:"hdrs"`
	FromU   *int        `json:"from_u"`
	Hadd    [][2]string `json:"hadd"`
	Size    int         `json:"size"`
	Limit   int         `json:"limit"`
}

type req struct {
	Ops []opq `json:"ops"`
}

type ctxDump struct {
	Req       [][2]string `json:"req"`
	Resp      [][2]string `json:"resp"`
	Eph       [][2]string `json:"eph"`
	TimeoutNs int64       `json:"timeout_ns"`
}

type dump struct {
	Reply string          `json:"reply,omitempty"`
	Ctxs  []ctxDump       `json:"ctxs"`
	Umaps [][][2]string   `json:"umaps"`
	Err   string          `json:"err,omitempty"`
}

type resp struct {
	Start uint64 `json:"start"`
	Dumps []dump `json:"dumps"`
	Panic string `json:"panic,omitempty"`
}

func unhex(s string) string {
	b, _ := hex.DecodeString(s)
	return string(b)
}

func sorted(m map[string]string) [][2]string {
	keys := make([]string, 0, len(m))
	for k := range m {
		keys = append(keys, k)
	}
	sort.Strings(keys)
	out := make([][2]string, 0, len(m))
	for _, k := range keys {
		out = append(out, [2]string{hex.EncodeToString([]byte(k)), hex.EncodeToString([]byte(m[k]))})
	}
	return out
}

func ephStrings(m map[interface{}]interface{}) map[string]string {
	out := make(map[string]string, len(m))
	for k, v := range m {
		out[fmt.Sprint(k)] = fmt.Sprint(v)
	}
	return out
}

// a user-held map is either a header map or an ephemeral-property map
type umap struct {
	s map[string]string
	e map[interface{}]interface{}
}

type proto struct {
	p   *frugal.FProtocol
	mem *thrift.TMemoryBuffer
}

var pf = frugal.NewFProtocolFactory(thrift.NewTBinaryProtocolFactoryConf(nil))

func hdrMap(h [][2]string) map[string]string {
	m := make(map[string]string)
	for _, p := range h {
		m[unhex(p[0])] = unhex(p[1])
	}
	return m
}

// wire bytes for headers in the given order (duplicates kept: the decoder's last-wins applies)
func wire(h [][2]string) []byte {
	var body bytes.Buffer
	for _, p := range h {
		k, v := unhex(p[0]), unhex(p[1])
		body.Write([]byte{byte(len(k) >> 24), byte(len(k) >> 16), byte(len(k) >> 8), byte(len(k))})
		body.WriteString(k)
		body.Write([]byte{byte(len(v) >> 24), byte(len(v) >> 16), byte(len(v) >> 8), byte(len(v))})
		body.WriteString(v)
	}
	n := body.Len()
	out := []byte{0, byte(n >> 24), byte(n >> 16), byte(n >> 8), byte(n)}
	return append(out, body.Bytes()...)
}

func run(q req) resp {
	var r resp
	first := frugal.NewFContext("x")
	id, _ := frugal.VerifGetOpID(first)
	r.Start = id
	var ctxs []frugal.FContext
	var umaps []umap
	var protos []proto
	for _, o := range q.Ops {
		var d dump
		if o.FromU != nil {
			// headers = current content of a user-held map (what travelled on the wire)
			u := umaps[*o.FromU]
			if u.s != nil {
				o.Hdrs = sorted(u.s)
			}
		}
		switch o.K {
		case 1:
			ctxs = append(ctxs, frugal.NewFContext(unhex(o.Cid)))
		case 2:
			c := ctxs[o.I]
			switch o.M {
			case 0:
				c.AddRequestHeader(unhex(o.Key), unhex(o.Val))
			case 1:
				c.AddResponseHeader(unhex(o.Key), unhex(o.Val))
			default:
				c.(frugal.FContextWithEphemeralProperties).AddEphemeralProperty(unhex(o.Key), unhex(o.Val))
			}
		case 3:
			ctxs[o.I].SetTimeout(time.Duration(o.Ns))
		case 4:
			c := ctxs[o.I]
			switch o.M {
			case 0:
				umaps = append(umaps, umap{s: c.RequestHeaders()})
			case 1:
				umaps = append(umaps, umap{s: c.ResponseHeaders()})
			default:
				umaps = append(umaps, umap{e: c.(frugal.FContextWithEphemeralProperties).EphemeralProperties()})
			}
		case 5:
			u := umaps[o.U]
			if u.s != nil {
				u.s[unhex(o.Key)] = unhex(o.Val)
			} else {
				u.e[unhex(o.Key)] = unhex(o.Val)
			}
		case 6:
			ctxs = append(ctxs, frugal.Clone(ctxs[o.I]))
		case 7:
			mem := thrift.NewTMemoryBuffer()
			protos = append(protos, proto{p: pf.GetProtocol(mem), mem: mem})
		case 8:
			p := protos[o.P]
			p.mem.Reset()
			p.mem.Write(wire(o.Hdrs))
			c, err := p.p.ReadRequestHeader()
			if err != nil {
				d.Err = err.Error()
			} else {
				ctxs = append(ctxs, c)
			}
		case 10:
			// a request on the wire: the real WriteRequestHeader of context i, then the real
			// ReadRequestHeader of protocol object p
			p := protos[o.P]
			p.mem.Reset()
			wmem := thrift.NewTMemoryBuffer()
			if err := pf.GetProtocol(wmem).WriteRequestHeader(ctxs[o.I]); err != nil {
				d.Err = err.Error()
				break
			}
			p.mem.Write(wmem.Bytes())
			p.mem.Write([]byte("payload"))
			c, err := p.p.ReadRequestHeader()
			if err != nil {
				d.Err = err.Error()
			} else {
				ctxs = append(ctxs, c)
			}
			if rest := p.mem.Bytes(); string(rest) != "payload" {
				d.Err = "payload after the request header was disturbed"
			}
		case 11:
			// the reply: WriteResponseHeader of context j (= o.I), ReadResponseHeader into context o.U
			wmem := thrift.NewTMemoryBuffer()
			if err := pf.GetProtocol(wmem).WriteResponseHeader(ctxs[o.I]); err != nil {
				d.Err = err.Error()
				break
			}
			wmem.Write([]byte("payload"))
			if err := pf.GetProtocol(wmem).ReadResponseHeader(ctxs[o.U]); err != nil {
				d.Err = err.Error()
			}
			if string(wmem.Bytes()) != "payload" {
				d.Err = "payload after the response header was disturbed"
			}
		case 12:
			// a whole call through a real FBaseProcessor whose output buffer is bounded: the handler adds
			// response headers and returns a payload of o.Size bytes; the reply (or the RESPONSE_TOO_LARGE
			// error reply) is read back into the caller's context
			reply, sctx, sp, err := processorCall(ctxs[o.I], o.Hadd, o.Size, o.Limit)
			if sp != nil {
				protos = append(protos, *sp)
			}
			if sctx != nil {
				ctxs = append(ctxs, sctx)
			}
			if err != nil {
				d.Err = err.Error()
			}
			d.Reply = reply
		case 9:
			mem := thrift.NewTMemoryBuffer()
			mem.Write(wire(o.Hdrs))
			if err := pf.GetProtocol(mem).ReadResponseHeader(ctxs[o.I]); err != nil {
				d.Err = err.Error()
			}
		}
		for _, c := range ctxs {
			cd := ctxDump{Req: sorted(c.RequestHeaders()), Resp: sorted(c.ResponseHeaders()), TimeoutNs: int64(c.Timeout())}
			if e, ok := c.(frugal.FContextWithEphemeralProperties); ok {
				cd.Eph = sorted(ephStrings(e.EphemeralProperties()))
			}
			d.Ctxs = append(d.Ctxs, cd)
		}
		for _, u := range umaps {
			if u.s != nil {
				d.Umaps = append(d.Umaps, sorted(u.s))
			} else {
				d.Umaps = append(d.Umaps, sorted(ephStrings(u.e)))
			}
		}
		r.Dumps = append(r.Dumps, d)
	}
	_ = strconv.Itoa
	return r
}

// ---- one call through FBaseProcessor with a bounded output buffer ----

type echoResult struct{ payload []byte }

func (r echoResult) Write(ctx context.Context, p thrift.TProtocol) error {
	p.WriteStructBegin(ctx, "echo_result")
	p.WriteFieldBegin(ctx, "success", thrift.STRING, 0)
	if err := p.WriteBinary(ctx, r.payload); err != nil {
		return err
	}
	p.WriteFieldEnd(ctx)
	if err := p.WriteFieldStop(ctx); err != nil {
		return err
	}
	return p.WriteStructEnd(ctx)
}
func (echoResult) Read(ctx context.Context, p thrift.TProtocol) error { return p.Skip(ctx, thrift.STRUCT) }
func (echoResult) String() string                                     { return "echo_result" }

type echoFn struct {
	*frugal.FBaseProcessorFunction
	hadd [][2]string
	size int
	seen frugal.FContext
}

func (e *echoFn) Process(fctx frugal.FContext, in, out *frugal.FProtocol) error {
	c := context.Background()
	in.Skip(c, thrift.STRUCT)
	in.ReadMessageEnd(c)
	e.seen = fctx
	for _, kv := range e.hadd {
		fctx.AddResponseHeader(unhex(kv[0]), unhex(kv[1]))
	}
	return e.SendReply(fctx, out, "echo", echoResult{payload: make([]byte, e.size)})
}

func processorCall(caller frugal.FContext, hadd [][2]string, size, limit int) (string, frugal.FContext, *proto, error) {
	c := context.Background()
	// request frame
	reqMem := thrift.NewTMemoryBuffer()
	rp := pf.GetProtocol(reqMem)
	if err := rp.WriteRequestHeader(caller); err != nil {
		return "", nil, nil, err
	}
	rp.WriteMessageBegin(c, "echo", thrift.CALL, 0)
	rp.WriteStructBegin(c, "echo_args")
	rp.WriteFieldStop(c)
	rp.WriteStructEnd(c)
	rp.WriteMessageEnd(c)
	// server
	bp := frugal.NewFBaseProcessor()
	fn := &echoFn{FBaseProcessorFunction: frugal.NewFBaseProcessorFunction(bp.GetWriteMutex(), nil), hadd: hadd, size: size}
	bp.AddToProcessorMap("echo", fn)
	inMem := &thrift.TMemoryBuffer{Buffer: bytes.NewBuffer(reqMem.Bytes())}
	iprot := pf.GetProtocol(inMem)
	output := frugal.NewTMemoryOutputBuffer(uint(limit))
	oprot := pf.GetProtocol(output)
	sp := &proto{p: iprot, mem: inMem}
	if err := bp.Process(iprot, oprot); err != nil {
		return "process-error", fn.seen, sp, err
	}
	if !output.HasWriteData() {
		return "no-reply", fn.seen, sp, nil
	}
	// client
	replyMem := &thrift.TMemoryBuffer{Buffer: bytes.NewBuffer(output.Bytes()[4:])}
	cp := pf.GetProtocol(replyMem)
	if err := cp.ReadResponseHeader(caller); err != nil {
		return "bad-reply-header", fn.seen, sp, err
	}
	_, mtype, _, err := cp.ReadMessageBegin(c)
	if err != nil {
		return "bad-reply", fn.seen, sp, err
	}
	if mtype == thrift.EXCEPTION {
		ex := thrift.NewTApplicationException(0, "")
		if err := ex.Read(c, cp); err != nil {
			return "bad-exception", fn.seen, sp, err
		}
		return fmt.Sprintf("exception:%d", ex.TypeId()), fn.seen, sp, nil
	}
	return "ok", fn.seen, sp, nil
}

func handle(q req) resp {
	r, p := hx.Guarded(20*time.Second, func() resp { return run(q) })
	if p != "" {
		r.Panic = p
	}
	return r
}

func main() {
	logrus.SetOutput(io.Discard)
	if len(os.Args) > 1 && os.Args[1] == "concurrent" {
		concurrentMain()
		return
	}
	if len(os.Args) > 1 && os.Args[1] == "hammer" {
		hammer()
		return
	}
	if len(os.Args) > 1 && os.Args[1] == "stress" {
		stress()
		return
	}
	if err := hx.Serve(handle); err != nil {
		fmt.Fprintln(os.Stderr, "vh_ctx:", err)
		os.Exit(3)
	}
}
