package main

// Concurrent creation / cloning / receiving of contexts from many goroutines:
// supporting evidence for the atomicity assumption of the op-id counter (a test, not a proof).

import (
	"encoding/json"
	"os"
	"strconv"
	"sync"

	frugal "github.com/Workiva/frugal/lib/go"
	"github.com/apache/thrift/lib/go/thrift"
)

// foreignCtx hides everything but the FContext interface: frugal.Clone takes its generic path for it
type foreignCtx struct{ frugal.FContext }

func stress() {
	g, n := 32, 2000
	if len(os.Args) > 3 {
		g, _ = strconv.Atoi(os.Args[2])
		n, _ = strconv.Atoi(os.Args[3])
	}
	ids := make([][]uint64, g)
	shared := frugal.NewFContext("shared")
	var wg sync.WaitGroup
	for w := 0; w < g; w++ {
		wg.Add(1)
		go func(w int) {
			defer wg.Done()
			mem := thrift.NewTMemoryBuffer()
			p := pf.GetProtocol(mem)
			for i := 0; i < n; i++ {
				var c frugal.FContext
				switch i % 4 {
				case 3:
					c = frugal.Clone(foreignCtx{shared}) // a context type of the user's own: the clone still gets a fresh op id
				case 0:
					c = frugal.NewFContext("c")
				case 1:
					c = frugal.Clone(shared)
				default:
					mem.Reset()
					mem.Write(wire([][2]string{{"5f6f706964", "37"}, {"5f636964", "61"}}))
					c, _ = p.ReadRequestHeader()
				}
				// concurrent reads and writes on one shared context, through every method and through the
				// protocol functions that take a context (an unguarded map access is a fatal runtime error)
				shared.AddRequestHeader("k"+strconv.Itoa(w), strconv.Itoa(i))
				shared.RequestHeaders()
				shared.SetTimeout(5)
				shared.AddResponseHeader("r"+strconv.Itoa(w), strconv.Itoa(i))
				shared.ResponseHeaders()
				shared.ResponseHeader("r0")
				shared.RequestHeader("k0")
				shared.Timeout()
				shared.CorrelationID()
				if ep, ok := shared.(frugal.FContextWithEphemeralProperties); ok {
					ep.AddEphemeralProperty("e"+strconv.Itoa(w), i)
					ep.EphemeralProperties()
				}
				if i%4 == 0 {
					// a response read INTO the shared context while others use it
					mem.Reset()
					mem.Write(wire([][2]string{{"5f6f706964", "37"}, {"78" + strconv.Itoa(w%10), "62"}}))
					p.ReadResponseHeader(shared)
					// the shared context written as a request and as a response
					out := thrift.NewTMemoryBuffer()
					po := pf.GetProtocol(out)
					po.WriteRequestHeader(shared)
					po.WriteResponseHeader(shared)
				}
				id, err := frugal.VerifGetOpID(c)
				if err == nil {
					ids[w] = append(ids[w], id)
				}
			}
		}(w)
	}
	wg.Wait()
	seen := make(map[uint64]bool)
	dups, total := 0, 0
	for _, l := range ids {
		for _, id := range l {
			total++
			if seen[id] {
				dups++
			}
			seen[id] = true
		}
	}
	hdrs := shared.RequestHeaders()
	json.NewEncoder(os.Stdout).Encode(map[string]int{"total": total, "duplicates": dups, "shared_headers": len(hdrs), "goroutines": g})
}
