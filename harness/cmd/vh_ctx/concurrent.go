package main

// `vh_ctx concurrent`: K two-way calls in flight at once over ONE adapter transport (loopback TCP, FSimpleServer,
// FBaseProcessor): every caller's FContext must come back with ITS handler's response headers and ITS correlation
// id, whatever the other calls do (C09 under multiplexing; no model, a direct statement on the observations).

import (
	"bufio"
	"context"
	"encoding/json"
	"fmt"
	"net"
	"os"
	"sync"
	"time"

	frugal "github.com/Workiva/frugal/lib/go"
	"verifharness/hx"
	"github.com/apache/thrift/lib/go/thrift"
)

type concCall struct {
	Cid   string      `json:"cid"`   // hex
	Req   [][2]string `json:"req"`   // request headers (hex pairs)
	Hadd  [][2]string `json:"hadd"`  // response headers the handler adds for this call (hex pairs)
	Size  int         `json:"size"`  // reply payload bytes
	Delay int         `json:"delay"` // handler delay in microseconds
	// Onward: between its first and its remaining response headers the handler makes a two-way call of its own WITH
	// THE CONTEXT IT WAS GIVEN (to the method "leaf" of the same server, over a second connection); the leaf handler
	// adds the response header leaf=<cid>, which travels back through the handler's context to the first caller
	Onward bool `json:"onward"`
}

type concReq struct {
	Calls  []concCall `json:"calls"`
	Rounds int        `json:"rounds"`
	// Server: "" = FSimpleServer over loopback TCP with an adapter-transport client; "nats" = FNatsServer (default event
	// handlers, ONE worker: later requests wait in its queue) over an embedded broker with an FNatsTransport client
	Server string `json:"server"`
}

var (
	concNatsOnce sync.Once
	concNatsURL  string
	concNatsErr  error
	concNatsSeq  int
)

type concOut struct {
	Err  string      `json:"err,omitempty"`
	Resp [][2]string `json:"resp"`
	Seen [][2]string `json:"seen"` // request headers the handler saw
}

type concResp struct {
	Rounds [][]concOut `json:"rounds"`
	Err    string      `json:"err,omitempty"`
}

type concFn struct {
	*frugal.FBaseProcessorFunction
	mu    sync.Mutex
	byCid  map[string]concCall
	seen   map[string][][2]string
	onward *frugal.FStandardClient
}

type leafFn struct{ *frugal.FBaseProcessorFunction }

func (e *leafFn) Process(fctx frugal.FContext, in, out *frugal.FProtocol) error {
	bg := context.Background()
	in.Skip(bg, thrift.STRUCT)
	in.ReadMessageEnd(bg)
	fctx.AddResponseHeader("leaf", fctx.CorrelationID())
	return e.SendReply(fctx, out, "leaf", echoResult{})
}

func (e *concFn) Process(fctx frugal.FContext, in, out *frugal.FProtocol) error {
	bg := context.Background()
	in.Skip(bg, thrift.STRUCT)
	in.ReadMessageEnd(bg)
	cid := fctx.CorrelationID()
	e.mu.Lock()
	c := e.byCid[cid]
	e.seen[cid] = hexMap(fctx.RequestHeaders())
	e.mu.Unlock()
	if c.Delay > 0 {
		time.Sleep(time.Duration(c.Delay) * time.Microsecond)
	}
	for i, kv := range c.Hadd {
		if i == 1 && c.Onward {
			if err := e.onward.Call(fctx, "leaf", echoResult{}, echoResult{}); err != nil {
				fctx.AddResponseHeader("onward-error", err.Error())
			}
		}
		fctx.AddResponseHeader(unhex(kv[0]), unhex(kv[1]))
	}
	if len(c.Hadd) < 2 && c.Onward {
		if err := e.onward.Call(fctx, "leaf", echoResult{}, echoResult{}); err != nil {
			fctx.AddResponseHeader("onward-error", err.Error())
		}
	}
	return e.SendReply(fctx, out, "echo", echoResult{payload: make([]byte, c.Size)})
}

func hexMap(m map[string]string) [][2]string { return sorted(m) }

func runConcurrent(q concReq) concResp {
	r := concResp{}
	bp := frugal.NewFBaseProcessor()
	fn := &concFn{FBaseProcessorFunction: frugal.NewFBaseProcessorFunction(bp.GetWriteMutex(), nil),
		byCid: map[string]concCall{}, seen: map[string][][2]string{}}
	for _, c := range q.Calls {
		fn.byCid[unhex(c.Cid)] = c
	}
	bp.AddToProcessorMap("echo", fn)
	bp.AddToProcessorMap("leaf", &leafFn{frugal.NewFBaseProcessorFunction(bp.GetWriteMutex(), nil)})
	var tr, tr2 frugal.FTransport
	if q.Server == "nats" {
		concNatsOnce.Do(func() { _, concNatsURL, concNatsErr = hx.StartNats() })
		if concNatsErr != nil {
			r.Err = concNatsErr.Error()
			return r
		}
		sconn, err := hx.NatsConn(concNatsURL)
		if err != nil {
			r.Err = err.Error()
			return r
		}
		defer sconn.Close()
		cconn, err := hx.NatsConn(concNatsURL)
		if err != nil {
			r.Err = err.Error()
			return r
		}
		defer cconn.Close()
		concNatsSeq++
		subject := fmt.Sprintf("c09.conc.%d.%d", os.Getpid(), concNatsSeq)
		nsrv := frugal.NewFNatsServerBuilder(sconn, bp, pf, []string{subject}).Build()
		go nsrv.Serve()
		defer nsrv.Stop()
		deadline := time.Now().Add(3 * time.Second)
		for sconn.NumSubscriptions() == 0 && time.Now().Before(deadline) {
			time.Sleep(time.Millisecond)
		}
		sconn.Flush()
		tr = frugal.NewFNatsTransport(cconn, subject, "")
		tr2 = frugal.NewFNatsTransport(cconn, subject, "")
	} else {
		st, err := thrift.NewTServerSocket("127.0.0.1:0")
		if err != nil {
			r.Err = err.Error()
			return r
		}
		if err := st.Listen(); err != nil {
			r.Err = err.Error()
			return r
		}
		srv := frugal.NewFSimpleServer(bp, st, pf)
		go srv.Serve()
		defer srv.Stop()
		conn, err := net.Dial("tcp", st.Addr().String())
		if err != nil {
			r.Err = err.Error()
			return r
		}
		tr = frugal.NewAdapterTransport(thrift.NewTSocketFromConnConf(conn, &thrift.TConfiguration{}))
		conn2, err := net.Dial("tcp", st.Addr().String())
		if err != nil {
			r.Err = err.Error()
			return r
		}
		tr2 = frugal.NewAdapterTransport(thrift.NewTSocketFromConnConf(conn2, &thrift.TConfiguration{}))
	}
	if err := tr.Open(); err != nil {
		r.Err = err.Error()
		return r
	}
	defer tr.Close()
	if err := tr2.Open(); err != nil {
		r.Err = err.Error()
		return r
	}
	defer tr2.Close()
	client := frugal.NewFStandardClient(frugal.NewFServiceProvider(tr, pf))
	fn.onward = frugal.NewFStandardClient(frugal.NewFServiceProvider(tr2, pf))
	rounds := q.Rounds
	if rounds <= 0 {
		rounds = 1
	}
	for round := 0; round < rounds; round++ {
		outs := make([]concOut, len(q.Calls))
		var wg sync.WaitGroup
		start := make(chan struct{})
		for i, c := range q.Calls {
			wg.Add(1)
			go func(i int, c concCall) {
				defer wg.Done()
				ctx := frugal.NewFContext(unhex(c.Cid))
				ctx.SetTimeout(3 * time.Second)
				for _, kv := range c.Req {
					ctx.AddRequestHeader(unhex(kv[0]), unhex(kv[1]))
				}
				<-start
				func() {
					defer func() {
						if p := recover(); p != nil {
							outs[i].Err = fmt.Sprint("panic: ", p)
						}
					}()
					if err := client.Call(ctx, "echo", echoResult{}, echoResult{}); err != nil {
						outs[i].Err = err.Error()
					}
				}()
				outs[i].Resp = sorted(ctx.ResponseHeaders())
			}(i, c)
		}
		close(start)
		wg.Wait()
		fn.mu.Lock()
		for i, c := range q.Calls {
			outs[i].Seen = fn.seen[unhex(c.Cid)]
		}
		fn.seen = map[string][][2]string{}
		fn.mu.Unlock()
		r.Rounds = append(r.Rounds, outs)
	}
	return r
}

func concurrentMain() {
	in := bufio.NewReaderSize(os.Stdin, 1<<20)
	dec := json.NewDecoder(in)
	enc := json.NewEncoder(os.Stdout)
	for {
		var q concReq
		if err := dec.Decode(&q); err != nil {
			return
		}
		enc.Encode(runConcurrent(q))
	}
}
