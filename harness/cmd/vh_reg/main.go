// vh_reg: controlled schedules on the real client registry + adapter transport (C01, C06, C13);
// with "transport":"nats" in the request the same on the NATS transport (nats.go).
//
// One request = one schedule. The harness parks goroutines at the verif yield points and at the
// scripted underlying transport, and performs a seeded random walk over the events the
// IMPLEMENTATION currently offers (parked goroutines, frames not yet fed, unstarted callers).
// It logs every event with its observed effect; the Coq judge replays the log on Model/Registry.v.
//
// request:  {"seed":n, "callers":k, "steps":m, "timeouts_ms":[..per caller, 0 = 10 s], "dup":bool,
//
//	"profile":"mixed"|"wedge"|"timeouts"|"senderr"}
//
// response: {"opids":[..decimal strings..], "events":[[kind, a, b, c], ...], "hang":str, "reglen":n, ...}
//
// event kinds (a,b,c meaning):
//
//	1 ERegister   a=caller
//	2 ERelease    a=caller                 (caller leaves the yield after Register, enters select)
//	3 ESendOk     a=caller
//	4 ESendFail   a=caller
//	5 EArrive     a=opid index (-1 unknown id) b=tag c=1 found / 0 miss
//	6 EDeliver    a=1 delivered / 0 dropped(chan full)   (-1: reader did not return within 1 s = blocked)
//	7 ETook       a=caller b=1 result / 2 timeout / 3 send error
//	8 EUnregister a=caller b=outcome (1 ok, 2 timed out, 3 send error, 4 other) c=tag of returned frame (or -1)
package main

import (
	"bytes"
	"context"
	"encoding/binary"
	"fmt"
	"io"
	"math/rand"
	"os"
	"strconv"
	"sync"
	"sync/atomic"
	"time"

	frugal "github.com/Workiva/frugal/lib/go"
	"github.com/apache/thrift/lib/go/thrift"
	"github.com/sirupsen/logrus"

	"verifharness/hx"
)

type req struct {
	Seed       int64  `json:"seed"`
	Callers    int    `json:"callers"`
	Steps      int    `json:"steps"`
	TimeoutsMs []int  `json:"timeouts_ms"`
	Profile    string `json:"profile"`
	Transport  string `json:"transport"` // "" / "adapter" | "nats" (nats.go)
	Sizes      []int  `json:"sizes"`     // NATS: len(data) per caller
	Share      []int  `json:"share"`     // NATS: caller reuses the FContext of an earlier caller
	BadOp      []int  `json:"badop"`     // NATS: 1 = the caller's FContext gets a malformed _opid header
	Reserve    int    `json:"reserve"`   // NATS: the last k callers are started only once the transport is closed
	Slow       []int  `json:"slow"`      // adapter: 1 = the caller's FContext is a foreign implementation that is slow to hand out its op id
}

type resp struct {
	Opids    []string `json:"opids"`
	Events   [][4]int `json:"events"`
	Hang     string   `json:"hang,omitempty"`
	RegLen   int      `json:"reglen"`
	Elapsed  []int64  `json:"elapsed_us"` // per caller: time spent in Request
	Fresh    int      `json:"fresh"`      // 1 = the fresh request after the schedule got its own response within 1 s
	Panic    string   `json:"panic,omitempty"`
	Leftover int      `json:"leftover"`
	// NATS mode
	DataKinds    []int  `json:"datakinds,omitempty"`
	Unexpected   string `json:"unexpected,omitempty"`    // something the harness saw that no schedule allows
	ServerStatus int    `json:"server_status,omitempty"` // 503 messages the SERVER sent (no responders)
	SlowParked   int    `json:"slow_parked,omitempty"`   // callers that were held inside their FContext's op id read
	SlowArrivals int    `json:"slow_arrivals,omitempty"` // frames dispatched while at least one caller was held there
}

// ---- scripted underlying transport -------------------------------------------------------------

type writeCall struct {
	caller int
	res    chan error
}

type stt struct {
	mu      sync.Mutex
	open    bool
	reads   chan []byte
	rbuf    []byte
	writes  chan *writeCall // parked Write calls
	pending map[int]*writeCall
	closed  chan struct{}
}

func newStt() *stt {
	return &stt{reads: make(chan []byte, 1024), writes: make(chan *writeCall, 1024), closed: make(chan struct{})}
}
func (s *stt) Open() error  { s.mu.Lock(); s.open = true; s.mu.Unlock(); return nil }
func (s *stt) IsOpen() bool { s.mu.Lock(); defer s.mu.Unlock(); return s.open }
func (s *stt) Close() error {
	s.mu.Lock()
	defer s.mu.Unlock()
	if s.open {
		s.open = false
		close(s.closed)
	}
	return nil
}
func (s *stt) Read(p []byte) (int, error) {
	if len(s.rbuf) == 0 {
		select {
		case b := <-s.reads:
			s.rbuf = b
		case <-s.closed:
			return 0, thrift.NewTTransportException(frugal.TRANSPORT_EXCEPTION_END_OF_FILE, "closed")
		}
	}
	n := copy(p, s.rbuf)
	s.rbuf = s.rbuf[n:]
	return n, nil
}

// the payload's first 4 bytes after the size prefix carry the caller index
func (s *stt) Write(p []byte) (int, error) {
	caller := -1
	if len(p) >= 8 {
		caller = int(binary.BigEndian.Uint32(p[4:8]))
	}
	wc := &writeCall{caller: caller, res: make(chan error, 1)}
	s.writes <- wc
	if err := <-wc.res; err != nil {
		return 0, err
	}
	return len(p), nil
}
func (s *stt) Flush(ctx context.Context) error { return nil }
func (s *stt) RemainingBytes() uint64          { return ^uint64(0) }

// ---- yield controller --------------------------------------------------------------------------

type parked struct {
	point string
	opid  uint64
	rel   chan struct{}
	at    time.Time
}

type controller struct {
	mu     sync.Mutex
	parked []*parked
	notify chan struct{}
	block  map[string]bool // points that park; others just notify
}

func (c *controller) yield(point string, opid uint64) {
	p := &parked{point: point, opid: opid, rel: make(chan struct{}), at: time.Now()}
	c.mu.Lock()
	c.parked = append(c.parked, p)
	c.mu.Unlock()
	select {
	case c.notify <- struct{}{}:
	default:
	}
	if c.block[point] {
		<-p.rel
	}
}

// take removes and returns the first parked entry satisfying f, waiting up to d.
func (c *controller) take(d time.Duration, f func(*parked) bool) *parked {
	deadline := time.Now().Add(d)
	for {
		c.mu.Lock()
		for i, p := range c.parked {
			if f(p) {
				c.parked = append(c.parked[:i], c.parked[i+1:]...)
				c.mu.Unlock()
				return p
			}
		}
		c.mu.Unlock()
		left := time.Until(deadline)
		if left <= 0 {
			return nil
		}
		select {
		case <-c.notify:
		case <-time.After(left):
		case <-time.After(2 * time.Millisecond):
		}
	}
}

// ---- one schedule ------------------------------------------------------------------------------

type caller struct {
	ctx      frugal.FContext
	opid     uint64
	state    int // 0 new, 1 parked after register, 2 in select, 3 parked after select, 4 done, 5 held in its FContext's op id read (before Register)
	sendSt   int // 0 not yet written, 1 parked in Write, 2 ok, 3 failed
	wc       *writeCall
	took     int
	done     chan result
	started  time.Time
	timeout  int
	rel      *parked
	slow     *slowCtx
	chanFull bool
	released time.Time
	parkedAt map[string]time.Time
}

// slowCtx is an FContext implemented outside the library (the interface is public): a wrapper whose
// first read of the op id header after arm parks at the yield point "ctx.opid" - a context backed by
// something slow.  Whatever the transport holds while it asks a caller's context for its op id is held
// for that long; the inbound path must not depend on it (C06: "regardless of other requests being slow").
type slowCtx struct {
	frugal.FContext
	ctl   *controller
	opid  uint64
	armed int32
}

func (s *slowCtx) RequestHeader(name string) (string, bool) {
	if name == "_opid" && atomic.CompareAndSwapInt32(&s.armed, 1, 0) {
		s.ctl.yield("ctx.opid", s.opid)
	}
	return s.FContext.RequestHeader(name)
}

type result struct {
	tag int
	err error
	dur time.Duration
}

func frameFor(opid uint64, tag int) []byte {
	// header block {_opid: opid, tag: tag} followed by a 2-byte payload; with 4-byte size prefix.  Three frames
	// in four also carry a user header that only LOOKS like the op id header to anything but a walk over the
	// length-prefixed pairs: a name ending in "_opid" whose value is a neighbouring op id (most likely another
	// request in flight: the callers of a schedule hold consecutive ids), or a value holding the bytes of a
	// whole "_opid" pair; the real pair comes first, last or in between.  Which: a function of (opid, tag).
	var body bytes.Buffer
	put := func(k, v string) {
		binary.Write(&body, binary.BigEndian, uint32(len(k)))
		body.WriteString(k)
		binary.Write(&body, binary.BigEndian, uint32(len(v)))
		body.WriteString(v)
	}
	other := opid + 1
	if (opid+uint64(tag))%3 == 0 && opid > 1 {
		other = opid - 1
	}
	os := strconv.FormatUint(other, 10)
	switch (opid*31 + uint64(tag)) % 4 {
	case 1:
		put("parent_opid", os)
		put("_opid", strconv.FormatUint(opid, 10))
		put("tag", strconv.Itoa(tag))
	case 2:
		var v bytes.Buffer
		v.WriteString("x_opid")
		binary.Write(&v, binary.BigEndian, uint32(len(os)))
		v.WriteString(os)
		put("tag", strconv.Itoa(tag))
		put("note", v.String())
		put("_opid", strconv.FormatUint(opid, 10))
	case 3:
		put("_opid", strconv.FormatUint(opid, 10))
		put("tag", strconv.Itoa(tag))
		put("trace_opid", os)
	default:
		put("_opid", strconv.FormatUint(opid, 10))
		put("tag", strconv.Itoa(tag))
	}
	var out bytes.Buffer
	total := 5 + body.Len() + 2
	binary.Write(&out, binary.BigEndian, uint32(total))
	out.WriteByte(0)
	binary.Write(&out, binary.BigEndian, uint32(body.Len()))
	out.Write(body.Bytes())
	out.WriteString("xy")
	return out.Bytes()
}

func tagOf(tr thrift.TTransport) int {
	m, err := frugal.VerifReadHeader(tr)
	if err != nil {
		return -2
	}
	t, err := strconv.Atoi(m["tag"])
	if err != nil {
		return -2
	}
	return t
}

func run(q req) resp {
	if q.Transport == "nats" {
		return runNats(q)
	}
	rng := rand.New(rand.NewSource(q.Seed))
	var r resp
	under := newStt()
	tr := frugal.NewAdapterTransport(under)
	ctl := &controller{notify: make(chan struct{}, 1), block: map[string]bool{
		"request.registered": true, "request.got": true, "request.senderr": true, "request.timeout": true,
		"dispatch.send": true, "dispatch.dropped": true, "ctx.opid": true}}
	frugal.VerifSetYield(ctl.yield)
	defer frugal.VerifSetYield(nil)
	if err := tr.Open(); err != nil {
		r.Panic = err.Error()
		return r
	}
	defer tr.Close()

	cs := make([]*caller, q.Callers)
	for i := range cs {
		c := &caller{ctx: frugal.NewFContext(""), done: make(chan result, 1)}
		to := 10000
		if i < len(q.TimeoutsMs) && q.TimeoutsMs[i] > 0 {
			to = q.TimeoutsMs[i]
		}
		c.timeout = to
		c.ctx.SetTimeout(time.Duration(to) * time.Millisecond)
		c.opid, _ = frugal.VerifGetOpID(c.ctx)
		if i < len(q.Slow) && q.Slow[i] == 1 {
			c.slow = &slowCtx{FContext: c.ctx, ctl: ctl, opid: c.opid}
			c.ctx = c.slow
		}
		cs[i] = c
		r.Opids = append(r.Opids, strconv.FormatUint(c.opid, 10))
	}
	r.Elapsed = make([]int64, q.Callers)
	ev := func(k, a, b, c int) { r.Events = append(r.Events, [4]int{k, a, b, c}) }
	idxOf := func(opid uint64) int {
		for i, c := range cs {
			if c.opid == opid {
				return i
			}
		}
		return -1
	}
	nextTag := 1
	readerBusy := false // reader parked at dispatch.send
	var readerParked *parked
	readerTarget := -1
	// the reader may stay parked right after it decided to drop a frame (channel full): callers
	// move on in that window; it is released before the next frame is fed
	var readerDropParked *parked
	releaseDrop := func() {
		if readerDropParked != nil {
			close(readerDropParked.rel)
			readerDropParked = nil
		}
	}
	// a caller blocked in its select with something ready WILL leave it: wait for that autonomous
	// step and log it now, so that the log order is the order things happened
	settle := func(i int) {
		if i < 0 || i >= len(cs) {
			return
		}
		c := cs[i]
		if c.state != 2 || !(c.chanFull || c.sendSt == 3) {
			return
		}
		p := ctl.take(patient(2*time.Second), func(p *parked) bool {
			return p.opid == c.opid && (p.point == "request.got" || p.point == "request.timeout" || p.point == "request.senderr")
		})
		if p == nil {
			r.Hang = fmt.Sprintf("caller %d has a result or send error ready but did not leave its select", i)
			return
		}
		which := map[string]int{"request.got": 1, "request.timeout": 2, "request.senderr": 3}[p.point]
		c.state, c.took, c.rel = 3, which, p
		if which == 1 {
			c.chanFull = false
		}
		ev(7, i, which, int(p.at.Sub(cs[i].released).Microseconds()))
	}

	// collect write calls parked in the scripted transport
	collectWrites := func() {
		for {
			select {
			case wc := <-under.writes:
				if wc.caller >= 0 && wc.caller < len(cs) {
					cs[wc.caller].wc = wc
					cs[wc.caller].sendSt = 1
				} else {
					wc.res <- nil
				}
			default:
				return
			}
		}
	}
	feed := func(opid uint64, tag int) {
		releaseDrop()
		f := frameFor(opid, tag)
		under.reads <- f
		// the read loop either misses (notify only) or parks at dispatch.send
		p := ctl.take(patient(2*time.Second), func(p *parked) bool { return p.point == "dispatch.miss" || p.point == "dispatch.send" })
		i := idxOf(opid)
		if p == nil {
			r.Hang = "reader did not reach the lookup within 2 s (blocked earlier)"
			ev(5, i, tag, -1)
			return
		}
		if p.point == "dispatch.miss" {
			ev(5, i, tag, 0)
			return
		}
		ev(5, i, tag, 1)
		readerBusy = true
		readerParked = p
		readerTarget = i
	}
	deliver := func() {
		close(readerParked.rel)
		p := ctl.take(patient(time.Second), func(p *parked) bool { return p.point == "dispatch.sent" || p.point == "dispatch.dropped" })
		readerBusy = false
		if p == nil {
			ev(6, -1, 0, 0)
			r.Hang = "reader blocked in the channel send (head-of-line blocking)"
			return
		}
		if p.point == "dispatch.sent" {
			ev(6, 1, 0, 0)
			if readerTarget >= 0 {
				cs[readerTarget].chanFull = true
				settle(readerTarget)
			}
		} else {
			ev(6, 0, 0, 0)
			readerDropParked = p
		}
	}

	steps := q.Steps
	for step := 0; step < steps && r.Hang == ""; step++ {
		collectWrites()
		// callers that took a branch on their own
		for {
			p := ctl.take(0, func(p *parked) bool {
				return p.point == "request.got" || p.point == "request.timeout" || p.point == "request.senderr"
			})
			if p == nil {
				break
			}
			i := idxOf(p.opid)
			which := map[string]int{"request.got": 1, "request.timeout": 2, "request.senderr": 3}[p.point]
			if i >= 0 && cs[i].state == 2 {
				cs[i].state, cs[i].took = 3, which
				cs[i].rel = p
				if which == 1 {
					cs[i].chanFull = false
				}
				ev(7, i, which, int(p.at.Sub(cs[i].released).Microseconds()))
			}
		}
		type action struct {
			kind int
			i    int
		}
		var acts []action
		for i, c := range cs {
			switch c.state {
			case 0:
				acts = append(acts, action{1, i})
			case 1:
				acts = append(acts, action{2, i}, action{2, i})
			case 3:
				acts = append(acts, action{8, i})
			case 5:
				acts = append(acts, action{9, i})
			}
			if c.sendSt == 1 {
				acts = append(acts, action{3, i})
				if q.Profile == "senderr" || rng.Intn(6) == 0 {
					acts = append(acts, action{4, i})
				}
			}
		}
		if readerBusy {
			acts = append(acts, action{6, 0}, action{6, 0})
		} else {
			// arrivals: a response for a started caller (possibly duplicate / late), or an unknown id
			for i, c := range cs {
				if c.state >= 1 {
					acts = append(acts, action{5, i})
					if q.Profile == "wedge" {
						acts = append(acts, action{5, i}, action{5, i})
					}
				}
			}
			if rng.Intn(4) == 0 {
				acts = append(acts, action{5, -1})
			}
		}
		// waiting for a short timeout to fire is an action too
		for i, c := range cs {
			if c.state == 2 && c.timeout < 1000 {
				acts = append(acts, action{7, i})
			}
		}
		if len(acts) == 0 {
			break
		}
		a := acts[rng.Intn(len(acts))]
		switch a.kind {
		case 1:
			c := cs[a.i]
			c.state = 1
			c.started = time.Now()
			if c.slow != nil {
				atomic.StoreInt32(&c.slow.armed, 1)
			}
			go func(i int, c *caller) {
				payload := make([]byte, 8)
				binary.BigEndian.PutUint32(payload, 4)
				binary.BigEndian.PutUint32(payload[4:], uint32(i))
				t0 := time.Now()
				res, err := tr.Request(c.ctx, payload)
				d := time.Since(t0)
				tag := -1
				if err == nil && res != nil {
					tag = tagOf(res)
				}
				c.done <- result{tag: tag, err: err, dur: d}
			}(a.i, c)
			p := ctl.take(patient(2*time.Second), func(p *parked) bool {
				return (p.point == "request.registered" || p.point == "ctx.opid") && p.opid == c.opid
			})
			if p == nil {
				r.Hang = "caller did not reach the point after Register"
				break
			}
			c.rel = p
			if p.point == "ctx.opid" {
				// held inside its own context, before Register: nothing has happened as far as the registry goes
				c.state = 5
				r.SlowParked++
				break
			}
			ev(1, a.i, 0, 0)
		case 9:
			c := cs[a.i]
			close(c.rel.rel)
			p := ctl.take(patient(2*time.Second), func(p *parked) bool { return p.point == "request.registered" && p.opid == c.opid })
			if p == nil {
				r.Hang = "caller did not reach the point after Register"
				break
			}
			c.rel, c.state = p, 1
			ev(1, a.i, 0, 0)
		case 2:
			c := cs[a.i]
			c.released = time.Now()
			close(c.rel.rel)
			c.state = 2
			ev(2, a.i, 0, 0)
			// its send goroutine parks in Write
			deadline := time.Now().Add(patient(time.Second))
			for c.sendSt == 0 && time.Now().Before(deadline) {
				collectWrites()
				time.Sleep(200 * time.Microsecond)
			}
			settle(a.i)
		case 3:
			cs[a.i].wc.res <- nil
			cs[a.i].sendSt = 2
			ev(3, a.i, 0, 0)
		case 4:
			cs[a.i].wc.res <- fmt.Errorf("scripted write failure")
			cs[a.i].sendSt = 3
			ev(4, a.i, 0, 0)
			settle(a.i)
		case 5:
			for _, c := range cs {
				if c.state == 5 {
					r.SlowArrivals++
					break
				}
			}
			if a.i >= 0 {
				feed(cs[a.i].opid, nextTag)
			} else {
				feed(uint64(1<<40)+uint64(rng.Intn(1000)), nextTag)
			}
			nextTag++
		case 6:
			deliver()
		case 7:
			// let the clock run until caller a.i leaves its select (its timeout is short)
			c := cs[a.i]
			p := ctl.take(time.Duration(c.timeout+500)*time.Millisecond, func(p *parked) bool {
				return p.opid == c.opid && (p.point == "request.got" || p.point == "request.timeout" || p.point == "request.senderr")
			})
			if p == nil {
				r.Hang = fmt.Sprintf("caller %d did not leave its select %d ms after its %d ms timeout", a.i, 500, c.timeout)
				break
			}
			which := map[string]int{"request.got": 1, "request.timeout": 2, "request.senderr": 3}[p.point]
			c.state, c.took, c.rel = 3, which, p
			if which == 1 {
				c.chanFull = false
			}
			ev(7, a.i, which, int(p.at.Sub(c.released).Microseconds()))
		case 8:
			c := cs[a.i]
			close(c.rel.rel)
			select {
			case res := <-c.done:
				c.state = 4
				out := 1
				if res.err != nil {
					switch hx.Classify(res.err) {
					case hx.CodeTimedOut:
						out = 2
					default:
						out = 4
						if res.err.Error() == "scripted write failure" {
							out = 3
						}
					}
				}
				r.Elapsed[a.i] = res.dur.Microseconds()
				ev(8, a.i, out, res.tag)
			case <-time.After(patient(2 * time.Second)):
				r.Hang = "Request did not return after its select"
			}
		}
	}
	// the reader must not stay parked; callers stay where they are (their registrations are part
	// of the state the model predicts); then the fresh request
	if r.Hang == "" && readerBusy {
		deliver()
	}
	releaseDrop()
	if r.Hang == "" {
		r.RegLen = frugal.VerifTransportRegistryLen(tr)
		r.Fresh = freshRequest(tr, under, ctl)
	}
	// callers still held inside their FContext go on: whatever was held for them is let go of, so that a hung
	// schedule cannot wedge the transport's Close below (and with it this process)
	for _, c := range cs {
		if c.state == 5 {
			close(c.rel.rel)
		}
	}
	ctl.mu.Lock()
	for _, p := range ctl.parked {
		select {
		case <-p.rel:
		default:
			close(p.rel)
		}
	}
	r.Leftover = len(ctl.parked)
	ctl.block = map[string]bool{}
	ctl.mu.Unlock()
	for _, c := range cs {
		if c.wc != nil && c.sendSt == 1 {
			c.wc.res <- nil
		}
	}
	return r
}

// a fresh request after the adversarial prefix must get its own response promptly
func freshRequest(tr frugal.FTransport, under *stt, ctl *controller) int {
	ctl.mu.Lock()
	ctl.block = map[string]bool{} // new arrivals at yield points no longer park
	ctl.mu.Unlock()
	go func() { // writes no longer park
		for wc := range under.writes {
			wc.res <- nil
		}
	}()
	ctx := frugal.NewFContext("")
	ctx.SetTimeout(patient(time.Second))
	opid, _ := frugal.VerifGetOpID(ctx)
	done := make(chan int, 1)
	go func() {
		payload := make([]byte, 8)
		binary.BigEndian.PutUint32(payload, 4)
		binary.BigEndian.PutUint32(payload[4:], 0xffff)
		res, err := tr.Request(ctx, payload)
		if err != nil || res == nil {
			done <- 0
			return
		}
		if tagOf(res) == 999999 {
			done <- 1
		} else {
			done <- 0
		}
	}()
	time.Sleep(5 * time.Millisecond)
	under.reads <- frameFor(opid, 999999)
	select {
	case v := <-done:
		return v
	case <-time.After(patient(1500 * time.Millisecond)):
		return 0
	}
}

// patient scales the harness's own wait bounds: a schedule that looked hung is run again alone with VH_PATIENCE=5
// before it is believed (a loaded machine can make a goroutine late for a 2 s bound; a real hang stays a hang)
var patience = 1

func patient(d time.Duration) time.Duration { return d * time.Duration(patience) }

func main() {
	if v, err := strconv.Atoi(os.Getenv("VH_PATIENCE")); err == nil && v > 0 {
		patience = v
	}
	logrus.SetOutput(io.Discard)
	if len(os.Args) > 1 && os.Args[1] == "timing" {
		if err := hx.Serve(func(q treq) tresp {
			r, p := hx.Guarded(30*time.Second, func() tresp { return timing(q) })
			if p != "" {
				r.Hang = p
			}
			return r
		}); err != nil {
			fmt.Fprintln(os.Stderr, "vh_reg timing:", err)
			os.Exit(3)
		}
		return
	}
	err := hx.Serve(func(q req) resp {
		r, p := hx.Guarded(60*time.Second, func() resp { return run(q) })
		if p != "" {
			r.Panic = p
		}
		return r
	})
	if err != nil {
		fmt.Fprintln(os.Stderr, "vh_reg:", err)
		os.Exit(3)
	}
}
