// NATS mode of vh_reg: the same controlled schedules as main.go, on the real fNatsTransport
// against an embedded NATS server. The harness owns a second connection on which it
//   - subscribes to the request subject (so it sees every published request and its reply subject;
//     profile "noresp" leaves the subject without subscriber: the SERVER then answers every
//     request with a status 503 "no responders" message, an autonomous arrival),
//   - publishes responses onto <inbox>.<token> (token = the op id, or something else: the handler
//     routes frames by their _opid header, not by the subject), duplicates, unknown op ids, late
//     frames, status 503 messages (header Status: 503; routed by the subject token), and messages
//     the inbound path must discard before dispatch (other status codes, 503 with a non-numeric
//     token, frames without parsable headers / op id).
//
// The yield points are the ones the adapter mode uses (request.registered, request.got,
// request.timeout in nats_transport.go; dispatch.* in registry.go).
//
// additional request fields: "transport":"nats", (timeouts_ms: a negative entry = SetTimeout(0)) "sizes":[len(data) per caller; 0 = 8 bytes],
//
//	"share":[per caller: index of an earlier caller whose FContext (op id) it reuses, or -1],
//	"badop":[per caller: 1 = its FContext carries a malformed _opid header],
//	"reserve":k (the last k callers are started only after the transport has been closed),
//	"profile": "mixed" | "wedge" | "timeouts" | "noresp" | "puberr" | "status"
//
// additional event kinds / effects: see Judge/JRegistry.v.
package main

import (
	"bytes"
	"encoding/binary"
	"fmt"
	"math/rand"
	"strconv"
	"strings"
	"sync"
	"sync/atomic"
	"time"

	frugal "github.com/Workiva/frugal/lib/go"
	"github.com/apache/thrift/lib/go/thrift"
	"github.com/nats-io/nats-server/v2/server"
	"github.com/nats-io/nats.go"

	"verifharness/hx"
)

const natsMax = 1024 * 1024

// natsOnce / natsURL / natsErr (the shared embedded server) are declared in timing.go
var (
	natsSmallOnce sync.Once
	natsSmallURL  string
	natsSmallErr  error
	natsSeq       int64
)

// a server whose max_payload (256 KiB) is below the transport's own limit: PublishRequest fails
func startSmallNats() (string, error) {
	s, err := server.NewServer(&server.Options{Host: "127.0.0.1", Port: -1, NoLog: true, NoSigs: true, MaxPayload: 256 * 1024})
	if err != nil {
		return "", err
	}
	go s.Start()
	if !s.ReadyForConnections(10 * time.Second) {
		return "", fmt.Errorf("nats server not ready")
	}
	return s.ClientURL(), nil
}

// classification of what Request returned
const (
	outOk       = 1
	outTimedOut = 2
	outSendErr  = 3 // the error PublishRequest returned, passed through
	outOther    = 4
	outNotAvail = 5
	outTooLarge = 6
	outNotOpen  = 7
	outRegErr   = 8
	outEmpty    = 9 // (nil, nil)
)

func classifyNats(res thrift.TTransport, err error) int {
	if err == nil {
		if res == nil {
			return outEmpty
		}
		return outOk
	}
	if e, ok := err.(thrift.TTransportException); ok {
		switch e.TypeId() {
		case frugal.TRANSPORT_EXCEPTION_TIMED_OUT:
			return outTimedOut
		case frugal.TRANSPORT_EXCEPTION_SERVICE_NOT_AVAILABLE:
			return outNotAvail
		case frugal.TRANSPORT_EXCEPTION_REQUEST_TOO_LARGE:
			return outTooLarge
		case frugal.TRANSPORT_EXCEPTION_NOT_OPEN:
			return outNotOpen
		case frugal.TRANSPORT_EXCEPTION_UNKNOWN:
			if strings.Contains(err.Error(), "already registered") || strings.Contains(err.Error(), "opid") {
				return outRegErr
			}
		}
		return outOther
	}
	if err == nats.ErrMaxPayload || err == nats.ErrConnectionClosed || err == nats.ErrBadSubject {
		return outSendErr
	}
	return outOther
}

type nresult struct {
	tag   int
	class int
	msg   string
	dur   time.Duration
}

type ncaller struct {
	ctx      frugal.FContext
	opid     uint64
	state    int // 0 new, 1 parked after register, 2 in select, 3 parked after select, 4 done
	size     int
	dk       int
	timeout  int
	done     chan nresult
	rel      *parked
	chanFull bool
	released time.Time
}

func runNats(q req) resp {
	rng := rand.New(rand.NewSource(q.Seed))
	var r resp
	url := ""
	if q.Profile == "puberr" {
		natsSmallOnce.Do(func() { natsSmallURL, natsSmallErr = startSmallNats() })
		if natsSmallErr != nil {
			r.Panic = natsSmallErr.Error()
			return r
		}
		url = natsSmallURL
	} else {
		natsOnce.Do(func() { _, natsURL, natsErr = hx.StartNats() })
		if natsErr != nil {
			r.Panic = natsErr.Error()
			return r
		}
		url = natsURL
	}
	conn, err := hx.NatsConn(url)
	if err != nil {
		r.Panic = err.Error()
		return r
	}
	defer conn.Close()
	peer, err := hx.NatsConn(url)
	if err != nil {
		r.Panic = err.Error()
		return r
	}
	defer peer.Close()
	seq := atomic.AddInt64(&natsSeq, 1)
	subject := fmt.Sprintf("verif.reg.%d", seq)
	inbox := fmt.Sprintf("_INBOX.verif%d", seq)
	noresp := q.Profile == "noresp"
	reqs := make(chan *nats.Msg, 4096)
	if !noresp {
		if _, err := peer.Subscribe(subject, func(m *nats.Msg) { reqs <- m }); err != nil {
			r.Panic = err.Error()
			return r
		}
		peer.Flush()
	}
	tr := frugal.NewFNatsTransport(conn, subject, inbox)
	ctl := &controller{notify: make(chan struct{}, 1), block: map[string]bool{
		"request.registered": true, "request.got": true, "request.timeout": true,
		"dispatch.send": true, "dispatch.dropped": true}}
	frugal.VerifSetYield(ctl.yield)
	defer frugal.VerifSetYield(nil)
	if err := tr.Open(); err != nil {
		r.Panic = err.Error()
		return r
	}
	conn.Flush() // the inbox subscription is known to the server before anything is published

	cs := make([]*ncaller, q.Callers)
	for i := range cs {
		c := &ncaller{done: make(chan nresult, 1), size: 8}
		if i < len(q.Share) && q.Share[i] >= 0 && q.Share[i] < i {
			c.ctx = cs[q.Share[i]].ctx
			c.timeout = cs[q.Share[i]].timeout
		} else {
			c.ctx = frugal.NewFContext("")
			to := 10000
			if i < len(q.TimeoutsMs) && q.TimeoutsMs[i] > 0 {
				to = q.TimeoutsMs[i]
			} else if i < len(q.TimeoutsMs) && q.TimeoutsMs[i] < 0 {
				to = 0 // Timeout() == 0: time.After(0) fires at once
			}
			c.timeout = to
			c.ctx.SetTimeout(time.Duration(to) * time.Millisecond)
			if i < len(q.BadOp) && q.BadOp[i] != 0 {
				// the _opid header is reserved but AddRequestHeader accepts it
				c.ctx.AddRequestHeader("_opid", []string{"abc", "-5", "1.5", "", "18446744073709551616", " 7"}[rng.Intn(6)])
			}
		}
		if i < len(q.Sizes) && q.Sizes[i] > 0 {
			c.size = q.Sizes[i]
		}
		switch {
		case c.size == 4:
			c.dk = 1
		case c.size > natsMax:
			c.dk = 2
		}
		var operr error
		c.opid, operr = frugal.VerifGetOpID(c.ctx)
		cs[i] = c
		if operr != nil {
			r.Opids = append(r.Opids, "-1") // malformed: a negative op id in the model
		} else {
			r.Opids = append(r.Opids, strconv.FormatUint(c.opid, 10))
		}
		r.DataKinds = append(r.DataKinds, c.dk)
	}
	r.Elapsed = make([]int64, q.Callers)
	ev := func(k, a, b, c int) { r.Events = append(r.Events, [4]int{k, a, b, c}) }
	unexpected := func(s string) {
		if r.Unexpected == "" {
			r.Unexpected = s
		}
	}
	// the caller with this op id that is in flight (at most one: Register refuses a second), else any
	idxOf := func(opid uint64) int {
		first := -1
		for i, c := range cs {
			if c.opid == opid {
				if c.state >= 1 && c.state <= 3 {
					return i
				}
				if first < 0 {
					first = i
				}
			}
		}
		return first
	}
	nextTag := 1
	readerBusy := false
	var readerParked *parked
	readerTarget := -1
	var readerDropParked *parked
	releaseDrop := func() {
		if readerDropParked != nil {
			close(readerDropParked.rel)
			readerDropParked = nil
		}
	}
	tookPoint := func(p *parked) bool { return p.point == "request.got" || p.point == "request.timeout" }
	which := map[string]int{"request.got": 1, "request.timeout": 2}
	noteTook := func(i int, p *parked) {
		c := cs[i]
		w := which[p.point]
		c.state, c.rel = 3, p
		if w == 1 {
			c.chanFull = false
		}
		ev(7, i, w, int(p.at.Sub(c.released).Microseconds()))
	}
	settle := func(i int) {
		if i < 0 || i >= len(cs) {
			return
		}
		c := cs[i]
		if c.state != 2 || !c.chanFull {
			return
		}
		p := ctl.take(2*time.Second, func(p *parked) bool { return p.opid == c.opid && tookPoint(p) })
		if p == nil {
			r.Hang = fmt.Sprintf("caller %d has a result ready but did not leave its select", i)
			return
		}
		noteTook(i, p)
	}
	// the reader reaches the lookup for the message just published: log the arrival
	awaitLookup := func(kind int, idx, tag int, wantOpid uint64, checkOpid bool) {
		p := ctl.take(2*time.Second, func(p *parked) bool { return p.point == "dispatch.miss" || p.point == "dispatch.send" })
		if p == nil {
			r.Hang = "reader did not reach the lookup within 2 s (blocked earlier)"
			ev(kind, idx, tag, -1)
			return
		}
		if checkOpid && p.opid != wantOpid {
			unexpected(fmt.Sprintf("dispatch was reached for op id %d, the message published was for op id %d", p.opid, wantOpid))
		}
		if p.point == "dispatch.miss" {
			ev(kind, idx, tag, 0)
			return
		}
		ev(kind, idx, tag, 1)
		readerBusy = true
		readerParked = p
		readerTarget = idxOf(p.opid)
	}
	publish := func(m *nats.Msg) {
		if err := peer.PublishMsg(m); err != nil {
			unexpected("harness publish failed: " + err.Error())
		}
		peer.Flush()
	}
	// token of the subject a frame is published on: the handler must not care
	frameSubject := func(opid uint64) string {
		switch rng.Intn(6) {
		case 0:
			return inbox + ".zzz"
		case 1:
			return inbox + "." + strconv.FormatUint(cs[rng.Intn(len(cs))].opid, 10)
		}
		return inbox + "." + strconv.FormatUint(opid, 10)
	}
	feed := func(i int) {
		releaseDrop()
		opid := uint64(1<<40) + uint64(rng.Intn(1000))
		idx := -1
		if i >= 0 {
			opid, idx = cs[i].opid, i
		}
		publish(&nats.Msg{Subject: frameSubject(opid), Data: frameFor(opid, nextTag)})
		awaitLookup(5, idx, nextTag, opid, true)
		nextTag++
	}
	feed503 := func(i int) {
		releaseDrop()
		opid := uint64(1<<40) + uint64(rng.Intn(1000))
		idx := -1
		if i >= 0 {
			opid, idx = cs[i].opid, i
		}
		m := nats.NewMsg(inbox + "." + strconv.FormatUint(opid, 10))
		m.Header.Set("Status", "503")
		if rng.Intn(3) == 0 {
			m.Data = []byte("ignored")
		}
		publish(m)
		awaitLookup(11, idx, 0, opid, true)
	}
	// a message the inbound path must discard before dispatch, followed by a sentinel frame for an
	// unknown op id: the first lookup the reader reaches must be the sentinel's
	feedBad := func() {
		releaseDrop()
		variant := rng.Intn(6)
		target := cs[rng.Intn(len(cs))].opid
		m := nats.NewMsg(inbox + "." + strconv.FormatUint(target, 10))
		switch variant {
		case 0: // 503 whose subject token is not a number
			m.Subject = inbox + ".zzz"
			m.Header.Set("Status", "503")
		case 1: // another status code for an op id that may be in flight
			m.Header.Set("Status", []string{"408", "100", "404", "409"}[rng.Intn(4)])
		case 2: // shorter than a frame size
			m.Data = []byte{0, 0}
		case 3: // frame whose header block is cut
			f := frameFor(target, 424242)
			m.Data = f[:9]
		case 4: // frame whose _opid is not a number
			f := frameFor(target, 424242)
			// the value of the real "_opid" pair (the frame may carry look-alike headers, see frameFor)
			if at := bytes.Index(f, []byte("\x00\x00\x00\x05_opid")); at >= 0 {
				n := len(strconv.FormatUint(target, 10))
				copy(f[at+13:], strings.Repeat("x", n))
			}
			m.Data = f
		case 5: // unsupported protocol version
			f := frameFor(target, 424242)
			f[4] = 1
			m.Data = f
		}
		publish(m)
		ev(12, variant, 0, 0)
		opid := uint64(1<<41) + uint64(rng.Intn(1000))
		publish(&nats.Msg{Subject: inbox + "." + strconv.FormatUint(opid, 10), Data: frameFor(opid, nextTag)})
		awaitLookup(5, -1, nextTag, opid, true)
		nextTag++
	}
	deliver := func() {
		close(readerParked.rel)
		p := ctl.take(time.Second, func(p *parked) bool { return p.point == "dispatch.sent" || p.point == "dispatch.dropped" })
		readerBusy = false
		if p == nil {
			ev(6, -1, 0, 0)
			r.Hang = "reader blocked in the channel send (head-of-line blocking)"
			return
		}
		if p.point == "dispatch.sent" {
			ev(6, 1, 0, 0)
			if readerTarget >= 0 {
				cs[readerTarget].chanFull = true
				settle(readerTarget)
			}
		} else {
			ev(6, 0, 0, 0)
			readerDropParked = p
		}
	}
	payloadFor := func(i int, n int) []byte {
		p := make([]byte, n)
		if n >= 4 {
			binary.BigEndian.PutUint32(p, uint32(n-4))
		}
		if n >= 8 {
			binary.BigEndian.PutUint32(p[4:], uint32(i))
		}
		return p
	}
	start := func(i int) {
		c := cs[i]
		go func() {
			t0 := time.Now()
			res, err := tr.Request(c.ctx, payloadFor(i, c.size))
			d := time.Since(t0)
			out := nresult{tag: -1, class: classifyNats(res, err), dur: d}
			if err != nil {
				out.msg = err.Error()
			} else if res != nil {
				out.tag = tagOf(res)
			}
			c.done <- out
		}()
	}
	finish := func(i int, res nresult) {
		cs[i].state = 4
		r.Elapsed[i] = res.dur.Microseconds()
	}

	lateTail := 0
	for step := 0; step < q.Steps && r.Hang == ""; step++ {
		// callers that left their select on their own
		for {
			p := ctl.take(0, tookPoint)
			if p == nil {
				break
			}
			if i := idxOf(p.opid); i >= 0 && cs[i].state == 2 {
				noteTook(i, p)
			}
		}
		type action struct{ kind, i int }
		var acts []action
		active := 0
		for i, c := range cs {
			if c.state >= 1 && c.state <= 3 || (c.state == 0 && i < len(cs)-q.Reserve) {
				active++
			}
			switch c.state {
			case 0:
				if i < len(cs)-q.Reserve {
					acts = append(acts, action{1, i})
				}
			case 1:
				if !(noresp && readerBusy) { // the server's 503 follows the publish: the reader must be free to take it
					acts = append(acts, action{2, i}, action{2, i})
				}
			case 3:
				acts = append(acts, action{8, i})
			}
		}
		if readerBusy {
			acts = append(acts, action{6, 0}, action{6, 0})
		} else {
			for i, c := range cs {
				if c.state >= 1 {
					acts = append(acts, action{5, i})
					if q.Profile == "wedge" {
						acts = append(acts, action{5, i}, action{5, i})
					}
					if q.Profile == "status" || rng.Intn(3) == 0 {
						acts = append(acts, action{11, i})
					}
				}
			}
			if rng.Intn(4) == 0 {
				acts = append(acts, action{5, -1})
			}
			if rng.Intn(6) == 0 || (q.Profile == "status" && rng.Intn(2) == 0) {
				acts = append(acts, action{11, -1}, action{12, 0})
			}
		}
		for i, c := range cs {
			if c.state == 2 && c.timeout < 1000 {
				acts = append(acts, action{7, i})
			}
		}
		if active == 0 && !readerBusy {
			// everybody has returned: a few late frames, then stop
			if lateTail++; lateTail > 3 {
				break
			}
		}
		if len(acts) == 0 {
			break
		}
		a := acts[rng.Intn(len(acts))]
		switch a.kind {
		case 1:
			c := cs[a.i]
			start(a.i)
			deadline := time.Now().Add(2 * time.Second)
			for c.state == 0 && time.Now().Before(deadline) {
				if p := ctl.take(0, func(p *parked) bool { return p.point == "request.registered" && p.opid == c.opid }); p != nil {
					c.state, c.rel = 1, p
					ev(1, a.i, 0, 0)
					break
				}
				select {
				case res := <-c.done:
					finish(a.i, res)
					switch res.class {
					case outRegErr:
						ev(1, a.i, 1, 0)
					case outEmpty:
						ev(1, a.i, 2, 0)
					default:
						ev(1, a.i, 9, res.class)
						unexpected(fmt.Sprintf("caller %d: Request returned class %d (%s) before registering", a.i, res.class, res.msg))
					}
				case <-time.After(200 * time.Microsecond):
				}
			}
			if c.state == 0 {
				r.Hang = "caller neither reached the point after Register nor returned"
			}
		case 2:
			c := cs[a.i]
			if noresp {
				releaseDrop() // the reader must be free to take the server's 503
			}
			c.released = time.Now()
			close(c.rel.rel)
			// what follows without a further yield: oversize / publish error -> Request returns;
			// published -> the request shows up on the request subject (or the server answers 503)
			deadline := time.Now().Add(2 * time.Second)
			decided := false
			for !decided && time.Now().Before(deadline) {
				select {
				case res := <-c.done:
					decided = true
					finish(a.i, res)
					switch res.class {
					case outTooLarge:
						ev(2, a.i, 1, 0)
						ev(8, a.i, outTooLarge, -1)
					case outSendErr:
						ev(10, a.i, 0, 0)
						ev(8, a.i, outSendErr, -1)
					default:
						ev(2, a.i, 9, res.class)
						unexpected(fmt.Sprintf("caller %d: Request returned class %d (%s) right after Register", a.i, res.class, res.msg))
					}
				case m := <-reqs:
					from := -1
					if len(m.Data) >= 8 {
						from = int(binary.BigEndian.Uint32(m.Data[4:8]))
					}
					if from != a.i {
						unexpected(fmt.Sprintf("request of caller %d seen while caller %d was released", from, a.i))
						break
					}
					decided = true
					if want := inbox + "." + strconv.FormatUint(c.opid, 10); m.Reply != want {
						unexpected(fmt.Sprintf("caller %d published with reply subject %q, want %q", a.i, m.Reply, want))
					}
					if len(m.Data) != c.size {
						unexpected(fmt.Sprintf("caller %d: %d bytes published, %d given", a.i, len(m.Data), c.size))
					}
					c.state = 2
					ev(2, a.i, 0, 0)
				case <-time.After(300 * time.Microsecond):
					if noresp {
						// no subscriber: the request is published once the server's 503 comes back
						if p := ctl.take(0, func(p *parked) bool { return p.point == "dispatch.miss" || p.point == "dispatch.send" }); p != nil {
							decided = true
							c.state = 2
							ev(2, a.i, 0, 0)
							if p.opid != c.opid {
								unexpected(fmt.Sprintf("no-responders status for op id %d after caller %d (op id %d) published", p.opid, a.i, c.opid))
							}
							if p.point == "dispatch.miss" {
								ev(11, a.i, 0, 0)
							} else {
								ev(11, a.i, 0, 1)
								readerBusy, readerParked, readerTarget = true, p, idxOf(p.opid)
							}
							r.ServerStatus++
						}
					}
				}
			}
			if !decided {
				r.Hang = fmt.Sprintf("caller %d: released after Register, neither published nor returned within 2 s", a.i)
			}
			settle(a.i)
		case 5:
			feed(a.i)
		case 11:
			feed503(a.i)
		case 12:
			feedBad()
		case 6:
			deliver()
		case 7:
			c := cs[a.i]
			p := ctl.take(time.Duration(c.timeout+500)*time.Millisecond, func(p *parked) bool { return p.opid == c.opid && tookPoint(p) })
			if p == nil {
				r.Hang = fmt.Sprintf("caller %d did not leave its select %d ms after its %d ms timeout", a.i, 500, c.timeout)
				break
			}
			noteTook(a.i, p)
		case 8:
			c := cs[a.i]
			close(c.rel.rel)
			select {
			case res := <-c.done:
				finish(a.i, res)
				switch res.class {
				case outOk, outTimedOut, outNotAvail:
					ev(8, a.i, res.class, res.tag)
				default:
					ev(8, a.i, outOther, res.class)
					unexpected(fmt.Sprintf("caller %d: Request returned class %d (%s) after its select", a.i, res.class, res.msg))
				}
			case <-time.After(2 * time.Second):
				r.Hang = "Request did not return after its select"
			}
		}
	}
	if r.Hang == "" && readerBusy {
		deliver()
	}
	releaseDrop()
	r.RegLen = frugal.VerifTransportRegistryLen(tr)
	if r.Hang == "" {
		r.Fresh = freshNats(tr, peer, inbox, reqs, ctl, noresp)
	}
	// requests on a transport that is no longer open: closed, or its connection gone
	if r.Hang == "" {
		before := frugal.VerifTransportRegistryLen(tr)
		if rng.Intn(2) == 0 {
			tr.Close()
		} else {
			conn.Close()
		}
		n := 0
		for i, c := range cs {
			if c.state != 0 || n >= 3 {
				continue
			}
			n++
			start(i)
			select {
			case res := <-c.done:
				finish(i, res)
				if res.class == outNotOpen {
					ev(9, i, 0, 0)
				} else {
					ev(9, i, 9, res.class)
					unexpected(fmt.Sprintf("caller %d: Request on a closed transport returned class %d (%s)", i, res.class, res.msg))
				}
			case <-time.After(2 * time.Second):
				r.Hang = "Request on a closed transport did not return"
			}
		}
		if after := frugal.VerifTransportRegistryLen(tr); after != before {
			unexpected(fmt.Sprintf("requests refused as NOT_OPEN changed the registry size from %d to %d", before, after))
		}
	}
	ctl.mu.Lock()
	for _, p := range ctl.parked {
		select {
		case <-p.rel:
		default:
			close(p.rel)
		}
	}
	r.Leftover = len(ctl.parked)
	ctl.block = map[string]bool{}
	ctl.mu.Unlock()
	for _, c := range cs {
		if c.rel != nil {
			select {
			case <-c.rel.rel:
			default:
				close(c.rel.rel)
			}
		}
	}
	return r
}

// a fresh request after the adversarial prefix must be served promptly: its own response, or - when
// nobody listens on the request subject - the server's 503 turned into SERVICE_NOT_AVAILABLE
func freshNats(tr frugal.FTransport, peer *nats.Conn, inbox string, reqs chan *nats.Msg, ctl *controller, noresp bool) int {
	ctl.mu.Lock()
	ctl.block = map[string]bool{}
	ctl.mu.Unlock()
	ctx := frugal.NewFContext("")
	ctx.SetTimeout(time.Second)
	opid, _ := frugal.VerifGetOpID(ctx)
	done := make(chan int, 1)
	go func() {
		payload := make([]byte, 8)
		binary.BigEndian.PutUint32(payload, 4)
		binary.BigEndian.PutUint32(payload[4:], 0xffff)
		res, err := tr.Request(ctx, payload)
		switch classifyNats(res, err) {
		case outOk:
			if tagOf(res) == 999999 {
				done <- 1
				return
			}
		case outNotAvail:
			if noresp {
				done <- 1
				return
			}
		}
		done <- 0
	}()
	if !noresp {
		deadline := time.After(1500 * time.Millisecond)
	wait:
		for {
			select {
			case m := <-reqs:
				if len(m.Data) >= 8 && binary.BigEndian.Uint32(m.Data[4:8]) == 0xffff {
					peer.Publish(m.Reply, frameFor(opid, 999999))
					peer.Flush()
					break wait
				}
			case <-deadline:
				break wait
			}
		}
	}
	select {
	case v := <-done:
		return v
	case <-time.After(1500 * time.Millisecond):
		return 0
	}
}
