package main

// Wall-clock side of C13: Request / Oneway on the adapter, NATS and HTTP transports against
// scripted peers (silent, late, blocked write, blocked flush); measures elapsed time, error class
// and what is left in the registry.

import (
	"context"
	"encoding/binary"
	"io"
	"net"
	"net/http"
	"net/http/httptest"
	"strings"
	"sync"
	"sync/atomic"
	"time"

	frugal "github.com/Workiva/frugal/lib/go"
	"github.com/nats-io/nats.go"

	"verifharness/hx"
)

type treq struct {
	Mode      string `json:"mode"`
	Transport string `json:"transport"` // adapter | nats | http
	Stall     string `json:"stall"`     // silent | late | write | flush
	TimeoutUs int    `json:"timeout_us"`
	LateMs    int    `json:"late_ms"`
	Oneway    bool   `json:"oneway"`
}

type tresp struct {
	ElapsedUs int64  `json:"elapsed_us"`
	Code      int    `json:"code"`
	RegLen    int    `json:"reglen"`
	Msg       string `json:"msg,omitempty"`
	Hang      string `json:"hang,omitempty"`
}

// underlying transport whose Write or Flush blocks until released
type blockT struct {
	*stt
	blockWrite, blockFlush bool
	blockClose             bool // Close of the underlying transport stalls (a peer that does not take the closing handshake)
	release                chan struct{}
	wrote                  chan []byte
}

func (b *blockT) Write(p []byte) (int, error) {
	if b.blockWrite {
		<-b.release
	}
	select {
	case b.wrote <- append([]byte(nil), p...):
	default:
	}
	return len(p), nil
}
func (b *blockT) Close() error {
	if b.blockClose {
		<-b.release
	}
	return b.stt.Close()
}
func (b *blockT) Flush(ctx context.Context) error {
	if b.blockFlush {
		<-b.release
	}
	return nil
}

// holdProxy forwards TCP bytes both ways; bytes from the client are held back until holdUntil.
type holdProxy struct {
	ln        net.Listener
	target    string
	holdUntil atomic.Value // time.Time
}

func newHoldProxy(target string) (*holdProxy, error) {
	ln, err := net.Listen("tcp", "127.0.0.1:0")
	if err != nil {
		return nil, err
	}
	p := &holdProxy{ln: ln, target: target}
	p.holdUntil.Store(time.Time{})
	go func() {
		for {
			c, err := ln.Accept()
			if err != nil {
				return
			}
			s, err := net.Dial("tcp", target)
			if err != nil {
				c.Close()
				continue
			}
			go func() { io.Copy(c, s); c.Close() }()
			go func() {
				buf := make([]byte, 32768)
				for {
					n, err := c.Read(buf)
					if n > 0 {
						if d := time.Until(p.holdUntil.Load().(time.Time)); d > 0 {
							time.Sleep(d)
						}
						s.Write(buf[:n])
					}
					if err != nil {
						s.Close()
						return
					}
				}
			}()
		}
	}()
	return p, nil
}

var (
	natsOnce sync.Once
	natsURL  string
	natsErr  error
)

func timing(q treq) tresp {
	var r tresp
	ctx := frugal.NewFContext("")
	ctx.SetTimeout(time.Duration(q.TimeoutUs) * time.Microsecond)
	opid, _ := frugal.VerifGetOpID(ctx)
	payload := make([]byte, 8)
	binary.BigEndian.PutUint32(payload, 4)
	var tr frugal.FTransport
	cleanup := func() {}
	switch q.Transport {
	case "adapter":
		bt := &blockT{stt: newStt(), blockWrite: q.Stall == "write", blockFlush: q.Stall == "flush", blockClose: q.Stall == "closing",
			release: make(chan struct{}), wrote: make(chan []byte, 4)}
		tr = frugal.NewAdapterTransport(bt)
		if err := tr.Open(); err != nil {
			r.Msg = err.Error()
			return r
		}
		if q.Stall == "late" {
			go func() {
				time.Sleep(time.Duration(q.LateMs) * time.Millisecond)
				bt.reads <- frameFor(opid, 1)
			}()
		}
		if q.Stall == "closing" {
			// somebody closes the transport and the close stalls; a call made meanwhile still has its deadline
			go tr.Close()
			time.Sleep(3 * time.Millisecond)
		}
		cleanup = func() { close(bt.release); tr.Close() }
	case "nats":
		natsOnce.Do(func() { _, natsURL, natsErr = hx.StartNats() })
		if natsErr != nil {
			r.Msg = natsErr.Error()
			return r
		}
		connURL := natsURL
		var proxy *holdProxy
		if q.Stall == "link" {
			// the client's link to the broker stalls for LateMs (its writes / flushes do not get through)
			var err error
			if proxy, err = newHoldProxy(strings.TrimPrefix(natsURL, "nats://")); err != nil {
				r.Msg = err.Error()
				return r
			}
			connURL = "nats://" + proxy.ln.Addr().String()
		}
		conn, err := hx.NatsConn(connURL)
		if err != nil {
			r.Msg = err.Error()
			return r
		}
		peer, _ := hx.NatsConn(natsURL)
		subj := "c13." + time.Now().Format("150405.000000000")
		peer.Subscribe(subj, func(m *nats.Msg) {
			if q.Stall == "late" {
				time.Sleep(time.Duration(q.LateMs) * time.Millisecond)
				peer.Publish(m.Reply, frameFor(opid, 1))
			}
		})
		peer.Flush()
		tr = frugal.NewFNatsTransport(conn, subj, "inbox."+subj)
		if err := tr.Open(); err != nil {
			r.Msg = err.Error()
			return r
		}
		conn.Flush()
		if proxy != nil {
			proxy.holdUntil.Store(time.Now().Add(time.Duration(q.LateMs) * time.Millisecond))
		}
		cleanup = func() {
			if proxy != nil {
				proxy.holdUntil.Store(time.Time{})
				proxy.ln.Close()
			}
			tr.Close()
			conn.Close()
			peer.Close()
		}
	case "http":
		srv := httptest.NewServer(http.HandlerFunc(func(w http.ResponseWriter, req *http.Request) {
			d := 10 * time.Second
			if q.Stall == "late" {
				d = time.Duration(q.LateMs) * time.Millisecond
			}
			if q.Stall == "hangup" {
				// the peer takes the request, stays silent for LateMs (less than the timeout) and hangs up without a
				// word; it does so to every request it gets
				if hj, ok := w.(http.Hijacker); ok {
					if c, _, err := hj.Hijack(); err == nil {
						time.Sleep(time.Duration(q.LateMs) * time.Millisecond)
						c.Close()
						return
					}
				}
				panic(http.ErrAbortHandler)
			}
			if q.Stall == "body" || q.Stall == "midbody" {
				// the response headers arrive at once, the body does not (midbody: after a part of it)
				w.Header().Set("Content-Type", "application/x-frugal")
				w.WriteHeader(200)
				if q.Stall == "midbody" {
					w.Write([]byte("AAAA"))
				}
				if fl, ok := w.(http.Flusher); ok {
					fl.Flush()
				}
				select {
				case <-time.After(d):
				case <-req.Context().Done():
				}
				return
			}
			select {
			case <-time.After(d):
			case <-req.Context().Done():
			}
			w.WriteHeader(200)
		}))
		tr = frugal.NewFHTTPTransportBuilder(&http.Client{}, srv.URL).Build()
		tr.Open()
		cleanup = func() { go srv.Close() }
	default:
		r.Msg = "unknown transport"
		return r
	}
	defer cleanup()
	type out struct {
		err error
		d   time.Duration
	}
	done := make(chan out, 1)
	go func() {
		t0 := time.Now()
		var err error
		if q.Oneway {
			err = tr.Oneway(ctx, payload)
		} else {
			_, err = tr.Request(ctx, payload)
		}
		done <- out{err, time.Since(t0)}
	}()
	bound := time.Duration(q.TimeoutUs)*time.Microsecond + 3*time.Second
	select {
	case o := <-done:
		r.ElapsedUs = o.d.Microseconds()
		r.Code = hx.Classify(o.err)
		if o.err != nil {
			r.Msg = o.err.Error()
		}
	case <-time.After(bound):
		r.Hang = "call did not return within timeout + 3 s"
		r.Code = hx.CodeHang
	}
	r.RegLen = frugal.VerifTransportRegistryLen(tr)
	return r
}
