// vh: drives the real Frugal implementation and writes observations as JSON lines.
package main

import (
	"fmt"
	"os"
)

type subcmd func(args []string) error

var subcmds = map[string]subcmd{}

func main() {
	if len(os.Args) < 2 {
		fmt.Fprintln(os.Stderr, "usage: vh <subcommand> [args]")
		os.Exit(2)
	}
	f, ok := subcmds[os.Args[1]]
	if !ok {
		fmt.Fprintln(os.Stderr, "unknown subcommand", os.Args[1])
		os.Exit(2)
	}
	if err := f(os.Args[2:]); err != nil {
		fmt.Fprintln(os.Stderr, "vh:", err)
		os.Exit(3)
	}
}
