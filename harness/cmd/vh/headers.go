package main

// Header codec observations (C04, C05): reads requests (JSON lines) on stdin,
// writes one observation per request on stdout.
//
// request:  {"op":"write"|"read_stream"|"read_frame"|"add", "pairs":[[hexk,hexv]..], "bytes":hex, "cap":n}
// response: {"code":int, "out":hex, "map":[[hexk,hexv]..sorted], "rest":hex, "panic":string}

import (
	"io"
	"bufio"
	"bytes"
	"encoding/hex"
	"encoding/json"
	"fmt"
	"os"
	"sort"
	"time"

	frugal "github.com/Workiva/frugal/lib/go"
	"github.com/apache/thrift/lib/go/thrift"
)

type hreq struct {
	Op    string      `json:"op"`
	Pairs [][2]string `json:"pairs"`
	Bytes string      `json:"bytes"`
	Cap   int         `json:"cap"`
	Chunk int         `json:"chunk"` // read_stream: the transport hands out at most this many bytes per Read (0 = all)
}

type hresp struct {
	Code  int         `json:"code"`
	Out   string      `json:"out"`
	Map   [][2]string `json:"map"`
	Rest  string      `json:"rest"`
	Order [][2]string `json:"order,omitempty"`
	Panic string      `json:"panic,omitempty"`
	Msg   string      `json:"msg,omitempty"`
	// EarlierChanged: the bytes an EARLIER marshalHeaders call returned were found changed after this call
	EarlierChanged string `json:"earlier_changed,omitempty"`
}

// the result of the previous "write" request, kept (not copied) to see whether a later call disturbs it
var lastMarshal []byte
var lastMarshalHex string

// error classes shared with Base/Res.v (res_code)
func classify(err error) int {
	if err == nil {
		return 0
	}
	if e, ok := err.(thrift.TTransportException); ok {
		switch e.TypeId() {
		case frugal.TRANSPORT_EXCEPTION_REQUEST_TOO_LARGE, frugal.TRANSPORT_EXCEPTION_RESPONSE_TOO_LARGE:
			return 1
		case frugal.TRANSPORT_EXCEPTION_NOT_OPEN:
			return 2
		case frugal.TRANSPORT_EXCEPTION_TIMED_OUT:
			return 3
		case frugal.TRANSPORT_EXCEPTION_END_OF_FILE:
			return 6
		}
		// readHeader wraps io.EOF / io.ErrUnexpectedEOF from a memory buffer as UNKNOWN
		return 6
	}
	if e, ok := err.(thrift.TProtocolException); ok {
		switch e.TypeId() {
		case thrift.INVALID_DATA:
			return 4
		case thrift.BAD_VERSION:
			return 5
		}
		return 7
	}
	return 7
}

func mapOf(pairs [][2]string) (map[string]string, error) {
	m := make(map[string]string, len(pairs))
	for _, p := range pairs {
		k, err := hex.DecodeString(p[0])
		if err != nil {
			return nil, err
		}
		v, err := hex.DecodeString(p[1])
		if err != nil {
			return nil, err
		}
		m[string(k)] = string(v)
	}
	return m, nil
}

func sortedPairs(m map[string]string) [][2]string {
	keys := make([]string, 0, len(m))
	for k := range m {
		keys = append(keys, k)
	}
	sort.Strings(keys)
	out := make([][2]string, 0, len(m))
	for _, k := range keys {
		out = append(out, [2]string{hex.EncodeToString([]byte(k)), hex.EncodeToString([]byte(m[k]))})
	}
	return out
}

// shortReader returns at most n bytes per Read, as a socket may
type shortReader struct {
	r io.Reader
	n int
}

func (s shortReader) Read(p []byte) (int, error) {
	if len(p) > s.n {
		p = p[:s.n]
	}
	return s.r.Read(p)
}

func withCap(b []byte, extra int) []byte {
	if extra <= 0 {
		// exact capacity
		c := make([]byte, len(b))
		copy(c, b)
		return c
	}
	c := make([]byte, len(b), len(b)+extra)
	copy(c, b)
	return c
}

// guarded runs f with panic recovery and a watchdog.
func guarded(f func() hresp) (r hresp) {
	done := make(chan hresp, 1)
	go func() {
		defer func() {
			if p := recover(); p != nil {
				done <- hresp{Code: 100, Panic: fmt.Sprint(p)}
			}
		}()
		done <- f()
	}()
	select {
	case r = <-done:
		return r
	case <-time.After(5 * time.Second):
		return hresp{Code: 102, Panic: "hang"}
	}
}

func doHeaders(q hreq) hresp {
	switch q.Op {
	case "write":
		m, err := mapOf(q.Pairs)
		if err != nil {
			return hresp{Code: 7, Msg: err.Error()}
		}
		return guarded(func() hresp {
			out := frugal.VerifMarshalHeaders(m)
			r := hresp{Code: 0, Out: hex.EncodeToString(out)}
			if lastMarshal != nil && hex.EncodeToString(lastMarshal) != lastMarshalHex {
				r.EarlierChanged = lastMarshalHex
			}
			lastMarshal, lastMarshalHex = out, r.Out
			return r
		})
	case "write_ctx", "write_resp":
		// through the public API: FContext headers -> WriteRequestHeader / WriteResponseHeader
		m, err := mapOf(q.Pairs)
		if err != nil {
			return hresp{Code: 7, Msg: err.Error()}
		}
		return guarded(func() hresp {
			mem := thrift.NewTMemoryBuffer()
			proto := frugal.NewFProtocolFactory(thrift.NewTBinaryProtocolFactoryConf(nil)).GetProtocol(mem)
			ctx := frugal.NewFContext("")
			var werr error
			var full map[string]string
			if q.Op == "write_ctx" {
				for k, v := range m {
					ctx.AddRequestHeader(k, v)
				}
				full = ctx.RequestHeaders()
				werr = proto.WriteRequestHeader(ctx)
			} else {
				for k, v := range m {
					ctx.AddResponseHeader(k, v)
				}
				full = ctx.ResponseHeaders()
				werr = proto.WriteResponseHeader(ctx)
			}
			if werr != nil {
				return hresp{Code: classify(werr), Msg: werr.Error()}
			}
			return hresp{Code: 0, Out: hex.EncodeToString(mem.Bytes()), Order: sortedPairs(full)}
		})
	case "read_stream":
		b, _ := hex.DecodeString(q.Bytes)
		return guarded(func() hresp {
			mem := &thrift.TMemoryBuffer{Buffer: bytes.NewBuffer(withCap(b, q.Cap))}
			var src io.Reader = mem
			if q.Chunk > 0 {
				src = shortReader{mem, q.Chunk} // a connection that delivers the stream in pieces
			}
			m, err := frugal.VerifReadHeader(src)
			if err != nil {
				return hresp{Code: classify(err), Msg: err.Error()}
			}
			return hresp{Code: 0, Map: sortedPairs(m), Rest: hex.EncodeToString(mem.Bytes())}
		})
	case "read_req":
		// the same header block read through the public API: FProtocol.ReadRequestHeader -> FContext
		b, _ := hex.DecodeString(q.Bytes)
		return guarded(func() hresp {
			mem := &thrift.TMemoryBuffer{Buffer: bytes.NewBuffer(b)}
			proto := frugal.NewFProtocolFactory(thrift.NewTBinaryProtocolFactoryConf(nil)).GetProtocol(mem)
			ctx, err := proto.ReadRequestHeader()
			if err != nil {
				return hresp{Code: classify(err), Msg: err.Error()}
			}
			return hresp{Code: 0, Map: sortedPairs(ctx.RequestHeaders()), Order: sortedPairs(ctx.ResponseHeaders()),
				Rest: hex.EncodeToString(mem.Bytes())}
		})
	case "read_frame":
		b, _ := hex.DecodeString(q.Bytes)
		return guarded(func() hresp {
			m, err := frugal.VerifGetHeadersFromFrame(withCap(b, q.Cap))
			if err != nil {
				return hresp{Code: classify(err), Msg: err.Error()}
			}
			return hresp{Code: 0, Map: sortedPairs(m)}
		})
	case "add":
		b, _ := hex.DecodeString(q.Bytes)
		m, err := mapOf(q.Pairs)
		if err != nil {
			return hresp{Code: 7, Msg: err.Error()}
		}
		return guarded(func() hresp {
			out, err := frugal.VerifAddHeadersToFrame(withCap(b, q.Cap), m)
			if err != nil {
				return hresp{Code: classify(err), Msg: err.Error()}
			}
			return hresp{Code: 0, Out: hex.EncodeToString(out)}
		})
	}
	return hresp{Code: 7, Msg: "unknown op"}
}

func init() {
	subcmds["headers"] = func(args []string) error {
		in := bufio.NewReaderSize(os.Stdin, 1<<20)
		out := bufio.NewWriter(os.Stdout)
		defer out.Flush()
		dec := json.NewDecoder(in)
		enc := json.NewEncoder(out)
		for dec.More() {
			var q hreq
			if err := dec.Decode(&q); err != nil {
				return err
			}
			if err := enc.Encode(doHeaders(q)); err != nil {
				return err
			}
		}
		return nil
	}
}
