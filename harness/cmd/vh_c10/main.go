// vh_c10: drives the real Frugal IDL parser (compiler/parser) for property C10.
//
// Requests (JSON, one per line) on stdin, one JSON response per request on stdout.
//
//	{"op":"rules"}                                  -> {"rules":[names...]}
//	{"op":"parse","text":hex}                       -> raw pigeon parse (parser.ParseReader)
//	{"op":"files","dir":path,"files":{name:hex},"root":name}
//	                                                -> parser.ParseFrugal on a file tree
//
// Parse trees are dumped in the canonical nested-list form shared with Judge/JParser.v:
// byte strings as hex JSON strings, small integers as numbers, lists as arrays.
package main

import (
	"bytes"
	"encoding/hex"
	"fmt"
	"math"
	"os"
	"path/filepath"
	"time"

	"github.com/Workiva/frugal/compiler/parser"

	"verifharness/hx"
)

type req struct {
	Op    string            `json:"op"`
	Text  string            `json:"text"`
	Dir   string            `json:"dir"`
	Files map[string]string `json:"files"`
	Root  string            `json:"root"`
}

type perr struct {
	Off  int    `json:"off"`
	Rule string `json:"rule"`
	Msg  string `json:"msg"`
}

type resp struct {
	Code     int                    `json:"code"` // 0 ok, 1 parse error, 100 panic, 102 hang, 103 harness failure
	Ast      interface{}            `json:"ast,omitempty"`
	Errs     []perr                 `json:"errs,omitempty"`
	Msg      string                 `json:"msg,omitempty"`
	Panic    string                 `json:"panic,omitempty"`
	Rules    []string               `json:"rules,omitempty"`
}

type L = []interface{}

func hs(s string) string { return hex.EncodeToString([]byte(s)) }

func encZ(v int64) L {
	sign := 0
	var u uint64
	if v < 0 {
		sign = 1
		u = uint64(-(v + 1)) + 1
	} else {
		u = uint64(v)
	}
	return L{sign, int64(u >> 32), int64(u & 0xffffffff)}
}

func encAnns(a parser.Annotations) L {
	out := L{}
	for _, x := range a {
		out = append(out, L{hs(x.Name), hs(x.Value)})
	}
	return out
}

func encComment(c []string) L {
	if c == nil {
		return L{}
	}
	lines := L{}
	for _, l := range c {
		lines = append(lines, hs(l))
	}
	return L{lines}
}

func encType(t *parser.Type) L {
	opt := func(x *parser.Type) L {
		if x == nil {
			return L{}
		}
		return L{encType(x)}
	}
	return L{hs(t.Name), opt(t.KeyType), opt(t.ValueType), encAnns(t.Annotations)}
}

func encValue(v interface{}) L {
	switch x := v.(type) {
	case string:
		return L{0, hs(x)}
	case bool:
		if x {
			return L{1, 1}
		}
		return L{1, 0}
	case int64:
		return L{2, encZ(x)}
	case float64:
		b := math.Float64bits(x)
		return L{3, int64(b >> 32), int64(b & 0xffffffff)}
	case []interface{}:
		items := L{}
		for _, y := range x {
			items = append(items, encValue(y))
		}
		return L{4, items}
	case []parser.KeyValue:
		items := L{}
		for _, kv := range x {
			items = append(items, L{encValue(kv.Key), encValue(kv.Value)})
		}
		return L{5, items}
	case parser.Identifier:
		return L{6, hs(string(x))}
	}
	return L{7}
}

func encField(f *parser.Field) L {
	def := L{}
	if f.Default != nil {
		def = L{encValue(f.Default)}
	}
	return L{encComment(f.Comment), encZ(int64(f.ID)), hs(f.Name), int(f.Modifier), encType(f.Type), def, encAnns(f.Annotations)}
}

func encFields(fs []*parser.Field) L {
	out := L{}
	for _, f := range fs {
		out = append(out, encField(f))
	}
	return out
}

func encStruct(s *parser.Struct) L {
	return L{encComment(s.Comment), hs(s.Name), encFields(s.Fields), int(s.Type), encAnns(s.Annotations)}
}

func encFrugal(f *parser.Frugal) L {
	incs, nss, tds, cs, es, ss, xs, us, svs, scs := L{}, L{}, L{}, L{}, L{}, L{}, L{}, L{}, L{}, L{}
	for _, i := range f.Includes {
		incs = append(incs, L{hs(i.Name), hs(i.Value), encAnns(i.Annotations)})
	}
	for _, n := range f.Namespaces {
		nss = append(nss, L{hs(n.Scope), hs(n.Value), encAnns(n.Annotations)})
	}
	for _, t := range f.Typedefs {
		tds = append(tds, L{encComment(t.Comment), hs(t.Name), encType(t.Type), encAnns(t.Annotations)})
	}
	for _, c := range f.Constants {
		cs = append(cs, L{encComment(c.Comment), hs(c.Name), encType(c.Type), encValue(c.Value), encAnns(c.Annotations)})
	}
	for _, e := range f.Enums {
		vs := L{}
		for _, v := range e.Values {
			vs = append(vs, L{encComment(v.Comment), hs(v.Name), encZ(int64(v.Value)), encAnns(v.Annotations)})
		}
		es = append(es, L{encComment(e.Comment), hs(e.Name), vs, encAnns(e.Annotations)})
	}
	for _, s := range f.Structs {
		ss = append(ss, encStruct(s))
	}
	for _, s := range f.Exceptions {
		xs = append(xs, encStruct(s))
	}
	for _, s := range f.Unions {
		us = append(us, encStruct(s))
	}
	for _, s := range f.Services {
		ms := L{}
		for _, m := range s.Methods {
			ret := L{}
			if m.ReturnType != nil {
				ret = L{encType(m.ReturnType)}
			}
			ow := 0
			if m.Oneway {
				ow = 1
			}
			ms = append(ms, L{encComment(m.Comment), hs(m.Name), ow, ret, encFields(m.Arguments), encFields(m.Exceptions), encAnns(m.Annotations)})
		}
		svs = append(svs, L{encComment(s.Comment), hs(s.Name), hs(s.Extends), ms, encAnns(s.Annotations)})
	}
	for _, s := range f.Scopes {
		ops := L{}
		for _, o := range s.Operations {
			ops = append(ops, L{encComment(o.Comment), hs(o.Name), encType(o.Type), encAnns(o.Annotations)})
		}
		vars := L{}
		pstr := ""
		if s.Prefix != nil {
			pstr = s.Prefix.String
			for _, v := range s.Prefix.Variables {
				vars = append(vars, hs(v))
			}
		}
		scs = append(scs, L{encComment(s.Comment), hs(s.Name), L{hs(pstr), vars}, ops, encAnns(s.Annotations)})
	}
	return L{incs, nss, tds, cs, es, ss, xs, us, svs, scs}
}

func parseRaw(text []byte) resp {
	v, err := parser.ParseReader("", bytes.NewReader(text))
	if err != nil {
		r := resp{Code: 1, Msg: err.Error()}
		if pes, ok := parser.VerifParseErrors(err); ok {
			for _, e := range pes {
				r.Errs = append(r.Errs, perr{e.Offset, e.Rule, e.Msg})
			}
		}
		return r
	}
	f, ok := v.(*parser.Frugal)
	if !ok {
		return resp{Code: 103, Msg: fmt.Sprintf("ParseReader returned %T", v)}
	}
	return resp{Code: 0, Ast: encFrugal(f)}
}

// encTree dumps a parsed file and, recursively, its resolved includes (a file reached along two
// paths is dumped twice; include cycles are errors, so this terminates). Keys in order of first
// occurrence among the file's includes.
func encTree(f *parser.Frugal) L {
	incs := L{}
	done := map[string]bool{}
	for _, inc := range f.Includes {
		v := inc.Value
		if len(v) < 7 {
			continue
		}
		key := filepath.Base(v[:len(v)-7])
		if done[key] {
			continue
		}
		done[key] = true
		if sub, ok := f.ParsedIncludes[key]; ok {
			incs = append(incs, L{hs(key), encTree(sub)})
		}
	}
	if len(done) != len(f.ParsedIncludes) {
		incs = append(incs, L{hs("?unexpected ParsedIncludes entries"), L{}})
	}
	return L{hs(f.Name), encFrugal(f), incs}
}

func parseFiles(q req) resp {
	if q.Dir == "" {
		return resp{Code: 103, Msg: "no dir"}
	}
	if err := os.MkdirAll(q.Dir, 0o755); err != nil {
		return resp{Code: 103, Msg: err.Error()}
	}
	for name, h := range q.Files {
		b, err := hex.DecodeString(h)
		if err != nil {
			return resp{Code: 103, Msg: err.Error()}
		}
		p := filepath.Join(q.Dir, name)
		if err := os.MkdirAll(filepath.Dir(p), 0o755); err != nil {
			return resp{Code: 103, Msg: err.Error()}
		}
		if err := os.WriteFile(p, b, 0o644); err != nil {
			return resp{Code: 103, Msg: err.Error()}
		}
	}
	f, err := parser.ParseFrugal(filepath.Join(q.Dir, q.Root))
	if err != nil {
		return resp{Code: 1, Msg: err.Error()}
	}
	return resp{Code: 0, Ast: encTree(f)}
}

func handle(q req) resp {
	r, p := hx.Guarded(20*time.Second, func() resp {
		switch q.Op {
		case "rules":
			return resp{Rules: parser.VerifRuleNames()}
		case "parse":
			b, err := hex.DecodeString(q.Text)
			if err != nil {
				return resp{Code: 103, Msg: err.Error()}
			}
			return parseRaw(b)
		case "files":
			return parseFiles(q)
		}
		return resp{Code: 103, Msg: "unknown op " + q.Op}
	})
	if p == "hang" {
		return resp{Code: 102, Panic: p}
	}
	if p != "" {
		return resp{Code: 100, Panic: p}
	}
	return r
}

func main() {
	if err := hx.Serve(handle); err != nil {
		fmt.Fprintln(os.Stderr, "vh_c10:", err)
		os.Exit(3)
	}
}
