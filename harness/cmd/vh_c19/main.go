// vh_c19: drives the real Frugal compiler for property C19 (deterministic, location-independent
// code generation). Reads JSON requests on stdin, writes one JSON observation per request.
//
//	{"op":"analyze","file":F,"gen":G,"out":O}   parse F with parser.ParseFrugal and report, for every
//	    parsed file: scope order after Frugal.sort, includes, ParsedIncludes; the order in which
//	    compiler.GenerateFrugalWithOptions hands files to the generator (recorded by a wrapping
//	    ProgramGenerator), GetOutputDir of the real generator for every file, and the HTML
//	    generator's transitiveIncludes.
//	{"op":"compile_seq","jobs":[{file,gen,out,recurse,delim,cwd}]}   compiler.Compile for every
//	    job in order, in this one process (global state must be reset between compiles); reports
//	    sha256 of every emitted file.
package main

import (
	"crypto/sha256"
	"encoding/hex"
	"fmt"
	"io"
	"os"
	"path/filepath"
	"sort"
	"time"

	"github.com/Workiva/frugal/compiler"
	"github.com/Workiva/frugal/compiler/generator"
	htmlgen "github.com/Workiva/frugal/compiler/generator/html"
	jsongen "github.com/Workiva/frugal/compiler/generator/json"
	"github.com/Workiva/frugal/compiler/globals"
	"github.com/Workiva/frugal/compiler/parser"

	"verifharness/hx"
)

type job struct {
	File    string `json:"file"`
	Gen     string `json:"gen"`
	Out     string `json:"out"`
	Recurse bool   `json:"recurse"`
	Delim   string `json:"delim"`
	Cwd     string `json:"cwd"`
	Cleanup bool   `json:"cleanup"` // remove the output directory once it has been hashed
	// AppendTo / AppendText: before this compile, append text to a source file (the content of a
	// path changes between two compiles of one process)
	AppendTo   string `json:"append_to"`
	AppendText string `json:"append_text"`
}

type request struct {
	Op   string `json:"op"`
	File string `json:"file"`
	Gen  string `json:"gen"`
	Out  string `json:"out"`
	Jobs []job  `json:"jobs"`
}

type fileInfo struct {
	File      string      `json:"file"`
	Name      string      `json:"name"`
	Scopes    []string    `json:"scopes"`
	Includes  [][2]string `json:"includes"` // name, "1" if annotated vendor
	Parsed    [][2]string `json:"parsed"`   // include name, file
	Namespace *string     `json:"namespace"`
	OutDir    string      `json:"outdir"`
}

type jobResult struct {
	Code  int               `json:"code"`
	Msg   string            `json:"msg,omitempty"`
	Files map[string]string `json:"files"`
	Globs []string          `json:"globals"` // globals after the compile returned
}

type response struct {
	Code      int         `json:"code"`
	Msg       string      `json:"msg,omitempty"`
	Files     []fileInfo  `json:"files,omitempty"`
	Plan      []string    `json:"plan,omitempty"`
	Html      [][2]string `json:"html,omitempty"`
	Json      []string    `json:"json,omitempty"`
	UseVendor bool        `json:"use_vendor"`
	Lang      string      `json:"lang,omitempty"`
	Results   []jobResult `json:"results,omitempty"`
}

// recorder wraps the real ProgramGenerator: it answers the questions generateFrugalRec asks
// with the real generator's answers and records the Generate calls instead of writing files.
type recorder struct {
	inner generator.ProgramGenerator
	plan  []string
}

func (r *recorder) Generate(f *parser.Frugal, outputDir string) error {
	r.plan = append(r.plan, f.File)
	return nil
}
func (r *recorder) GetOutputDir(dir string, f *parser.Frugal) string {
	return r.inner.GetOutputDir(dir, f)
}
func (r *recorder) DefaultOutputDir() string { return r.inner.DefaultOutputDir() }
func (r *recorder) UseVendor() bool          { return r.inner.UseVendor() }

func analyze(q request) response {
	f, err := parser.ParseFrugal(q.File)
	if err != nil {
		return response{Code: hx.CodeOther, Msg: err.Error()}
	}
	lang, opts, err := compiler.CleanGenParam(q.Gen)
	if err != nil {
		return response{Code: hx.CodeOther, Msg: err.Error()}
	}
	g, err := compiler.GetProgramGenerator(lang, opts)
	if err != nil {
		return response{Code: hx.CodeOther, Msg: err.Error()}
	}
	resp := response{Lang: lang, UseVendor: g.UseVendor()}
	// every parsed file, children before parents (topological), each once
	seen := map[string]bool{}
	var walk func(m *parser.Frugal)
	walk = func(m *parser.Frugal) {
		if seen[m.File] {
			return
		}
		seen[m.File] = true
		names := make([]string, 0, len(m.ParsedIncludes))
		for n := range m.ParsedIncludes {
			names = append(names, n)
		}
		sort.Strings(names)
		for _, n := range names {
			walk(m.ParsedIncludes[n])
		}
		fi := fileInfo{File: m.File, Name: m.Name, Scopes: []string{}, Includes: [][2]string{}, Parsed: [][2]string{}}
		for _, s := range m.Scopes {
			fi.Scopes = append(fi.Scopes, s.Name)
		}
		for _, inc := range m.Includes {
			v := "0"
			if _, ok := inc.Annotations.Vendor(); ok {
				v = "1"
			}
			fi.Includes = append(fi.Includes, [2]string{inc.Name, v})
		}
		for _, n := range names {
			fi.Parsed = append(fi.Parsed, [2]string{n, m.ParsedIncludes[n].File})
		}
		if lang != "html" && lang != "json" {
			if ns := m.Namespace(lang); ns != nil {
				v := ns.Value
				fi.Namespace = &v
			}
		}
		fi.OutDir = g.GetOutputDir(q.Out, m)
		resp.Files = append(resp.Files, fi)
	}
	walk(f)
	// the order of generation, through the real generateFrugalRec
	rec := &recorder{inner: g}
	globals.Reset()
	globals.Gen = q.Gen
	globals.Out = q.Out
	globals.Recurse = true
	err = compiler.GenerateFrugalWithOptions(f, rec, lang)
	globals.Reset()
	if err != nil {
		return response{Code: hx.CodeOther, Msg: err.Error()}
	}
	resp.Plan = rec.plan
	for _, m := range htmlgen.VerifTransitiveIncludes(f) {
		resp.Html = append(resp.Html, [2]string{m.Name, m.File})
	}
	for _, m := range jsongen.VerifCollectFrugals(f) {
		resp.Json = append(resp.Json, m.File)
	}
	return resp
}

// globalsNow: the package-level state a following Compile would start from
func globalsNow() []string {
	b := func(x bool) string {
		if x {
			return "1"
		}
		return "0"
	}
	return []string{globals.TopicDelimiter, globals.Gen, globals.Out, globals.FileDir, b(globals.DryRun),
		b(globals.Recurse), b(globals.Verbose), fmt.Sprint(len(globals.CompiledFiles))}
}

func hashTree(root string) (map[string]string, error) {
	out := map[string]string{}
	err := filepath.Walk(root, func(p string, fi os.FileInfo, err error) error {
		if err != nil {
			return err
		}
		if fi.IsDir() {
			return nil
		}
		fh, err := os.Open(p)
		if err != nil {
			return err
		}
		defer fh.Close()
		h := sha256.New()
		if _, err := io.Copy(h, fh); err != nil {
			return err
		}
		rel, _ := filepath.Rel(root, p)
		out[filepath.ToSlash(rel)] = hex.EncodeToString(h.Sum(nil))
		return nil
	})
	return out, err
}

func compileSeq(q request) response {
	resp := response{}
	home, _ := os.Getwd()
	for _, j := range q.Jobs {
		if j.AppendTo != "" {
			if f, err := os.OpenFile(j.AppendTo, os.O_APPEND|os.O_WRONLY, 0o644); err == nil {
				f.WriteString(j.AppendText)
				f.Close()
			}
		}
		if j.Cwd != "" {
			if err := os.Chdir(j.Cwd); err != nil {
				resp.Results = append(resp.Results, jobResult{Code: hx.CodeOther, Msg: err.Error()})
				continue
			}
		}
		delim := j.Delim
		if delim == "" {
			delim = "."
		}
		err := compiler.Compile(compiler.Options{File: j.File, Gen: j.Gen, Out: j.Out, Delim: delim, Recurse: j.Recurse})
		os.Chdir(home)
		if err != nil {
			resp.Results = append(resp.Results, jobResult{Code: hx.CodeOther, Msg: err.Error(), Globs: globalsNow()})
			continue
		}
		root := j.Out
		if !filepath.IsAbs(root) && j.Cwd != "" {
			root = filepath.Join(j.Cwd, root)
		}
		files, err := hashTree(root)
		if j.Cleanup {
			os.RemoveAll(root)
		}
		if err != nil {
			resp.Results = append(resp.Results, jobResult{Code: hx.CodeOther, Msg: err.Error()})
			continue
		}
		resp.Results = append(resp.Results, jobResult{Files: files, Globs: globalsNow()})
	}
	return resp
}

func main() {
	devnull, _ := os.OpenFile(os.DevNull, os.O_WRONLY, 0)
	err := hx.Serve(func(q request) response {
		// the compiler prints warnings on os.Stdout; the JSON stream keeps the real one
		if devnull != nil {
			os.Stdout = devnull
		}
		r, p := hx.Guarded(120*time.Second, func() response {
			switch q.Op {
			case "analyze":
				return analyze(q)
			case "compile_seq":
				return compileSeq(q)
			}
			return response{Code: hx.CodeOther, Msg: "unknown op " + q.Op}
		})
		if p == "hang" {
			return response{Code: hx.CodeHang, Msg: p}
		}
		if p != "" {
			return response{Code: hx.CodePanic, Msg: p}
		}
		return r
	})
	if err != nil {
		fmt.Fprintln(os.Stderr, "vh_c19:", err)
		os.Exit(3)
	}
}
