module verifharness

go 1.20

require (
	github.com/Workiva/frugal v0.0.0
	github.com/Workiva/frugal/lib/go v0.0.0
	github.com/apache/thrift v0.19.0
	github.com/go-stomp/stomp v2.1.4+incompatible
	github.com/nats-io/nats-server/v2 v2.10.11
	github.com/nats-io/nats.go v1.33.1
)

require (
	github.com/klauspost/compress v1.17.6 // indirect
	github.com/nats-io/nkeys v0.4.7 // indirect
	github.com/nats-io/nuid v1.0.1 // indirect
	github.com/sirupsen/logrus v1.9.3 // indirect
	golang.org/x/crypto v0.19.0 // indirect
	golang.org/x/sys v0.17.0 // indirect
)

replace github.com/Workiva/frugal => /repo

replace github.com/Workiva/frugal/lib/go => /repo/lib/go
