// Pass "locksites" (property C14): the lock / write structure of <repo>/lib/go/processor.go as
// plain data, coq/theories/Gen/LockSites.v.  For every function of the file, in source order:
// writeMu.Lock(), writeMu.Unlock(), `defer writeMu.Unlock()`, every use of the output protocol
// (a method called on `oprot`, or `oprot` handed to a function that is not declared in this file:
// a write), calls of functions declared in this file that receive `oprot` (inlined by the Coq
// side), and the delegation to a registered FProcessorFunction (`processor.Process(.., oprot)`).
// It also counts, in compiler/generator/golang/generator.go generateMethodProcessor, the emitted
// statements that mention oprot: p.SendError / p.SendReply calls, and anything else.
// The Coq side (Model/LockDiscipline.v, Props/C14.v c14_writes_guarded) decides that every write
// reachable from an exported function happens while writeMu is held.
//
// Standard library only.
package main

import (
	"bytes"
	"fmt"
	"go/ast"
	"go/parser"
	"go/token"
	"os"
	"path/filepath"
	"strconv"
	"strings"
)

func init() { passes = append(passes, emitLockSites) }

type lockFn struct {
	name     string
	exported bool
	events   []string
}

func exprString(e ast.Expr) string {
	switch x := e.(type) {
	case *ast.Ident:
		return x.Name
	case *ast.SelectorExpr:
		return exprString(x.X) + "." + x.Sel.Name
	case *ast.StarExpr:
		return "*" + exprString(x.X)
	case *ast.UnaryExpr:
		return x.Op.String() + exprString(x.X)
	}
	return "?"
}

func emitLockSites(repo, out string) error {
	fset := token.NewFileSet()
	path := filepath.Join(repo, "lib", "go", "processor.go")
	file, err := parser.ParseFile(fset, path, nil, 0)
	if err != nil {
		return fmt.Errorf("locksites: %v", err)
	}
	// functions and methods declared in the file, by bare name
	declared := map[string]int{}
	var decls []*ast.FuncDecl
	for _, d := range file.Decls {
		if fd, ok := d.(*ast.FuncDecl); ok && fd.Body != nil {
			decls = append(decls, fd)
		}
	}
	// bare names can repeat (Process, AddMiddleware, GetWriteMutex on two receivers): index by receiver too
	qual := func(fd *ast.FuncDecl) string {
		if fd.Recv != nil && len(fd.Recv.List) == 1 {
			return strings.TrimPrefix(exprString(fd.Recv.List[0].Type), "*") + "." + fd.Name.Name
		}
		return fd.Name.Name
	}
	count := map[string]int{}
	for _, fd := range decls {
		count[fd.Name.Name]++
	}
	for i, fd := range decls {
		if count[fd.Name.Name] == 1 {
			declared[fd.Name.Name] = i
		}
	}
	var fns []lockFn
	for _, fd := range decls {
		fn := lockFn{name: qual(fd), exported: ast.IsExported(fd.Name.Name)}
		usesOprot := func(call *ast.CallExpr) bool {
			for _, a := range call.Args {
				if id, ok := a.(*ast.Ident); ok && id.Name == "oprot" {
					return true
				}
			}
			return false
		}
		classify := func(call *ast.CallExpr, deferred bool) {
			sel, isSel := call.Fun.(*ast.SelectorExpr)
			if isSel && (sel.Sel.Name == "Lock" || sel.Sel.Name == "Unlock") && strings.HasSuffix(exprString(sel.X), "writeMu") {
				switch {
				case sel.Sel.Name == "Lock":
					fn.events = append(fn.events, "LLock")
				case deferred:
					fn.events = append(fn.events, "LDeferUnlock")
				default:
					fn.events = append(fn.events, "LUnlock")
				}
				return
			}
			if isSel {
				if id, ok := sel.X.(*ast.Ident); ok && id.Name == "oprot" {
					fn.events = append(fn.events, "LWrite (* oprot."+sel.Sel.Name+" *)")
					return
				}
			}
			if !usesOprot(call) {
				return
			}
			callee := ""
			if isSel {
				callee = sel.Sel.Name
			} else if id, ok := call.Fun.(*ast.Ident); ok {
				callee = id.Name
			}
			if isSel && callee == "Process" {
				fn.events = append(fn.events, "LDelegate (* "+exprString(sel.X)+".Process *)")
				return
			}
			if i, ok := declared[callee]; ok {
				fn.events = append(fn.events, fmt.Sprintf("LCall %d (* %s *)", i, callee))
				return
			}
			fn.events = append(fn.events, "LWrite (* "+exprString(call.Fun)+"(.., oprot) *)")
		}
		ast.Inspect(fd.Body, func(n ast.Node) bool {
			switch x := n.(type) {
			case *ast.DeferStmt:
				classify(x.Call, true)
				return false
			case *ast.FuncLit:
				return false
			case *ast.CallExpr:
				// arguments first would be evaluation order; a call nested in the arguments of a
				// write is itself listed when Inspect reaches it, after the outer call: keep source order
				classify(x, false)
			}
			return true
		})
		fns = append(fns, fn)
	}

	// generated per-method Process: statements emitted by generateMethodProcessor that mention oprot
	gpath := filepath.Join(repo, "compiler", "generator", "golang", "generator.go")
	gfile, err := parser.ParseFile(fset, gpath, nil, 0)
	if err != nil {
		return fmt.Errorf("locksites: %v", err)
	}
	sends, other, found := 0, 0, false
	for _, d := range gfile.Decls {
		fd, ok := d.(*ast.FuncDecl)
		if !ok || fd.Name.Name != "generateMethodProcessor" {
			continue
		}
		found = true
		ast.Inspect(fd.Body, func(n ast.Node) bool {
			lit, ok := n.(*ast.BasicLit)
			if !ok || lit.Kind != token.STRING {
				return true
			}
			s, err := strconv.Unquote(lit.Value)
			if err != nil {
				return true
			}
			for _, line := range strings.Split(s, "\n") {
				t := strings.TrimSpace(line)
				if !strings.Contains(t, "oprot") {
					continue
				}
				t = strings.TrimPrefix(t, "return ")
				switch {
				case strings.HasPrefix(t, "p.SendError(fctx, oprot,"), strings.HasPrefix(t, "p.SendReply(fctx, oprot,"):
					sends++
				case strings.HasPrefix(t, "func (p *") && strings.Contains(t, "iprot, oprot *frugal.FProtocol) error {"):
					// the signature
				default:
					other++
				}
			}
			return true
		})
	}
	if !found {
		return fmt.Errorf("locksites: generateMethodProcessor not found in %s", gpath)
	}

	var b bytes.Buffer
	b.WriteString("(** Generated by translator/locksites.go from lib/go/processor.go and\n")
	b.WriteString("    compiler/generator/golang/generator.go (generateMethodProcessor). Do not edit. *)\n")
	b.WriteString("From Coq Require Import List.\nImport ListNotations.\n\n")
	b.WriteString("Inductive lsev :=\n| LLock | LUnlock | LDeferUnlock   (* writeMu.Lock() / .Unlock() / defer .Unlock() *)\n")
	b.WriteString("| LWrite                            (* a use of the output protocol *)\n")
	b.WriteString("| LCall (f : nat)                   (* call of function number f of this file, with oprot *)\n")
	b.WriteString("| LDelegate.                        (* processor.Process(fctx, iprot, oprot): a registered FProcessorFunction *)\n\n")
	b.WriteString("Record lsfn := mklsfn { ls_exported : bool; ls_body : list lsev }.\n\n")
	b.WriteString("Definition processor_sites : list lsfn := [\n")
	for i, fn := range fns {
		sep := ";"
		if i == len(fns)-1 {
			sep = ""
		}
		fmt.Fprintf(&b, "  (* %d: %s *)\n  mklsfn %v [%s]%s\n", i, fn.name, fn.exported, strings.Join(fn.events, "; "), sep)
	}
	b.WriteString("].\n\n")
	fmt.Fprintf(&b, "(** generateMethodProcessor: emitted statements that hand oprot to p.SendError / p.SendReply, and to anything else *)\n")
	fmt.Fprintf(&b, "Definition generated_send_calls : nat := %d.\nDefinition generated_other_oprot_uses : nat := %d.\n", sends, other)

	target := filepath.Join(out, "LockSites.v")
	if old, err := os.ReadFile(target); err == nil && bytes.Equal(old, b.Bytes()) {
		return nil
	}
	if err := os.MkdirAll(out, 0o755); err != nil {
		return err
	}
	return os.WriteFile(target, b.Bytes(), 0o644)
}
