// Pass "mapsites" (property C19): lists every `range` over a map-typed operand in
// <repo>/compiler/** (tests and testdata excluded) together with a conservative syntactic
// classification of what the loop does with the iteration order, every call into a library
// that iterates maps on its own (encoding/json, yaml.v2, text/html template), and whether the
// enclosing function is reachable from the code-generation entry points.
// The result is plain data, coq/theories/Gen/MapSites.v; the Coq side
// (Model/MapOrder.v, Proofs/MapOrderProofs.v, Props/C19.v) decides which classes are
// order-free and proves it.
//
// Standard library only (go/parser + go/types with the "source" importer).
package main

import (
	"bytes"
	"fmt"
	"go/ast"
	"go/importer"
	"go/parser"
	"go/printer"
	"go/token"
	"go/types"
	"os"
	"path/filepath"
	"sort"
	"strings"
)

func init() { passes = append(passes, emitMapSites) }

// Classes (kept in step with Model/MapOrder.v, Inductive site_class).
const (
	// body only appends the range KEY to one slice; the next use of that slice in the
	// enclosing block is sort.Strings / sort.Ints on it
	cSortedKeys = "CSortedKeys"
	// body only appends the range VALUE to one slice; the next use of that slice is
	// sort.Sort(s) / sort.Sort(T(s)); SortKey names the sort.Interface type T (the Coq side must
	// know T's Less and prove it strict on the entries)
	cSortedValues = "CSortedValues"
	// body only stores into maps at the range key itself or with a constant value, and/or
	// deletes; no other effect
	cSetInsert = "CSetInsert"
	// body is `m = F(value, m)`, F the enclosing function, whose other statements only store
	// `m[k] = x` (k, x fields of F's first parameter) and return m: a recursive set union
	cRecInsert = "CRecInsert"
	// body returns / breaks depending on an entry (the first matching entry wins)
	cEarlyExit = "CEarlyExit"
	// anything else: the iteration order can reach whatever the body writes
	cOther = "COther"
	// the operand could not be typed (missing dependency): unknown
	cUntyped = "CUntyped"
	// not a range statement: a call into a library that iterates maps itself, documented to do
	// so in sorted key order
	cLibSorted = "CLibSorted"
)

type mapSite struct {
	File    string // path relative to the repository root
	Line    int
	Func    string
	Expr    string // the operand (range sites) or the callee (library sites)
	Class   string
	SortKey string
	Reach   bool
	Detail  string
	obj     types.Object // enclosing function
}

type msLoader struct {
	fset   *token.FileSet
	repo   string
	pkgs   map[string]*types.Package // by import path
	infos  map[string]*types.Info
	files  map[string][]*ast.File
	src    types.Importer
	errs   []string
	inProg map[string]bool
}

const msModule = "github.com/Workiva/frugal"

func (l *msLoader) Import(path string) (*types.Package, error) {
	return l.ImportFrom(path, l.repo, 0)
}

func (l *msLoader) ImportFrom(path, dir string, mode types.ImportMode) (*types.Package, error) {
	if strings.HasPrefix(path, msModule+"/compiler") {
		return l.load(path)
	}
	if from, ok := l.src.(types.ImporterFrom); ok {
		p, err := from.ImportFrom(path, l.repo, 0)
		if err == nil {
			return p, nil
		}
		// a dependency that cannot be type-checked offline: an empty package; every use of it
		// becomes an invalid type and any range over such an operand is classified CUntyped
		l.errs = append(l.errs, fmt.Sprintf("import %s: %v", path, err))
		fake := types.NewPackage(path, filepath.Base(path))
		fake.MarkComplete()
		return fake, nil
	}
	return nil, fmt.Errorf("no importer")
}

func (l *msLoader) load(path string) (*types.Package, error) {
	if p, ok := l.pkgs[path]; ok {
		return p, nil
	}
	if l.inProg[path] {
		return nil, fmt.Errorf("import cycle through %s", path)
	}
	l.inProg[path] = true
	defer delete(l.inProg, path)
	dir := filepath.Join(l.repo, strings.TrimPrefix(path, msModule))
	ents, err := os.ReadDir(dir)
	if err != nil {
		return nil, err
	}
	var files []*ast.File
	for _, e := range ents {
		n := e.Name()
		if e.IsDir() || !strings.HasSuffix(n, ".go") || strings.HasSuffix(n, "_test.go") {
			continue
		}
		f, err := parser.ParseFile(l.fset, filepath.Join(dir, n), nil, parser.ParseComments)
		if err != nil {
			return nil, err
		}
		// files guarded by the verif build tag are read too: they are add-only hooks
		files = append(files, f)
	}
	info := &types.Info{Types: map[ast.Expr]types.TypeAndValue{}, Uses: map[*ast.Ident]types.Object{},
		Defs: map[*ast.Ident]types.Object{}, Selections: map[*ast.SelectorExpr]*types.Selection{}}
	conf := types.Config{Importer: l, Error: func(err error) { l.errs = append(l.errs, err.Error()) }}
	pkg, _ := conf.Check(path, l.fset, files, info)
	l.pkgs[path] = pkg
	l.infos[path] = info
	l.files[path] = files
	return pkg, nil
}

func msSrc(fset *token.FileSet, n ast.Node) string {
	var b bytes.Buffer
	printer.Fprint(&b, fset, n)
	return strings.Join(strings.Fields(b.String()), " ")
}

func exprMentions(e ast.Node, name string) bool {
	if name == "" {
		return false
	}
	found := false
	ast.Inspect(e, func(n ast.Node) bool {
		if id, ok := n.(*ast.Ident); ok && id.Name == name {
			found = true
		}
		return !found
	})
	return found
}

// pureExpr: no calls (other than len/cap), no channel receive, no function literal.
func pureExpr(e ast.Expr) bool {
	ok := true
	ast.Inspect(e, func(n ast.Node) bool {
		switch x := n.(type) {
		case *ast.CallExpr:
			if id, isID := x.Fun.(*ast.Ident); isID && (id.Name == "len" || id.Name == "cap") {
				return true
			}
			ok = false
		case *ast.FuncLit:
			ok = false
		case *ast.UnaryExpr:
			if x.Op == token.ARROW {
				ok = false
			}
		}
		return ok
	})
	return ok
}

func identName(e ast.Expr) string {
	if id, ok := e.(*ast.Ident); ok {
		return id.Name
	}
	return ""
}

func isMapType(info *types.Info, e ast.Expr) bool {
	tv, ok := info.Types[e]
	if !ok || tv.Type == nil {
		return false
	}
	_, isMap := tv.Type.Underlying().(*types.Map)
	return isMap
}

// appendOnly: every statement of body is `s = append(s, <elem>)` for one slice identifier s.
func appendOnly(body []ast.Stmt, elem string) string {
	slice := ""
	if elem == "" || elem == "_" {
		return ""
	}
	for _, st := range body {
		as, ok := st.(*ast.AssignStmt)
		if !ok || len(as.Lhs) != 1 || len(as.Rhs) != 1 || as.Tok != token.ASSIGN {
			return ""
		}
		call, ok := as.Rhs[0].(*ast.CallExpr)
		if !ok || identName(call.Fun) != "append" || len(call.Args) != 2 || call.Ellipsis.IsValid() {
			return ""
		}
		l := identName(as.Lhs[0])
		if l == "" || identName(call.Args[0]) != l || (slice != "" && slice != l) || identName(call.Args[1]) != elem {
			return ""
		}
		slice = l
	}
	return slice
}

// classify looks at one range statement, the statements that follow it in its block and the
// enclosing function declaration.
func classify(fset *token.FileSet, info *types.Info, rs *ast.RangeStmt, following []ast.Stmt, encl *ast.FuncDecl) (class, sortKey, detail string) {
	key := identName(rs.Key)
	val := ""
	if rs.Value != nil {
		val = identName(rs.Value)
	}
	body := rs.Body.List
	if len(body) == 0 {
		return cSetInsert, "", "empty body"
	}
	// --- CSortedKeys / CSortedValues ----------------------------------------------------------
	for _, which := range []string{"key", "value"} {
		elem := key
		if which == "value" {
			elem = val
		}
		slice := appendOnly(body, elem)
		if slice == "" {
			continue
		}
		for _, st := range following {
			if !exprMentions(st, slice) {
				continue
			}
			if es, ok := st.(*ast.ExprStmt); ok {
				if call, ok := es.X.(*ast.CallExpr); ok {
					if sel, ok := call.Fun.(*ast.SelectorExpr); ok && identName(sel.X) == "sort" && len(call.Args) == 1 {
						arg := call.Args[0]
						if which == "key" && (sel.Sel.Name == "Strings" || sel.Sel.Name == "Ints") && identName(arg) == slice {
							return cSortedKeys, "sort." + sel.Sel.Name, "keys appended to " + slice + ", then sort." + sel.Sel.Name
						}
						if which == "value" && sel.Sel.Name == "Sort" {
							// sort.Sort(s) or sort.Sort(T(s))
							inner := arg
							if conv, ok := arg.(*ast.CallExpr); ok && len(conv.Args) == 1 {
								inner = conv.Args[0]
							}
							if identName(inner) == slice {
								tn := "?"
								if tv, ok := info.Types[arg]; ok && tv.Type != nil {
									tn = types.TypeString(tv.Type, func(p *types.Package) string { return p.Name() })
								}
								return cSortedValues, tn, "values appended to " + slice + ", then sort.Sort as " + tn
							}
						}
					}
				}
			}
			return cOther, "", which + "s appended to " + slice + " but its next use is not a recognised sort: " + msSrc(fset, st)
		}
		return cOther, "", which + "s appended to " + slice + " and never sorted in the enclosing block"
	}
	// --- CRecInsert -----------------------------------------------------------------------------
	if len(body) == 1 && encl != nil && encl.Recv == nil && val != "" && val != "_" {
		if as, ok := body[0].(*ast.AssignStmt); ok && as.Tok == token.ASSIGN && len(as.Lhs) == 1 && len(as.Rhs) == 1 {
			if call, ok := as.Rhs[0].(*ast.CallExpr); ok && identName(call.Fun) == encl.Name.Name && len(call.Args) == 2 &&
				identName(call.Args[0]) == val && identName(call.Args[1]) != "" && identName(call.Args[1]) == identName(as.Lhs[0]) {
				m := identName(as.Lhs[0])
				okRest := isMapType(info, as.Lhs[0])
				params := []string{}
				for _, f := range encl.Type.Params.List {
					for _, n := range f.Names {
						params = append(params, n.Name)
					}
				}
				if len(params) != 2 || params[1] != m {
					okRest = false
				}
				for _, st := range encl.Body.List {
					if st == ast.Stmt(rs) || !okRest {
						continue
					}
					switch s := st.(type) {
					case *ast.AssignStmt:
						if !(len(s.Lhs) == 1 && len(s.Rhs) == 1 && s.Tok == token.ASSIGN) {
							okRest = false
							break
						}
						ix, isIx := s.Lhs[0].(*ast.IndexExpr)
						if !(isIx && identName(ix.X) == m && pureExpr(ix.Index) &&
							identName(s.Rhs[0]) == params[0] && exprMentions(ix.Index, params[0])) {
							okRest = false
						}
					case *ast.ReturnStmt:
						if len(s.Results) != 1 || identName(s.Results[0]) != m {
							okRest = false
						}
					default:
						okRest = false
					}
				}
				if okRest {
					return cRecInsert, "", "recursive union into " + m + " through " + encl.Name.Name
				}
			}
		}
	}
	// --- CSetInsert: only `m[key] = pure` / `m[pure] = constant` / delete(m, pure) ------------
	why := ""
	var checkStmt func(st ast.Stmt) bool
	checkList := func(l []ast.Stmt) bool {
		for _, b := range l {
			if !checkStmt(b) {
				return false
			}
		}
		return true
	}
	checkStmt = func(st ast.Stmt) bool {
		switch s := st.(type) {
		case *ast.AssignStmt:
			if len(s.Lhs) != 1 || len(s.Rhs) != 1 || s.Tok != token.ASSIGN {
				why = "assignment form: " + msSrc(fset, s)
				return false
			}
			ix, ok := s.Lhs[0].(*ast.IndexExpr)
			if !ok {
				why = "assignment to a non-map location: " + msSrc(fset, s)
				return false
			}
			if !isMapType(info, ix.X) {
				why = "indexed store into a non-map: " + msSrc(fset, s)
				return false
			}
			if exprMentions(ix.X, key) || exprMentions(ix.X, val) {
				why = "target map depends on the entry"
				return false
			}
			if !pureExpr(ix.Index) || !pureExpr(s.Rhs[0]) {
				why = "impure expression in store: " + msSrc(fset, s)
				return false
			}
			if tgt := identName(ix.X); tgt == "" || exprMentions(s.Rhs[0], tgt) {
				why = "stored value reads the target map"
				return false
			}
			indexIsKey := key != "" && key != "_" && identName(ix.Index) == key
			isConst := false
			if tv, ok := info.Types[s.Rhs[0]]; ok && tv.Value != nil {
				isConst = true
			}
			if cl, ok := s.Rhs[0].(*ast.CompositeLit); ok && len(cl.Elts) == 0 {
				isConst = true // struct{}{}
			}
			if id := identName(s.Rhs[0]); id == "nil" {
				isConst = true
			}
			if !(indexIsKey || isConst) {
				why = "store at a derived index with an entry-dependent value (collisions would be order-dependent): " + msSrc(fset, s)
				return false
			}
			return true
		case *ast.ExprStmt:
			call, ok := s.X.(*ast.CallExpr)
			if ok && identName(call.Fun) == "delete" && len(call.Args) == 2 && pureExpr(call.Args[1]) &&
				!exprMentions(call.Args[0], key) && !exprMentions(call.Args[0], val) {
				return true
			}
			why = "call with effects: " + msSrc(fset, s)
			return false
		case *ast.IfStmt:
			if s.Init != nil || !pureExpr(s.Cond) {
				why = "guard with an init statement or effects: " + msSrc(fset, s.Cond)
				return false
			}
			okGuard := true
			ast.Inspect(s.Cond, func(n ast.Node) bool {
				if _, isIx := n.(*ast.IndexExpr); isIx {
					okGuard = false
				}
				return okGuard
			})
			if !okGuard {
				why = "guard reads an indexed location: " + msSrc(fset, s.Cond)
				return false
			}
			if !checkList(s.Body.List) {
				return false
			}
			if s.Else != nil {
				if eb, ok := s.Else.(*ast.BlockStmt); ok {
					return checkList(eb.List)
				}
				return checkStmt(s.Else)
			}
			return true
		case *ast.BranchStmt:
			if s.Tok == token.CONTINUE && s.Label == nil {
				return true
			}
			why = "branch: " + msSrc(fset, s)
			return false
		}
		why = "statement: " + msSrc(fset, st)
		return false
	}
	if checkList(body) {
		return cSetInsert, "", "body only stores into / deletes from maps"
	}
	// --- early exit -------------------------------------------------------------------------
	early := false
	ast.Inspect(rs.Body, func(n ast.Node) bool {
		switch x := n.(type) {
		case *ast.FuncLit:
			return false
		case *ast.ReturnStmt:
			early = true
		case *ast.BranchStmt:
			if x.Tok == token.BREAK || x.Tok == token.GOTO {
				early = true
			}
		}
		return true
	})
	if early {
		return cEarlyExit, "", why
	}
	return cOther, "", why
}

// library calls that iterate maps themselves (in sorted key order, as documented)
var msLibCalls = map[string]bool{
	"encoding/json.Marshal": true, "encoding/json.MarshalIndent": true, "(*encoding/json.Encoder).Encode": true,
	"gopkg.in/yaml.v2.Marshal": true, "(*gopkg.in/yaml.v2.Encoder).Encode": true,
	"(*text/template.Template).Execute": true, "(*text/template.Template).ExecuteTemplate": true,
	"(*html/template.Template).Execute": true, "(*html/template.Template).ExecuteTemplate": true,
}

func collectMapSites(repo string) ([]mapSite, []string, error) {
	for _, kv := range [][2]string{{"GOFLAGS", "-mod=mod"}, {"GOPROXY", "off"}, {"GOSUMDB", "off"}, {"GOTOOLCHAIN", "local"}} {
		if os.Getenv(kv[0]) == "" {
			os.Setenv(kv[0], kv[1])
		}
	}
	abs, err := filepath.Abs(repo)
	if err != nil {
		return nil, nil, err
	}
	cwd, _ := os.Getwd()
	if err := os.Chdir(abs); err != nil { // go/build resolves module imports relative to the cwd
		return nil, nil, err
	}
	defer os.Chdir(cwd)
	fset := token.NewFileSet()
	l := &msLoader{fset: fset, repo: abs, pkgs: map[string]*types.Package{}, infos: map[string]*types.Info{},
		files: map[string][]*ast.File{}, inProg: map[string]bool{}}
	l.src = importer.ForCompiler(fset, "source", nil)
	var pkgPaths []string
	err = filepath.Walk(filepath.Join(abs, "compiler"), func(p string, fi os.FileInfo, err error) error {
		if err != nil {
			return err
		}
		if fi.IsDir() {
			if fi.Name() == "testdata" {
				return filepath.SkipDir
			}
			ents, _ := os.ReadDir(p)
			for _, e := range ents {
				if !e.IsDir() && strings.HasSuffix(e.Name(), ".go") && !strings.HasSuffix(e.Name(), "_test.go") {
					rel, _ := filepath.Rel(abs, p)
					pkgPaths = append(pkgPaths, msModule+"/"+filepath.ToSlash(rel))
					break
				}
			}
		}
		return nil
	})
	if err != nil {
		return nil, nil, err
	}
	sort.Strings(pkgPaths)
	var sites []mapSite
	// call graph over function objects of compiler/**
	edges := map[types.Object][]types.Object{}
	methodsByName := map[string][]types.Object{}
	var roots []types.Object
	for _, pp := range pkgPaths {
		if _, err := l.load(pp); err != nil {
			return nil, nil, fmt.Errorf("load %s: %v", pp, err)
		}
	}
	for _, pp := range pkgPaths {
		info := l.infos[pp]
		for _, f := range l.files[pp] {
			for _, d := range f.Decls {
				if fd, ok := d.(*ast.FuncDecl); ok && fd.Recv != nil {
					if obj := info.Defs[fd.Name]; obj != nil {
						methodsByName[fd.Name.Name] = append(methodsByName[fd.Name.Name], obj)
					}
				}
			}
		}
	}
	for _, pp := range pkgPaths {
		info := l.infos[pp]
		for _, f := range l.files[pp] {
			fname := fset.Position(f.Pos()).Filename
			rel, _ := filepath.Rel(abs, fname)
			rel = filepath.ToSlash(rel)
			for _, d := range f.Decls {
				fd, ok := d.(*ast.FuncDecl)
				if !ok || fd.Body == nil {
					continue
				}
				self := info.Defs[fd.Name]
				fn := fd.Name.Name
				if fd.Recv != nil && len(fd.Recv.List) == 1 {
					fn = strings.TrimPrefix(msSrc(fset, fd.Recv.List[0].Type), "*") + "." + fn
				}
				if fd.Recv == nil {
					short := strings.TrimPrefix(pp, msModule+"/")
					if (short == "compiler" && (fn == "Compile" || fn == "GenerateFrugalWithOptions")) ||
						(short == "compiler/parser" && fn == "ParseFrugal") {
						roots = append(roots, self)
					}
				}
				// edges: every identifier in the body that resolves to a function
				ast.Inspect(fd.Body, func(n ast.Node) bool {
					id, ok := n.(*ast.Ident)
					if !ok {
						return true
					}
					if obj, ok := info.Uses[id].(*types.Func); ok {
						edges[self] = append(edges[self], obj)
						if sig, ok := obj.Type().(*types.Signature); ok && sig.Recv() != nil {
							if _, isIface := sig.Recv().Type().Underlying().(*types.Interface); isIface {
								edges[self] = append(edges[self], methodsByName[obj.Name()]...)
							}
						}
					}
					return true
				})
				// library sites
				ast.Inspect(fd.Body, func(n ast.Node) bool {
					call, ok := n.(*ast.CallExpr)
					if !ok {
						return true
					}
					var id *ast.Ident
					switch x := call.Fun.(type) {
					case *ast.SelectorExpr:
						id = x.Sel
					case *ast.Ident:
						id = x
					}
					if id == nil {
						return true
					}
					if obj, ok := info.Uses[id].(*types.Func); ok {
						if full := obj.FullName(); msLibCalls[full] {
							sites = append(sites, mapSite{File: rel, Line: fset.Position(call.Pos()).Line, Func: fn,
								Expr: msSrc(fset, call.Fun), Class: cLibSorted, SortKey: full,
								Detail: "library iterates maps in sorted key order", obj: self})
						}
					}
					return true
				})
				// range sites: walk statement lists so that each range statement knows what follows it
				var walkList func(list []ast.Stmt)
				var walkStmt func(st ast.Stmt, following []ast.Stmt)
				visitExprFuncs := func(n ast.Node) {
					if n == nil {
						return
					}
					ast.Inspect(n, func(x ast.Node) bool {
						if fl, ok := x.(*ast.FuncLit); ok {
							walkList(fl.Body.List)
							return false
						}
						return true
					})
				}
				walkStmt = func(st ast.Stmt, following []ast.Stmt) {
					switch s := st.(type) {
					case *ast.RangeStmt:
						tv, ok := info.Types[s.X]
						typed := ok && tv.Type != nil && tv.Type != types.Typ[types.Invalid]
						if !typed {
							sites = append(sites, mapSite{File: rel, Line: fset.Position(s.Pos()).Line, Func: fn,
								Expr: msSrc(fset, s.X), Class: cUntyped, Detail: "operand could not be typed", obj: self})
						} else if _, isMap := tv.Type.Underlying().(*types.Map); isMap {
							c, k, d := classify(fset, info, s, following, fd)
							sites = append(sites, mapSite{File: rel, Line: fset.Position(s.Pos()).Line, Func: fn,
								Expr: msSrc(fset, s.X), Class: c, SortKey: k, Detail: d, obj: self})
						}
						visitExprFuncs(s.X)
						walkList(s.Body.List)
					case *ast.BlockStmt:
						walkList(s.List)
					case *ast.IfStmt:
						if s.Init != nil {
							walkStmt(s.Init, nil)
						}
						visitExprFuncs(s.Cond)
						walkList(s.Body.List)
						if s.Else != nil {
							walkStmt(s.Else, nil)
						}
					case *ast.ForStmt:
						walkList(s.Body.List)
					case *ast.SwitchStmt:
						walkList(s.Body.List)
					case *ast.TypeSwitchStmt:
						walkList(s.Body.List)
					case *ast.SelectStmt:
						walkList(s.Body.List)
					case *ast.CaseClause:
						walkList(s.Body)
					case *ast.CommClause:
						walkList(s.Body)
					case *ast.LabeledStmt:
						walkStmt(s.Stmt, following)
					default:
						visitExprFuncs(st)
					}
				}
				walkList = func(list []ast.Stmt) {
					for i, st := range list {
						walkStmt(st, list[i+1:])
					}
				}
				walkList(fd.Body.List)
			}
		}
	}
	if len(roots) < 3 {
		return nil, nil, fmt.Errorf("mapsites: entry points not found (compiler.Compile, compiler.GenerateFrugalWithOptions, parser.ParseFrugal)")
	}
	// reachability
	reach := map[types.Object]bool{}
	work := append([]types.Object{}, roots...)
	for len(work) > 0 {
		o := work[len(work)-1]
		work = work[:len(work)-1]
		if o == nil || reach[o] {
			continue
		}
		reach[o] = true
		work = append(work, edges[o]...)
	}
	for i := range sites {
		sites[i].Reach = reach[sites[i].obj]
	}
	sort.SliceStable(sites, func(i, j int) bool {
		if sites[i].File != sites[j].File {
			return sites[i].File < sites[j].File
		}
		if sites[i].Line != sites[j].Line {
			return sites[i].Line < sites[j].Line
		}
		return sites[i].Class < sites[j].Class
	})
	// source text of the Less method of every sort.Interface type used by a CSortedValues site
	msLessSrc = map[string]string{}
	for _, pp := range pkgPaths {
		for _, f := range l.files[pp] {
			for _, d := range f.Decls {
				fd, ok := d.(*ast.FuncDecl)
				if !ok || fd.Recv == nil || fd.Name.Name != "Less" || fd.Body == nil || len(fd.Recv.List) != 1 {
					continue
				}
				tn := l.pkgs[pp].Name() + "." + strings.TrimPrefix(msSrc(fset, fd.Recv.List[0].Type), "*")
				for _, st := range sites {
					if st.Class == cSortedValues && st.SortKey == tn {
						msLessSrc[tn] = msSrc(fset, fd.Body)
					}
				}
			}
		}
	}
	// ---- package-level variables that some function writes, and what globals.Reset restores ----
	msMutable = map[string]string{}
	msDecl, msReset = nil, nil
	for _, pp := range pkgPaths {
		info := l.infos[pp]
		pkg := l.pkgs[pp]
		short := strings.TrimPrefix(pp, msModule+"/")
		rootVar := func(e ast.Expr) *types.Var {
			for {
				switch x := e.(type) {
				case *ast.ParenExpr:
					e = x.X
				case *ast.IndexExpr:
					e = x.X
				case *ast.StarExpr:
					e = x.X
				case *ast.SelectorExpr:
					if v, ok := info.Uses[x.Sel].(*types.Var); ok && !v.IsField() && v.Parent() == v.Pkg().Scope() {
						return v // pkg.Var
					}
					e = x.X
				case *ast.Ident:
					if v, ok := info.Uses[x].(*types.Var); ok && !v.IsField() && v.Pkg() != nil && v.Parent() == v.Pkg().Scope() {
						return v
					}
					return nil
				default:
					return nil
				}
			}
		}
		for _, f := range l.files[pp] {
			for _, d := range f.Decls {
				switch dd := d.(type) {
				case *ast.GenDecl:
					if dd.Tok == token.VAR && short == "compiler/globals" {
						for _, sp := range dd.Specs {
							vs := sp.(*ast.ValueSpec)
							for i, n := range vs.Names {
								init := ""
								if i < len(vs.Values) {
									init = msSrc(fset, vs.Values[i])
								}
								msDecl = append(msDecl, [2]string{n.Name, init})
							}
						}
					}
				case *ast.FuncDecl:
					if dd.Body == nil {
						continue
					}
					fn := dd.Name.Name
					if dd.Recv != nil && len(dd.Recv.List) == 1 {
						fn = strings.TrimPrefix(msSrc(fset, dd.Recv.List[0].Type), "*") + "." + fn
					}
					isReset := short == "compiler/globals" && fn == "Reset"
					ast.Inspect(dd.Body, func(n ast.Node) bool {
						var lhs []ast.Expr
						switch x := n.(type) {
						case *ast.AssignStmt:
							if x.Tok != token.DEFINE {
								lhs = x.Lhs
							}
							if isReset && len(x.Lhs) == len(x.Rhs) {
								for i := range x.Lhs {
									if id, ok := x.Lhs[i].(*ast.Ident); ok {
										msReset = append(msReset, [2]string{id.Name, msSrc(fset, x.Rhs[i])})
									}
								}
							}
						case *ast.IncDecStmt:
							lhs = []ast.Expr{x.X}
						}
						for _, e := range lhs {
							if v := rootVar(e); v != nil && strings.HasPrefix(v.Pkg().Path(), msModule+"/compiler") {
								key := strings.TrimPrefix(v.Pkg().Path(), msModule+"/") + "." + v.Name()
								where := short + ":" + fn
								if !strings.Contains(msMutable[key], where) {
									if msMutable[key] != "" {
										msMutable[key] += ", "
									}
									msMutable[key] += where
								}
							}
						}
						return true
					})
				}
			}
		}
		_ = pkg
	}
	return sites, l.errs, nil
}

var msLessSrc map[string]string
var msMutable map[string]string
var msDecl, msReset [][2]string


func emitMapSites(repo, out string) error {
	sites, errs, err := collectMapSites(repo)
	if err != nil {
		return err
	}
	var b strings.Builder
	b.WriteString("(** GENERATED by translator/mapsites.go from <repo>/compiler/** -- do not edit.\n")
	b.WriteString("    Every `range` over a map-typed operand and every call into a library that iterates\n")
	b.WriteString("    maps itself, with a conservative syntactic class and reachability from the\n")
	b.WriteString("    code-generation entry points. *)\n")
	b.WriteString("From Coq Require Import String List ZArith.\nFrom FV Require Import Model.MapOrder.\nImport ListNotations.\nOpen Scope string_scope.\n\n")
	b.WriteString("Definition map_sites : list map_site := [\n")
	for i, s := range sites {
		sep := ";"
		if i == len(sites)-1 {
			sep = ""
		}
		r := "false"
		if s.Reach {
			r = "true"
		}
		fmt.Fprintf(&b, "  mk_site %s %d%%Z %s %s %s %s %s%s\n", coqString(s.File), s.Line, coqString(s.Func),
			coqString(s.Expr), s.Class, coqString(s.SortKey), r, sep)
	}
	b.WriteString("].\n\n")
	b.WriteString("(** source of the Less method of each sort.Interface type used by a CSortedValues site *)\n")
	b.WriteString("Definition sort_less_sources : list (string * string) := [\n")
	lk := make([]string, 0, len(msLessSrc))
	for k := range msLessSrc {
		lk = append(lk, k)
	}
	sort.Strings(lk)
	for i, k := range lk {
		sep := ";"
		if i == len(lk)-1 {
			sep = ""
		}
		fmt.Fprintf(&b, "  (%s, %s)%s\n", coqString(k), coqString(msLessSrc[k]), sep)
	}
	b.WriteString("].\n\n")
	b.WriteString("(** package-level variables of compiler/** that some function assigns (name, writers) *)\n")
	b.WriteString("Definition mutable_globals : list (string * string) := [\n")
	mk := make([]string, 0, len(msMutable))
	for k := range msMutable {
		mk = append(mk, k)
	}
	sort.Strings(mk)
	for i, k := range mk {
		sep := ";"
		if i == len(mk)-1 {
			sep = ""
		}
		fmt.Fprintf(&b, "  (%s, %s)%s\n", coqString(k), coqString(msMutable[k]), sep)
	}
	b.WriteString("].\n\n")
	emitPairs := func(name string, l [][2]string) {
		fmt.Fprintf(&b, "Definition %s : list (string * string) := [\n", name)
		for i, p := range l {
			sep := ";"
			if i == len(l)-1 {
				sep = ""
			}
			fmt.Fprintf(&b, "  (%s, %s)%s\n", coqString(p[0]), coqString(p[1]), sep)
		}
		b.WriteString("].\n\n")
	}
	b.WriteString("(** compiler/globals: declared variables with their initialisers, and the assignments of Reset() *)\n")
	emitPairs("globals_decl", msDecl)
	emitPairs("globals_reset", msReset)
	b.WriteString("(* classification notes\n")
	for _, s := range sites {
		fmt.Fprintf(&b, "   %s:%d %s: %s -- %s\n", s.File, s.Line, s.Func, s.Class, strings.ReplaceAll(strings.ReplaceAll(s.Detail, "*)", "* )"), "(*", "( *"))
	}
	b.WriteString("*)\n")
	ne := 0
	for _, e := range errs {
		if ne == 0 {
			b.WriteString("(* type-check diagnostics (tolerated; an untyped range operand becomes CUntyped)\n")
		}
		if ne < 20 {
			fmt.Fprintf(&b, "   %s\n", strings.ReplaceAll(strings.ReplaceAll(e, "*)", "* )"), "(*", "( *"))
		}
		ne++
	}
	if ne > 0 {
		b.WriteString("*)\n")
	}
	fmt.Fprintf(&b, "Definition map_sites_typecheck_diagnostics : Z := %d%%Z.\n", ne)
	return msWriteIfChanged(filepath.Join(out, "MapSites.v"), []byte(b.String()))
}

func msWriteIfChanged(path string, data []byte) error {
	if old, err := os.ReadFile(path); err == nil && bytes.Equal(old, data) {
		return nil
	}
	if err := os.MkdirAll(filepath.Dir(path), 0o755); err != nil {
		return err
	}
	tmp := path + ".tmp"
	if err := os.WriteFile(tmp, data, 0o644); err != nil {
		return err
	}
	return os.Rename(tmp, path)
}
