// Pass "ctxlocks" (properties C17, C01): the lock / map-access structure of the methods of
// FContextImpl (lib/go/context.go) and fRegistryImpl (lib/go/registry.go), path by path, as Coq
// data (Gen/CtxLockSites.v). Control flow: if/else branches and early returns are enumerated as
// separate paths; loop bodies are taken once; everything else is linear.
package main

import (
	"bytes"
	"fmt"
	"go/ast"
	"go/parser"
	"go/token"
	"path/filepath"
	"sort"
	"strings"
)

func init() { passes = append(passes, emitCtxLockSites) }

type clEvent string

type clMethod struct {
	name   string
	paths  [][]clEvent
	fpaths [][]clEvent // the same paths as lock operations and foreign / blocking operations only
}

// parameters of the method being walked whose type is not a basic or slice type (an interface such as
// FContext, a channel, a function): code of the caller runs, or the goroutine may block, when they are used
var clForeignParams = map[string]bool{}

// functions and methods of the file under translation whose body sends on a channel, directly or through another
// function of the file: calling one is a blocking operation as well
var clBlockingFuncs = map[string]bool{}

func clMentionsForeign(e ast.Expr) bool {
	id, ok := e.(*ast.Ident)
	return ok && clForeignParams[id.Name]
}

var clGuardedMaps = map[string]bool{"requestHeaders": true, "responseHeaders": true, "ephemeralProperties": true, "channels": true}

func clSelector(e ast.Expr) (recv, field string, ok bool) {
	s, ok := e.(*ast.SelectorExpr)
	if !ok {
		return "", "", false
	}
	id, ok := s.X.(*ast.Ident)
	if !ok {
		return "", "", false
	}
	return id.Name, s.Sel.Name, true
}

// events of an expression, in evaluation order (approximate: source order)
func clExprEvents(recv string, locked map[string]bool, e ast.Node, write bool, out *[]clEvent) {
	ast.Inspect(e, func(n ast.Node) bool {
		switch x := n.(type) {
		case *ast.FuncLit:
			return false
		case *ast.IndexExpr:
			if r, f, ok := clSelector(x.X); ok && r == recv && clGuardedMaps[f] {
				if write {
					*out = append(*out, "CWrite")
				} else {
					*out = append(*out, "CRead")
				}
			}
		case *ast.SendStmt:
			// a channel send may block for as long as the receiver pleases
			*out = append(*out, "FForeign")
		case *ast.CallExpr:
			// a method of a caller-supplied value, or a function handed one: the caller's code runs
			if sel, ok := x.Fun.(*ast.SelectorExpr); ok && clMentionsForeign(sel.X) {
				*out = append(*out, "FForeign")
			} else if id, ok := x.Fun.(*ast.Ident); ok && clBlockingFuncs[id.Name] {
				*out = append(*out, "FForeign")
			} else if sel, ok := x.Fun.(*ast.SelectorExpr); ok && clBlockingFuncs[sel.Sel.Name] && !locked[sel.Sel.Name] {
				if id, ok := sel.X.(*ast.Ident); ok && id.Name == recv {
					*out = append(*out, "FForeign")
				}
			} else if id, ok := x.Fun.(*ast.Ident); !ok || (id.Name != "len" && id.Name != "cap" && id.Name != "delete" && id.Name != "make") {
				for _, a := range x.Args {
					if clMentionsForeign(a) {
						*out = append(*out, "FForeign")
						break
					}
				}
			}
			if id, ok := x.Fun.(*ast.Ident); ok && (id.Name == "len" || id.Name == "delete") && len(x.Args) > 0 {
				if r, f, ok := clSelector(x.Args[0]); ok && r == recv && clGuardedMaps[f] {
					if id.Name == "delete" {
						*out = append(*out, "CWrite")
					} else {
						*out = append(*out, "CRead")
					}
				}
			}
			if s, ok := x.Fun.(*ast.SelectorExpr); ok {
				// recv.mu.Lock() etc.
				if inner, ok := s.X.(*ast.SelectorExpr); ok {
					if id, ok := inner.X.(*ast.Ident); ok && id.Name == recv && inner.Sel.Name == "mu" {
						switch s.Sel.Name {
						case "Lock":
							*out = append(*out, "CLock")
						case "RLock":
							*out = append(*out, "CRLock")
						case "Unlock":
							*out = append(*out, "CUnlock")
						case "RUnlock":
							*out = append(*out, "CRUnlock")
						}
						return false
					}
				}
				// recv.Method(...) of a method that takes the lock itself
				if id, ok := s.X.(*ast.Ident); ok && id.Name == recv && locked[s.Sel.Name] {
					for _, a := range x.Args {
						clExprEvents(recv, locked, a, false, out)
					}
					*out = append(*out, "CCallLocking")
					return false
				}
			}
		}
		return true
	})
}

// paths of a statement list: each path is the event list up to a return (done=true) or the end
type clPath struct {
	evs  []clEvent
	done bool
}

func clStmts(recv string, locked map[string]bool, stmts []ast.Stmt, in []clPath) []clPath {
	cur := in
	for _, st := range stmts {
		var next []clPath
		for _, p := range cur {
			if p.done {
				next = append(next, p)
				continue
			}
			next = append(next, clStmt(recv, locked, st, p)...)
		}
		cur = next
		if len(cur) > 256 {
			cur = cur[:256]
		}
	}
	return cur
}

func clone(p clPath) clPath { return clPath{evs: append([]clEvent(nil), p.evs...), done: p.done} }

func clStmt(recv string, locked map[string]bool, st ast.Stmt, p clPath) []clPath {
	switch x := st.(type) {
	case *ast.ReturnStmt:
		q := clone(p)
		for _, r := range x.Results {
			clExprEvents(recv, locked, r, false, &q.evs)
		}
		q.done = true
		return []clPath{q}
	case *ast.DeferStmt:
		q := clone(p)
		var evs []clEvent
		clExprEvents(recv, locked, x.Call, false, &evs)
		for _, e := range evs {
			switch e {
			case "CUnlock":
				q.evs = append(q.evs, "CDeferUnlock")
			case "CRUnlock":
				q.evs = append(q.evs, "CDeferRUnlock")
			default:
				q.evs = append(q.evs, e)
			}
		}
		return []clPath{q}
	case *ast.AssignStmt:
		q := clone(p)
		for _, r := range x.Rhs {
			clExprEvents(recv, locked, r, false, &q.evs)
		}
		for _, l := range x.Lhs {
			clExprEvents(recv, locked, l, true, &q.evs)
		}
		return []clPath{q}
	case *ast.IfStmt:
		q := clone(p)
		if x.Init != nil {
			qs := clStmt(recv, locked, x.Init, q)
			q = qs[0]
		}
		clExprEvents(recv, locked, x.Cond, false, &q.evs)
		thenP := clStmts(recv, locked, x.Body.List, []clPath{clone(q)})
		var elseP []clPath
		switch e := x.Else.(type) {
		case *ast.BlockStmt:
			elseP = clStmts(recv, locked, e.List, []clPath{clone(q)})
		case *ast.IfStmt:
			elseP = clStmt(recv, locked, e, clone(q))
		default:
			elseP = []clPath{clone(q)}
		}
		return append(thenP, elseP...)
	case *ast.RangeStmt:
		q := clone(p)
		clExprEvents(recv, locked, x.X, false, &q.evs)
		if r, f, ok := clSelector(x.X); ok && r == recv && clGuardedMaps[f] {
			q.evs = append(q.evs, "CRead")
		}
		// body once, or not at all
		body := clStmts(recv, locked, x.Body.List, []clPath{clone(q)})
		for i := range body {
			body[i].done = false || body[i].done
		}
		return append(body, q)
	case *ast.ForStmt:
		q := clone(p)
		if x.Cond != nil {
			clExprEvents(recv, locked, x.Cond, false, &q.evs)
		}
		body := clStmts(recv, locked, x.Body.List, []clPath{clone(q)})
		return append(body, q)
	case *ast.BlockStmt:
		return clStmts(recv, locked, x.List, []clPath{p})
	case *ast.SelectStmt, *ast.SwitchStmt, *ast.TypeSwitchStmt:
		// each clause is an alternative
		var clauses []ast.Stmt
		switch y := x.(type) {
		case *ast.SelectStmt:
			clauses = y.Body.List
		case *ast.SwitchStmt:
			clauses = y.Body.List
		case *ast.TypeSwitchStmt:
			clauses = y.Body.List
		}
		var out []clPath
		for _, c := range clauses {
			var body []ast.Stmt
			switch cc := c.(type) {
			case *ast.CommClause:
				body = cc.Body
				if cc.Comm != nil {
					body = append([]ast.Stmt{cc.Comm}, cc.Body...)
				}
			case *ast.CaseClause:
				body = cc.Body
			}
			out = append(out, clStmts(recv, locked, body, []clPath{clone(p)})...)
		}
		if len(out) == 0 {
			out = []clPath{p}
		}
		return out
	default:
		q := clone(p)
		clExprEvents(recv, locked, st, false, &q.evs)
		return []clPath{q}
	}
}

func clFile(repo, rel, typ string) ([]clMethod, error) {
	fset := token.NewFileSet()
	f, err := parser.ParseFile(fset, filepath.Join(repo, rel), nil, 0)
	if err != nil {
		return nil, err
	}
	type decl struct {
		fd   *ast.FuncDecl
		recv string
	}
	var decls []decl
	for _, d := range f.Decls {
		fd, ok := d.(*ast.FuncDecl)
		if !ok || fd.Recv == nil || len(fd.Recv.List) != 1 || fd.Body == nil {
			continue
		}
		star, ok := fd.Recv.List[0].Type.(*ast.StarExpr)
		if !ok {
			continue
		}
		id, ok := star.X.(*ast.Ident)
		if !ok || id.Name != typ || len(fd.Recv.List[0].Names) != 1 {
			continue
		}
		decls = append(decls, decl{fd, fd.Recv.List[0].Names[0].Name})
	}
	// functions and methods that send on a channel, directly or through one another
	clBlockingFuncs = map[string]bool{}
	bodies := map[string]*ast.BlockStmt{}
	for _, d := range f.Decls {
		if fd, ok := d.(*ast.FuncDecl); ok && fd.Body != nil {
			bodies[fd.Name.Name] = fd.Body
		}
	}
	for changed := true; changed; {
		changed = false
		for name, body := range bodies {
			if clBlockingFuncs[name] {
				continue
			}
			ast.Inspect(body, func(n ast.Node) bool {
				switch x := n.(type) {
				case *ast.FuncLit:
					return false
				case *ast.SendStmt:
					clBlockingFuncs[name] = true
				case *ast.CallExpr:
					if id, ok := x.Fun.(*ast.Ident); ok && clBlockingFuncs[id.Name] {
						clBlockingFuncs[name] = true
					}
					if sel, ok := x.Fun.(*ast.SelectorExpr); ok && clBlockingFuncs[sel.Sel.Name] {
						if _, isBody := bodies[sel.Sel.Name]; isBody {
							clBlockingFuncs[name] = true
						}
					}
				}
				return true
			})
			if clBlockingFuncs[name] {
				changed = true
			}
		}
	}
	// methods that take the lock themselves
	locked := map[string]bool{}
	for _, d := range decls {
		var evs []clEvent
		clExprEvents(d.recv, map[string]bool{}, d.fd.Body, false, &evs)
		for _, e := range evs {
			if e == "CLock" || e == "CRLock" {
				locked[d.fd.Name.Name] = true
			}
		}
	}
	var out []clMethod
	for _, d := range decls {
		clForeignParams = map[string]bool{}
		for _, fl := range d.fd.Type.Params.List {
			basic := false
			switch t := fl.Type.(type) {
			case *ast.ArrayType:
				basic = true
			case *ast.Ident:
				switch t.Name {
				case "string", "bool", "int", "int32", "int64", "uint", "uint32", "uint64", "byte", "error", "float64":
					basic = true
				}
			}
			if !basic {
				for _, n := range fl.Names {
					clForeignParams[n.Name] = true
				}
			}
		}
		paths := clStmts(d.recv, locked, d.fd.Body.List, []clPath{{}})
		clForeignParams = map[string]bool{}
		m := clMethod{name: typ + "." + d.fd.Name.Name}
		seen := map[string]bool{}
		fseen := map[string]bool{}
		for _, p := range paths {
			var evs, fevs []clEvent
			for _, e := range p.evs {
				switch e {
				case "FForeign":
					fevs = append(fevs, e)
				case "CLock", "CRLock":
					evs, fevs = append(evs, e), append(fevs, "FLock")
				case "CUnlock", "CRUnlock":
					evs, fevs = append(evs, e), append(fevs, "FUnlock")
				case "CDeferUnlock", "CDeferRUnlock":
					evs, fevs = append(evs, e), append(fevs, "FDeferUnlock")
				default:
					evs = append(evs, e)
				}
			}
			if k := fmt.Sprint(evs); !seen[k] {
				seen[k] = true
				m.paths = append(m.paths, evs)
			}
			if k := fmt.Sprint(fevs); !fseen[k] {
				fseen[k] = true
				m.fpaths = append(m.fpaths, fevs)
			}
		}
		out = append(out, m)
	}
	sort.Slice(out, func(i, j int) bool { return out[i].name < out[j].name })
	return out, nil
}

func emitCtxLockSites(repo, out string) error {
	var b bytes.Buffer
	b.WriteString("(** Generated by translator/ctxlocks.go from lib/go/context.go (FContextImpl) and lib/go/registry.go\n")
	b.WriteString("    (fRegistryImpl): per method, every control-flow path as the sequence of lock operations and accesses\n")
	b.WriteString("    to the mutex-guarded maps. Do not edit. *)\n")
	b.WriteString("From Coq Require Import List String.\nImport ListNotations.\nOpen Scope string_scope.\n\n")
	b.WriteString("Inductive clev := CLock | CRLock | CUnlock | CRUnlock | CDeferUnlock | CDeferRUnlock\n")
	b.WriteString("               | CRead | CWrite      (* access to a map guarded by the receiver's mutex *)\n")
	b.WriteString("               | CCallLocking.       (* call of a method of the same receiver that takes the lock itself *)\n\n")
	b.WriteString("Record clmethod := mkclm { cl_name : string; cl_paths : list (list clev) }.\n\n")
	b.WriteString("(** the same paths seen as lock operations (read or write lock alike) and the operations during which code of the\n")
	b.WriteString("    caller runs or the goroutine may block for as long as someone else pleases: a method of a parameter of\n")
	b.WriteString("    interface / channel / function type, a function handed such a parameter, a channel send *)\n")
	b.WriteString("Inductive fev := FLock | FUnlock | FDeferUnlock | FForeign.\n\n")
	total := 0
	for _, src := range []struct{ rel, typ, def string }{
		{"lib/go/context.go", "FContextImpl", "context_methods"},
		{"lib/go/registry.go", "fRegistryImpl", "registry_methods"},
	} {
		ms, err := clFile(repo, src.rel, src.typ)
		if err != nil {
			return err
		}
		fmt.Fprintf(&b, "Definition %s : list clmethod := [\n", src.def)
		for i, m := range ms {
			var ps []string
			for _, p := range m.paths {
				var es []string
				for _, e := range p {
					es = append(es, string(e))
				}
				ps = append(ps, "["+strings.Join(es, "; ")+"]")
			}
			sep := ";"
			if i == len(ms)-1 {
				sep = ""
			}
			fmt.Fprintf(&b, "  mkclm %q [%s]%s\n", m.name, strings.Join(ps, "; "), sep)
			total += len(m.paths)
		}
		b.WriteString("].\n\n")
		fmt.Fprintf(&b, "Definition %s_foreign : list (string * list (list fev)) := [\n", strings.TrimSuffix(src.def, "_methods"))
		for i, m := range ms {
			var ps []string
			for _, p := range m.fpaths {
				var es []string
				for _, e := range p {
					es = append(es, string(e))
				}
				ps = append(ps, "["+strings.Join(es, "; ")+"]")
			}
			sep := ";"
			if i == len(ms)-1 {
				sep = ""
			}
			fmt.Fprintf(&b, "  (%q, [%s])%s\n", m.name, strings.Join(ps, "; "), sep)
		}
		b.WriteString("].\n\n")
	}
	fmt.Fprintf(&b, "Definition ctxlock_paths_total : nat := %d.\n", total)
	return msWriteIfChanged(filepath.Join(out, "CtxLockSites.v"), b.Bytes())
}
