module veriftranslator

go 1.20
