// translator: regenerates coq/theories/Gen/*.v from the repository under test.
// Minimal driver: every pass registers itself in `passes` from an init() function.
package main

import (
	"flag"
	"fmt"
	"os"
)

var passes []func(repo, out string) error

func main() {
	repo := flag.String("repo", "/repo", "repository under test")
	out := flag.String("out", "", "output directory (coq/theories/Gen)")
	flag.Parse()
	if *out == "" {
		fmt.Fprintln(os.Stderr, "translator: -out required")
		os.Exit(2)
	}
	rc := 0
	for _, p := range passes {
		if err := p(*repo, *out); err != nil {
			fmt.Fprintln(os.Stderr, "translator:", err)
			rc = 1
		}
	}
	os.Exit(rc)
}
