// translator: re-emits pieces of the repository under test as Coq data (coq/theories/Gen/*.v).
// Usage: translator -repo <path to Workiva/frugal tree> -out <dir>
// Two registries, both filled from init() functions of the pass files:
//   emitters: output file name -> function producing its content (written only when it changes)
//   passes:   functions that write their own files (only when content changes)
// so unchanged sources never trigger a Coq rebuild.
package main

import (
	"bytes"
	"flag"
	"fmt"
	"os"
	"path/filepath"
	"sort"
)

// emitters maps an output file name (e.g. "Grammar.v") to a function producing its content.
var emitters = map[string]func(repo string) ([]byte, error){}

// passes are run after the emitters.
var passes []func(repo, out string) error

func main() {
	repo := flag.String("repo", "/repo", "repository under test")
	out := flag.String("out", "", "output directory (coq/theories/Gen)")
	flag.Parse()
	if *out == "" {
		fmt.Fprintln(os.Stderr, "translator: -out required")
		os.Exit(2)
	}
	if err := os.MkdirAll(*out, 0o755); err != nil {
		fmt.Fprintln(os.Stderr, "translator:", err)
		os.Exit(2)
	}
	names := make([]string, 0, len(emitters))
	for n := range emitters {
		names = append(names, n)
	}
	sort.Strings(names)
	rc := 0
	for _, n := range names {
		content, err := emitters[n](*repo)
		if err != nil {
			fmt.Fprintf(os.Stderr, "translator: %s: %v\n", n, err)
			rc = 1
			continue
		}
		p := filepath.Join(*out, n)
		old, rerr := os.ReadFile(p)
		if rerr == nil && bytes.Equal(old, content) {
			fmt.Printf("translator: %s unchanged\n", n)
			continue
		}
		tmp := p + ".tmp"
		if err := os.WriteFile(tmp, content, 0o644); err != nil {
			fmt.Fprintln(os.Stderr, "translator:", err)
			rc = 1
			continue
		}
		if err := os.Rename(tmp, p); err != nil {
			fmt.Fprintln(os.Stderr, "translator:", err)
			rc = 1
			continue
		}
		fmt.Printf("translator: %s rewritten (%d bytes)\n", n, len(content))
	}
	for _, p := range passes {
		if err := p(*repo, *out); err != nil {
			fmt.Fprintln(os.Stderr, "translator:", err)
			rc = 1
		}
	}
	os.Exit(rc)
}
