#!/bin/bash
# usage: seedtest.sh <seed-dir-name under /tmp/seed> <PROPERTY> <demo-target-dir-relative-to-repo> <go test -run pattern> [extra go test flags]
# Confirms a seeded change in its scratch worktree (builds, existing tests pass, demo passes without / fails with the
# change), then runs the /verif check for the property against /repo with the patch applied, and undoes it.
# Prints a summary line "SEED <name> <PROPERTY> demo_clean=<PASS|FAIL> tests=<ok|FAIL> demo_patched=<FAIL|PASS> check=<VIOLATION|MISSED>".
set -u
id=$1; PID=$2; ddir=$3; pat=$4; xflags=${5:-}
export GOFLAGS=-mod=mod GOPROXY=off GOSUMDB=off GOTOOLCHAIN=local GOCACHE=/verif/.cache/gocache
wt=/tmp/seed/$id/repo; out=/tmp/seed/$id/out
cd $wt && git checkout -q -- . && git clean -qfd
git merge -q --ff-only main 2>/dev/null
cp $out/demo/*_test.go $wt/$ddir/ 2>/dev/null
r1=$(cd $wt/$ddir && timeout 900 go test $xflags -count=1 -run "$pat" . 2>&1 | tail -3)
echo "$r1" | grep -q "^ok" && dc=PASS || dc=FAIL
rm -f $wt/$ddir/zz_*_test.go $wt/$ddir/*demo*_test.go
git apply $out/patch.diff || { echo "SEED $id $PID PATCH-DOES-NOT-APPLY"; exit 1; }
b=$( (cd $wt && go build ./... && cd lib/go && go build ./... && go build -tags verif ./...) 2>&1 | tail -3)
t1=$(cd $wt && timeout 1200 go test -count=1 ./... 2>&1 | grep -v "no test files" | grep -v "^ok" | tail -3)
t2=$(cd $wt/lib/go && timeout 1200 go test -count=1 ./... 2>&1 | grep -v "^ok" | tail -3)
[ -z "$b$t1$t2" ] && ts=ok || ts="FAIL($b $t1 $t2)"
cp $out/demo/*_test.go $wt/$ddir/
r2=$(cd $wt/$ddir && timeout 900 go test $xflags -count=1 -run "$pat" . 2>&1 | tail -4)
echo "$r2" | grep -q "^ok" && dp=PASS || dp=FAIL
cd $wt && git checkout -q -- . && git clean -qfd
git -C /repo apply $out/patch.diff
c=$(cd /verif && timeout 2400 python3 tools/check.py $PID 2>&1 | grep -v "^KNOWN" | tail -3)
git -C /repo checkout -q -- .
echo "$c" | grep -q "VIOLATION" && ck=VIOLATION || ck=MISSED
echo "$c" | grep "VIOLATION" | grep -vq "no-failing-input-found" && kind=concrete || kind=nfi
first=$(ls /verif/replays/$PID-*.json 2>/dev/null | head -1)
what=""
[ -n "$first" ] && what=$(python3 -c "import json,sys;print(json.load(open('$first'))['what'][:200])")
echo "SEED $id $PID demo_clean=$dc tests=$ts demo_patched=$dp check=$ck($kind) :: $what"
echo "$r2" | grep -v "^FAIL\|^ok" | head -2
