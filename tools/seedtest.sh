#!/bin/bash
# usage: seedtest.sh <cXX> <demo-target-dir-relative-to-repo> <go test -run pattern>
# confirms a seeded change in its scratch worktree (builds, existing tests pass, demo fails with / passes without),
# then runs the /verif check for the property against /repo with the patch applied, and undoes it.
set -u
id=$1; ddir=$2; pat=$3; xflags=${4:-}
export GOFLAGS=-mod=mod GOPROXY=off GOSUMDB=off GOTOOLCHAIN=local GOCACHE=/verif/.cache/gocache
wt=/tmp/seed/$id/repo; out=/tmp/seed/$id/out
PID=$(echo $id | tr a-z A-Z)
cd $wt && git checkout -q -- . && git clean -qfd
echo "== demo on unchanged code (expect PASS)"
cp $out/demo/*_test.go $wt/$ddir/ 2>/dev/null
(cd $wt/$ddir && timeout 600 go test $xflags -count=1 -run "$pat" . 2>&1 | tail -3)
git apply $out/patch.diff || { echo "PATCH DOES NOT APPLY"; exit 1; }
echo "== build + existing tests with the change (expect ok)"
(cd $wt && go build ./... && cd lib/go && go build ./... && go build -tags verif ./...) 2>&1 | tail -3
rm -f $wt/$ddir/zz_demo*_test.go
(cd $wt && timeout 900 go test -count=1 ./... 2>&1 | grep -v "no test files" | tail -4)
(cd $wt/lib/go && timeout 900 go test -count=1 ./... 2>&1 | tail -2)
echo "== demo with the change (expect FAIL)"
cp $out/demo/*_test.go $wt/$ddir/
(cd $wt/$ddir && timeout 600 go test $xflags -count=1 -run "$pat" . 2>&1 | tail -4)
cd $wt && git checkout -q -- . && git clean -qfd
echo "== /verif check $PID against /repo with the patch (expect VIOLATION)"
git -C /repo apply $out/patch.diff && (cd /verif && timeout 1500 python3 tools/check.py $PID 2>&1 | grep -v "^KNOWN" | tail -4 | cut -c1-300)
git -C /repo checkout -q -- . && git -C /repo status --short | head -3
