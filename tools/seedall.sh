#!/bin/bash
# usage: seedall.sh [seed-dir-pattern]   -- regression over the kept seeded changes, in private worktrees of /verif and /repo
# (so that the main trees stay usable meanwhile). Prints one line per seed: "<seed> <PROPERTY> VIOLATION(concrete|nfi)|MISSED".
set -u
pat=${1:-C}
W=${SEEDALL_W:-/tmp/sr}
export GOFLAGS=-mod=mod GOPROXY=off GOSUMDB=off GOTOOLCHAIN=local
rm -rf $W; mkdir -p $W
git -C /verif worktree prune; git -C /repo worktree prune
git -C /verif worktree add -q --detach $W/verif HEAD || exit 1
git -C /repo worktree add -q --detach $W/repo HEAD || exit 1
export VERIF_REPO=$W/repo VERIF_GOCACHE=/verif/.cache/gocache VERIF_JOBS=${VERIF_JOBS:-6}
cd $W/verif && python3 tools/setup.py >/dev/null 2>&1
for d in /verif/seeded/${pat}*-seed*; do
  s=$(basename $d); P=${s%%-*}
  git -C $W/repo checkout -q -- . ; git -C $W/repo clean -qfd
  if ! git -C $W/repo apply $d/patch.diff 2>/dev/null; then echo "$s $P PATCH-DOES-NOT-APPLY"; continue; fi
  # the property whose check is expected to catch the change (meta.json "check_with", default: the seed's own property)
  Q=$(python3 -c "import json;print(json.load(open('$d/meta.json')).get('check_with','$P'))" 2>/dev/null || echo $P)
  c=$(cd $W/verif && timeout 2400 python3 tools/check.py $Q 2>&1 | grep -v "^KNOWN" | tail -40)
  git -C $W/repo checkout -q -- . ; git -C $W/repo clean -qfd
  if echo "$c" | grep -q "^VIOLATION"; then
    if echo "$c" | grep "^VIOLATION" | grep -vq "no-failing-input-found"; then echo "$s $P VIOLATION(concrete) by $Q"; else echo "$s $P VIOLATION(nfi) by $Q"; fi
  else echo "$s $P MISSED :: $(echo "$c" | tail -1)"; fi
done
git -C /verif worktree remove --force $W/verif; git -C /repo worktree remove --force $W/repo; rm -rf $W
