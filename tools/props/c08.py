"""C08 — publisher and subscriber agree on the topic, in every target language.

For seeded scopes (name, operations, prefix with 0..n variables), -delim values and runtime
variable values the REAL compiler (vh_c08 calls compiler.Compile in process) emits Go, Java,
Dart and Python (vanilla, asyncio, tornado).  The topic statements of every publish / subscribe
method are extracted from the generated sources and evaluated: Go by the harness with the real
fmt.Sprintf (and, for a sample, by compiling the generated Go code and recording the topic it
hands to FPublisherTransport.Publish / FSubscriberTransport.Subscribe), Java by the JDK (javac
+ String.format), Python by python3, Dart by the evaluator in this file (no Dart SDK offline).
Direct oracle: all those strings are equal to prefix[vars:=values] + delim + Title(scope) +
delim + op.  Judge: Model/Topic.v reproduces the emitted text and the evaluated strings.
"""
import inspect
import json
import keyword
import os
import re
import shutil

import vlib

HARNESS_BINS = ["vh_c08"]
NEEDS_FRUGAL = False          # the compiler is linked into vh_c08 (compiler.Compile)

GENS = ["go", "java", "dart", "py", "py:asyncio", "py:tornado"]
LANGCODE = {"go": 0, "java": 1, "dart": 2, "py": 3, "py:asyncio": 3, "py:tornado": 3}

# ------------------------------------------------------------------------------------------
# generators

SCOPE_NAMES = ["Events", "events", "Foo", "myScope", "my_events", "e2e", "X", "a", "ALLCAPS",
               "camelCase", "snake_case_name", "A1", "z9_x", "Album_winners"]
OP_NAMES = ["created", "EventCreated", "op_1", "x", "Deleted_x", "a9", "Winner", "contest_start", "_hidden"]
WORDS = ["foo", "bar", "v1", "a-b", "org_1", "x", "ünï", "42", "Foo", "a:b", "p+q", "~t", "日本", "k=v", "w@x", "(y)", "[z]", "a,b", "!", "<t>", "a;b", "*", ">"]
META_WORDS = ["100%", "%%", "%s", "%d", "a$b", "$user", "${id}", "it's", 'q"r', "b\\n", "{a-b}", "{a:b}", "%", "$", "\\", "a%sb", "{x!r}", "$delimiter", "$op"]
VAR_NAMES = ["user", "id2", "ab_c", "x1", "org", "Tenant", "aa", "zz9", "userId", "b0_", "region", "env"]
CLASH_NAMES = ["op", "prefix", "topic", "ctx", "req", "fctx", "self", "handler", "fmt", "delimiter", "DELIMITER",
               "created_handler", "user", "user"]
BAD_VARS = ["a", "_ab", "1a", "a_", "9", "_", "a_b", "Z"]
DELIMS = [".", ".", ".", ".", "/", "/", ":", "-", "_", "::", "|", "#", " ", "x", "", "->", "0", "é", "~", "/v1/"]
META_DELIMS = ["%", "$", "'", '"', "{", "}", "\\", "%s", "{}", "$op", "%%"]
VALUES = ["bob", "", "a.b", "x y", "100%", "%s", "{}", "{0}", "$op", "${prefix}", "it's", 'say "hi"', "back\\slash",
          "ünï©ode", "日本語", "a/b", "*", ">", "tab\there", "{user}", "%%", "0", "A_very-long.value:with/many|separators"]

RESERVED = {"op", "prefix", "topic", "ctx", "req", "fctx", "self", "handler", "fmt", "delimiter", "DELIMITER",
            "p", "l"}


def gen_case(rng, i):
    r = rng.random()
    stream = "main" if r < 0.62 else ("meta" if r < 0.82 else ("clash" if r < 0.92 else "reject"))
    scope = rng.choice(SCOPE_NAMES) if rng.random() < 0.8 else rand_ident(rng)
    nops = 1 if rng.random() < 0.6 else 2
    ops = []
    while len(ops) < nops:
        o = rng.choice(OP_NAMES) if rng.random() < 0.8 else rand_ident(rng)
        if o not in ops:
            ops.append(o)
    ntok = rng.choice([0, 0, 1, 1, 2, 2, 3, 4, 6])
    toks, names = [], []
    for _ in range(ntok):
        k = rng.random()
        if k < 0.45:
            pool = VAR_NAMES
            if stream == "clash" and rng.random() < 0.6:
                pool = CLASH_NAMES
            if stream == "reject" and rng.random() < 0.6:
                pool = BAD_VARS
            n = rng.choice(pool)
            if stream != "clash" and n in names:
                n = n + str(len(names))
            names.append(n)
            toks.append("{" + n + "}")
        else:
            pool = WORDS
            if stream == "meta" and rng.random() < 0.6:
                pool = META_WORDS
            toks.append(rng.choice(pool))
    if stream == "reject" and not any(t[1:-1] in BAD_VARS for t in toks if t.startswith("{")):
        toks.insert(rng.randrange(0, len(toks) + 1), "{" + rng.choice(BAD_VARS) + "}")
    prefix = ".".join(toks)
    delim = rng.choice(DELIMS)
    if stream == "meta" and rng.random() < 0.4:
        delim = rng.choice(META_DELIMS)
    nvars = len(re.findall(r"\{\w*\}", prefix, flags=re.A))
    vals = [rng.choice(VALUES) if rng.random() < 0.8 else rand_value(rng) for _ in range(nvars)]
    return {"n": i, "stream": stream, "scope": scope, "ops": ops, "prefix": prefix, "delim": delim, "vals": vals}


def rand_ident(rng):
    first = "abcdefghijklmnopqrstuvwxyzABCDEFGHIJKLMNOPQRSTUVWXYZ_"
    rest = first + "0123456789"
    s = rng.choice(first) + "".join(rng.choice(rest) for _ in range(rng.randrange(0, 9)))
    # leading / trailing / double underscores make the Go generator panic (C11, F11): not C08's business
    s = re.sub(r"_+", "_", s).strip("_") or "u"
    if keyword.iskeyword(s) or s in RESERVED or s in JAVA_GO_DART_KEYWORDS:
        s += "_k"
    return s


def rand_value(rng):
    alphabet = "abcXYZ019 .-_/%${}'\"\\éü日*>|:#"
    return "".join(rng.choice(alphabet) for _ in range(rng.randrange(0, 14)))


JAVA_GO_DART_KEYWORDS = {
    "break", "case", "chan", "const", "continue", "default", "defer", "else", "fallthrough", "for", "func", "go",
    "goto", "if", "import", "interface", "map", "package", "range", "return", "select", "struct", "switch", "type",
    "var", "abstract", "assert", "boolean", "byte", "catch", "char", "class", "do", "double", "enum", "extends",
    "final", "finally", "float", "implements", "instanceof", "int", "long", "native", "new", "private",
    "protected", "public", "short", "static", "strictfp", "super", "synchronized", "this", "throw", "throws",
    "transient", "try", "void", "volatile", "while", "as", "async", "await", "in", "is", "null", "true", "false",
    "with", "dynamic", "late", "required", "rethrow", "yield", "String", "Object", "Future",
}


def idl_of(case):
    ops = "".join("    %s: Event\n" % o for o in case["ops"])
    pre = (" prefix " + case["prefix"]) if case["prefix"] else ""
    return "struct Event {\n    1: i64 ID\n}\n\nscope %s%s {\n%s}\n" % (case["scope"], pre, ops)


# ------------------------------------------------------------------------------------------
# direct oracle (Python only; no model)

def go_title(s):
    out, prev = [], " "
    for ch in s:
        sep = not (prev == "_" or (prev.isascii() and prev.isalnum()) or not prev.isascii())
        out.append(ch.upper() if sep and "a" <= ch <= "z" else ch)
        prev = ch
    return "".join(out)


def spec_topic(case, op):
    it = iter(case["vals"])
    p = re.sub(r"\{\w*\}", lambda m: next(it), case["prefix"], flags=re.A)
    return (p + case["delim"] if case["prefix"] else "") + go_title(case["scope"]) + case["delim"] + op


IDENT = re.compile(r"^[A-Za-z_][A-Za-z0-9_]*$")


DART_FOLLOW = {"lang": "dart", "kind": "delimiter_continues_identifier_after_variable"}


def dart_follow_ok(case):
    """Dart emits $name for a prefix variable: a delimiter that starts with a letter, digit or '_'
    directly after a trailing variable is read as part of the name."""
    toks = case["prefix"].split(".") if case["prefix"] else []
    return not (toks and re.fullmatch(r"\{\w*\}", toks[-1], flags=re.A) and re.match(r"[A-Za-z0-9_]", case["delim"]))


def clean(case, op):
    # dart_follow_ok is no longer a side condition: the Dart generator emits ${name} where $name would swallow
    # the next character (repair of C08-dart-delim-after-variable)
    return clean_core(case, op)


def clean_core(case, op):
    """Inputs on which every language is expected to behave (a restatement of the side
    conditions of the theorems, kept independent of the Coq text)."""
    if not IDENT.match(case["scope"]) or not all(IDENT.match(o) for o in case["ops"]):
        return False
    toks = case["prefix"].split(".") if case["prefix"] else []
    names = []
    for t in toks:
        if re.fullmatch(r"\{\w*\}", t, flags=re.A):
            n = t[1:-1]
            if not re.match(r"^[A-Za-z][A-Za-z0-9]", n):
                return False
            names.append(n)
        elif re.search(r"[\"'\\$%{}\x00-\x1f\x7f]", t):
            return False
    if re.search(r"[\"'\\$%{}\x00-\x1f\x7f]", case["delim"]):
        return False
    if len(set(names)) != len(names):
        return False
    for n in names:
        if n in RESERVED or n in JAVA_GO_DART_KEYWORDS or keyword.iskeyword(n) or n.endswith("_handler") or n.startswith("on"):
            return False
    return True


# ------------------------------------------------------------------------------------------
# evaluators for the extracted statements (test equipment)

def split_top(s):
    parts, depth, cur = [], 0, ""
    for ch in s:
        if ch in "([{<":
            depth += 1
        elif ch in ")]}>":
            depth -= 1
        if ch == "," and depth == 0:
            parts.append(cur)
            cur = ""
        else:
            cur += ch
    if cur.strip():
        parts.append(cur)
    return [p.strip() for p in parts]


def eval_python(o, vals):
    sig = o["sig"].strip()
    if sig.startswith("async "):
        sig = sig[6:]
    sig = re.sub(r"^def [^(]*\(", "def f(", sig)
    body = "".join("        %s = %s\n" % (l, r) for l, r in o["stmts"])
    src = "class C(object):\n    _DELIMITER = %s\n    %s\n%s        return topic\n" % (o["const"], sig, body)
    try:
        code = compile(src, "<generated>", "exec")
    except (SyntaxError, ValueError) as e:
        return 1, "does not compile: %s" % e
    ns = {}
    try:
        exec(code, ns)
        f = ns["C"]().f
        params = list(inspect.signature(f).parameters)
        nfixed = 2 if o["side"] == "pub" else 1
        if len(params) - nfixed != len(vals):
            return 1, "parameter list %s does not take %d values" % (params, len(vals))
        args = ([None] if o["side"] == "pub" else []) + list(vals) + [None]
        v = f(*args)
    except Exception as e:  # noqa
        return 1, "raised %s: %s" % (type(e).__name__, e)
    if not isinstance(v, str):
        return 1, "not a string"
    return 0, v


def java_source(o):
    m = re.search(r"\((.*)\)\s*(throws [\w., ]+)?\s*\{\s*$", o["sig"])
    if not m:
        return None
    ps = []
    for p in split_top(m.group(1)):
        t = p.split()
        if t and t[0] == "final":
            t = t[1:]
        if len(t) < 2:
            return None
        ps.append(("String" if " ".join(t[:-1]) == "String" else "Object") + " " + t[-1])
    body = " ".join("String %s = %s;" % (l, r) for l, r in o["stmts"])
    return "public class K { private static final String DELIMITER = %s; static String f(%s) { %s return topic; } }" % (
        o["const"], ", ".join(ps), body)


def eval_java_batch(jobs):
    """jobs: list of (source or None, vals) -> list of (status, value)"""
    uniq = {}
    for src, vals in jobs:
        if src is not None:
            uniq.setdefault((src, tuple(vals)), None)
    keys = list(uniq)
    if keys:
        inp = "".join("\t".join([b"K".hex(), s.encode().hex()] + [v.encode().hex() for v in vs]) + "\n" for s, vs in keys)
        rc, out, err = vlib.sh(["java", "-Xshare:auto", os.path.join(vlib.VERIF, "tools", "c08", "C08JavaEval.java")],
                               inp=inp.encode(), timeout=1500)
        lines = [l for l in out.split("\n") if l.strip()]
        if rc != 0 or len(lines) != len(keys):
            raise RuntimeError("java evaluator failed (rc %s, %d/%d answers): %s" % (rc, len(lines), len(keys), err[-800:]))
        for k, l in zip(keys, lines):
            kind, _, h = l.partition(" ")
            txt = bytes.fromhex(h).decode("utf8", "replace")
            uniq[k] = (0, txt) if kind == "OK" else (1, txt)
    return [uniq[(s, tuple(v))] if s is not None else (1, "cannot read signature") for s, v in jobs]


class DartError(Exception):
    pass


DART_ESC = {"n": "\n", "r": "\r", "f": "\f", "b": "\b", "t": "\t", "v": "\v"}


def dart_string(lit, env):
    """Value of a Dart single-quoted, single-line string literal with interpolation."""
    if len(lit) < 2 or lit[0] != "'" or lit[-1] != "'":
        raise DartError("not a single-quoted literal")
    s, out, i = lit[1:-1], [], 0
    while i < len(s):
        c = s[i]
        if c == "'":
            raise DartError("quote ends the literal early")
        if c == "\n" or c == "\r":
            raise DartError("newline in single-line literal")
        if c == "\\":
            if i + 1 >= len(s):
                raise DartError("dangling backslash")
            e = s[i + 1]
            if e in "xu":
                raise DartError("hex escapes not evaluated")
            out.append(DART_ESC.get(e, e))
            i += 2
            continue
        if c == "$":
            m = re.match(r"\{([A-Za-z_$][A-Za-z0-9_$]*)\}", s[i + 1:])
            if m:
                name, adv = m.group(1), 1 + m.end()
            else:
                m = re.match(r"[A-Za-z_][A-Za-z0-9_]*", s[i + 1:])
                if not m:
                    raise DartError("'$' is not followed by an identifier or {identifier}")
                name, adv = m.group(0), 1 + m.end()
            if name not in env:
                raise DartError("undefined name %s" % name)
            if env[name] is None:
                raise DartError("%s is not a string here" % name)
            out.append(env[name])
            i += adv
            continue
        out.append(c)
        i += 1
    return "".join(out)


def eval_dart(o, vals):
    m = re.search(r"\((.*)\)\s*(async\s*)?\{\s*$", o["sig"])
    if not m:
        return 1, "cannot read signature"
    try:
        top = {"delimiter": dart_string(o["const"], {})}
        scope, declared, vi = {}, set(), 0
        for p in split_top(m.group(1)):
            mm = re.match(r"^(.*?)\s*([A-Za-z_$][A-Za-z0-9_$]*)\s*(\(.*\))?$", p)
            if not mm:
                raise DartError("cannot read parameter %r" % p)
            typ, name = mm.group(1).strip(), mm.group(2)
            if name in declared:
                raise DartError("duplicate parameter %s" % name)
            if name in JAVA_GO_DART_KEYWORDS:
                raise DartError("parameter %s is a reserved word" % name)
            declared.add(name)
            if typ == "String" and not mm.group(3):
                if vi >= len(vals):
                    raise DartError("more String parameters than values")
                scope[name] = vals[vi]
                vi += 1
            else:
                scope[name] = None
        if vi != len(vals):
            raise DartError("String parameters and values differ in number")
        for lhs, rhs in o["stmts"]:
            if lhs in declared:
                raise DartError("%s is already declared in this scope" % lhs)
            env = dict(top)
            env.update(scope)
            # a local is not visible in its own initializer
            v = dart_string(rhs, env)
            declared.add(lhs)
            scope[lhs] = v
        return 0, scope["topic"]
    except DartError as e:
        return 1, str(e)
    except KeyError as e:
        return 1, "missing %s" % e


# ------------------------------------------------------------------------------------------

def unhex(h):
    return bytes.fromhex(h or "").decode("utf8", "replace")


def decode_obs(o):
    return {"gen": o["gen"], "file": o["file"], "side": o["side"], "sig": unhex(o["sig"]), "const": unhex(o["const"]),
            "stmts": [(s["lhs"], unhex(s["rhs"])) for s in o["stmts"]], "status": o.get("status", 0),
            "value": unhex(o.get("value", "")), "why": o.get("why", "")}


def op_of(o):
    for lhs, rhs in o["stmts"]:
        if lhs == "op" and len(rhs) >= 2:
            return rhs[1:-1]
    return None


def run_harness(reqs, timeout=1500):
    inp = ("\n".join(json.dumps(r) for r in reqs) + "\n").encode()
    rc, out, err = vlib.sh([os.path.join(vlib.BIN, "vh_c08")], inp=inp, timeout=timeout, env=vlib.GOENV)
    lines = [l for l in out.split("\n") if l.strip()]
    if rc != 0 or len(lines) != len(reqs):
        raise RuntimeError("vh_c08 failed (rc %s, %d/%d answers): %s" % (rc, len(lines), len(reqs), err[-1500:]))
    return [json.loads(l) for l in lines]


def observe(ctx, cases):
    """Run the compiler on every case and evaluate what it emitted. Fills case['resp'], case['obs']."""
    gendir = os.path.join(ctx.rundir, "gen")
    reqs = [{"op": "gen", "id": str(c["n"]), "dir": os.path.join(gendir, "c%d" % c["n"]),
             "idl": idl_of(c).encode().hex(), "delim": c["delim"].encode().hex(), "gens": GENS,
             "vals": [v.encode().hex() for v in c["vals"]]} for c in cases]
    resps = run_harness(reqs)
    jobs = []
    for c, r in zip(cases, resps):
        if r.get("fail"):
            raise RuntimeError("vh_c08: " + r["fail"])
        c["errors"] = r.get("errors") or {}
        c["obs"] = [decode_obs(o) for o in (r.get("obs") or [])]
        for o in c["obs"]:
            base = o["gen"].split(":")[0]
            if base == "py":
                o["status"], v = eval_python(o, c["vals"])
                o["value"], o["why"] = (v, "") if o["status"] == 0 else ("", v)
            elif base == "dart":
                o["status"], v = eval_dart(o, c["vals"])
                o["value"], o["why"] = (v, "") if o["status"] == 0 else ("", v)
            elif base == "java":
                jobs.append((o, java_source(o), c["vals"]))
    res = eval_java_batch([(s, v) for _, s, v in jobs])
    for (o, _, _), (st, v) in zip(jobs, res):
        o["status"] = st
        o["value"], o["why"] = (v, "") if st == 0 else ("", v)
    shutil.rmtree(gendir, ignore_errors=True)


def run_lab(ctx, cases, batch=40):
    """Compile the generated Go code of the given cases and record the topics it really uses.
    Fills case['lab'] = {(op, side): (topic or None, error)}; returns list of (case, why) build problems."""
    problems = []
    labdir = os.path.join(vlib.VERIF, "harness", "lab", "gen", "c08-%d" % os.getpid())

    def go(group):
        progs = [{"id": str(c["n"]), "idl": idl_of(c).encode().hex(), "delim": c["delim"].encode().hex(),
                  "ops": c["ops"], "vals": [v.encode().hex() for v in c["vals"]]} for c in group]
        return run_harness([{"op": "golab", "id": "lab", "dir": labdir, "progs": progs}])[0]

    def take(group, r):
        byid = {str(c["n"]): c for c in group}
        for cid, e in (r.get("errors") or {}).items():
            problems.append((byid[cid], "Go generation failed: " + e))
        for l in r.get("lab") or []:
            byid[l["id"]].setdefault("lab", {})[(l["op"], l["side"])] = (unhex(l["topic"]) if not l.get("err") else None, l.get("err", ""))

    try:
        for i in range(0, len(cases), batch):
            group = cases[i:i + batch]
            r = go(group)
            if r.get("fail"):
                # find the program(s) whose generated code does not build
                for c in group:
                    r1 = go([c])
                    if r1.get("fail"):
                        problems.append((c, r1["fail"][-1500:]))
                    else:
                        take([c], r1)
            else:
                take(group, r)
    finally:
        shutil.rmtree(labdir, ignore_errors=True)
    return problems


def rejected(case):
    return bool(case["errors"]) and len(case["errors"]) == len(GENS) and \
        all("invalid prefix variable" in e for e in case["errors"].values())


def replay_of(case, op=None, extra=None):
    r = {"idl": idl_of(case), "delim": case["delim"], "values": case["vals"], "scope": case["scope"],
         "prefix": case["prefix"], "stream": case["stream"], "case": {k: case[k] for k in ("n", "stream", "scope", "ops", "prefix", "delim", "vals")},
         "how": "frugal -gen <lang> -delim %r on the idl; compare the topic statements of publish/subscribe" % case["delim"]}
    if op is not None:
        r["op"] = op
        r["expected_topic"] = spec_topic(case, op) if len(re.findall(r"\{\w*\}", case["prefix"], flags=re.A)) == len(case["vals"]) else None
        r["observed"] = [{"gen": o["gen"], "side": o["side"], "status": o["status"], "topic": o["value"], "why": o["why"],
                          "statements": o["stmts"], "delimiter_constant": o["const"]}
                         for o in case.get("obs", []) if op_of(o) == op]
    r["generator_errors"] = case.get("errors")
    if extra:
        r.update(extra)
    return r


def oracle(case, op):
    """The property on the observations alone. Returns None or (description, signature)."""
    obs = [o for o in case["obs"] if op_of(o) == op]
    if clean_core(case, op):
        if case["errors"]:
            return "generation failed on a well-formed scope: %s" % case["errors"], None
        want = spec_topic(case, op)
        seen = {(o["gen"], o["side"]) for o in obs}
        for g in GENS:
            for sd in ("pub", "sub"):
                if (g, sd) not in seen and not (g == "py" and sd == "sub"):
                    return "no %s %s topic statements found for op %s" % (g, sd, op), None
        late = None
        for o in obs:
            sig = None      # (was DART_FOLLOW for Dart outside dart_follow_ok: repaired, Dart emits ${name} there)
            why = None
            if o["status"] != 0:
                why = "%s %s: topic statements do not evaluate (%s); the other languages use %r" % (o["gen"], o["side"], o["why"], want)
            elif o["value"] != want:
                why = "%s %s uses topic %r, expected %r" % (o["gen"], o["side"], o["value"], want)
            if why and sig is None:
                return why, None
            if why:
                late = (why, sig)
        return late
    # outside the side conditions: publisher and subscriber of one language still agree when both evaluate
    for g in GENS:
        vs = {o["value"] for o in obs if o["gen"] == g and o["status"] == 0}
        if len(vs) > 1:
            return "%s publisher and subscriber disagree: %s" % (g, sorted(vs)), None
    return None


def judge_tokens(case, op):
    cok = 0 if rejected(case) else 1
    obs = []
    for o in case["obs"]:
        if op_of(o) != op:
            continue
        obs.append([LANGCODE[o["gen"]], 0 if o["side"] == "pub" else 1, o["const"].encode(),
                    [[l.encode(), r.encode()] for l, r in o["stmts"]], o["status"], o["value"].encode()])
    return [case["delim"].encode(), case["scope"].encode(), op.encode(), case["prefix"].encode(),
            [v.encode() for v in case["vals"]], cok, obs]


def run(ctx, br):
    quick = ctx.tier == "quick"
    n = 320 if quick else 4000
    rep = getattr(ctx, "replaying", None)
    if rep and rep.get("replay", {}).get("case"):
        cases = [dict(rep["replay"]["case"])]
    else:
        cases = [gen_case(ctx.rng, i) for i in range(n)]
    observe(ctx, cases)

    lab_cases = [c for c in cases if not c["errors"] and all(clean(c, o) for o in c["ops"])]
    lab_cases = lab_cases[:(40 if quick else 400)]
    lab_problems = run_lab(ctx, lab_cases)

    items = []          # (case, op)
    for c in cases:
        if rejected(c):
            items.append((c, c["ops"][0]))
        else:
            items += [(c, o) for o in c["ops"]]

    oracle_fail = 0
    known_shape = 0
    for c, op in items:
        if c["stream"] == "reject" and not rejected(c):
            # the parser accepted a prefix variable the grammar's identifier rule excludes
            bad = [t for t in re.findall(r"\{(\w*)\}", c["prefix"], flags=re.A) if not re.match(r"^[A-Za-z]+[A-Za-z0-9]", t)]
            if bad:
                oracle_fail += 1
                ctx.violation("C08 oracle: invalid prefix variable %r accepted" % bad, replay_of(c, op))
                continue
        if rejected(c):
            continue
        why = oracle(c, op)
        if why:
            if why[1] is None:
                oracle_fail += 1
            else:
                known_shape += 1
            ctx.violation("C08 oracle: " + why[0], replay_of(c, op), signature=why[1])

    lab_topics = 0
    for c, why in lab_problems:
        oracle_fail += 1
        ctx.violation("C08 oracle: generated Go code of a well-formed scope does not build / generate: " + why[-300:],
                      replay_of(c, c["ops"][0], {"lab_error": why}))
    for c in lab_cases:
        for (op, sd), (topic, err) in sorted(c.get("lab", {}).items()):
            lab_topics += 1
            want = spec_topic(c, op)
            ext = [o for o in c["obs"] if o["gen"] == "go" and o["side"] == sd and op_of(o) == op]
            if err or topic != want:
                oracle_fail += 1
                ctx.violation("C08 oracle: compiled Go %s of %s hands topic %r to the transport, expected %r" % (
                    "publisher" if sd == "pub" else "subscriber", op, topic if not err else err, want),
                    replay_of(c, op, {"compiled_go_topic": topic, "compiled_go_error": err}))
            elif not ext or ext[0]["status"] != 0 or ext[0]["value"] != topic:
                oracle_fail += 1
                r = replay_of(c, op, {"compiled_go_topic": topic})
                r["no_failing_input_found"] = True
                r["broken"] = "test equipment: the Go topic evaluated from the extracted statements differs from what the compiled code uses"
                ctx.violation("C08 correspondence: extraction/evaluation of the Go statements disagrees with the compiled Go code", r)

    verdicts = vlib.run_judge(ctx.rundir, "JTopic", "judge", [judge_tokens(c, op) for c, op in items])
    mism = [i for i, v in enumerate(verdicts) if v < 0]
    for i in mism:
        c, op = items[i]
        why = None if rejected(c) else oracle(c, op)
        if not why or why[1] is not None:
            r = replay_of(c, op)
            r["no_failing_input_found"] = True
            r["broken"] = "correspondence JTopic.judge (Model/Topic.v does not reproduce what the generators emit / evaluate to on this input)" + \
                (" — the observation matches the PINNED, unrepaired generators" if verdicts[i] == -2 else "")
            ctx.violation("C08 correspondence: model and implementation disagree", r)

    # the theorems' own side conditions (computed in Coq) against the Python-only specification
    bit = {"go": 1, "java": 2, "dart": 4, "py": 8, "py:asyncio": 8, "py:tornado": 8}
    covered = 0
    for (c, op), v in zip(items, verdicts):
        if v < 0 or v >= 256:
            continue
        names = re.findall(r"\{(\w*)\}", c["prefix"], flags=re.A)
        # the model knows nothing of reserved words and of Dart's on<Type> parameter
        if any(nm in JAVA_GO_DART_KEYWORDS or keyword.iskeyword(nm) or nm == "onEvent" for nm in names):
            continue
        want = spec_topic(c, op)
        for o in c["obs"]:
            if op_of(o) == op and v & bit[o["gen"]]:
                covered += 1
                if o["status"] != 0 or o["value"] != want:
                    oracle_fail += 1
                    ctx.violation("C08 oracle: %s %s inside the theorem's side conditions uses %r, expected %r" % (
                        o["gen"], o["side"], o["value"] if o["status"] == 0 else o["why"], want), replay_of(c, op))

    hist = {}
    for c in cases:
        k = "%s/vars=%d/delim=%s" % (c["stream"], min(len(c["vals"]), 3), "default" if c["delim"] == "." else "other")
        hist[k] = hist.get(k, 0) + 1
    tags = {}
    for v in verdicts:
        tags[v] = tags.get(v, 0) + 1
    nobs = sum(len(c["obs"]) for c in cases)
    distinct = len({(c["scope"], op, c["prefix"], c["delim"], tuple(c["vals"])) for (c, op), v in zip(items, verdicts)
                    if 0 <= v < 256 and (c["prefix"] or c["delim"] != "." or c["scope"][:1].islower())})
    ctx.assumptions += [
        "Dart: no SDK offline; the Dart topic statements are evaluated by the interpolation evaluator in tools/props/c08.py",
        "prefix variable names are not reserved words of a target language and do not collide with other identifiers of the generated method beyond those modelled (fixed_params)",
        "scope and operation names without '.' (dotted names never yield compilable method/class names in any language)",
        "the specification title-cases the scope name (strings.Title), as Go, Java and Dart always did",
    ]
    return {
        "evaluations": nobs,
        "distinct_nontrivial": distinct,
        "rule": "seeded scopes: name (capitalised / lower / underscore / random identifier), 1-2 operations, prefix of 0..6 tokens "
                "(static words incl. UTF-8 and punctuation, variables), -delim from 20 ordinary and 11 metacharacter values, runtime "
                "values incl. format metacharacters; streams main/meta/clash/reject; every publish and subscribe method of go, java, "
                "dart, py, py:asyncio, py:tornado; non-trivial = accepted case with a prefix, a non-default delimiter or a lower-case "
                "scope name; distinct by (scope, op, prefix, delim, values)",
        "traces_validated_against_impl": len([v for v in verdicts if v >= 0]),
        "judge_cases": len(items),
        "go_programs_compiled_and_run": len(lab_cases),
        "go_topics_captured_at_transport": lab_topics,
        "judge_mismatches": len(mism),
        "oracle_failures": oracle_fail,
        "oracle_failures_with_known_finding_signature": known_shape,
        "observations_inside_theorem_side_conditions": covered,
        "model_branch_tags": len(tags),
        "no_prediction_cases": len([v for v in verdicts if v >= 0 and (v & 128)]),
        "rejected_prefix_cases": len([v for v in verdicts if v == 256]),
        "input_histogram": hist,
        "samples": [replay_of(c, op) for c, op in items[:3]],
    }
