"""C16 — middleware intercepts every call exactly once, in the declared order.

Lab experiment (harness/lab/ext_c16, op "c16"): for seeded multi-file IDL programs (services with
extends, scopes with prefix variables) compiled by the real frugal -gen go, every generated method
and scope operation is invoked through tracing / rewriting middleware lists of length 0..4 at each
attachment point (provider, client / publisher / subscriber constructor, processor constructor,
AddMiddleware), the variadic lists being passed spelled out or as slices with spare capacity.
Direct oracle: the property restated on the observed trace (order, exactly once, nesting, every
value seen is the previous one's rewrite, the other side gets the rewritten value).  Judge:
Judge/JMiddleware.v replays each run on Model/Middleware.v and compares trace and outcome."""
import collections
import copy
import json

import lab
import lab_idl as L
import vlib

HARNESS_BINS = []
NEEDS_FRUGAL = True
EXT = "verifharness/lab/ext_c16"
KNOWN_ALIAS = {"finding": "subscriber-keeps-callers-middleware-array"}


def cj(x):
    return json.dumps(x, sort_keys=True, separators=(",", ":"))


# ------------------------------------------------------------------------------------------------
# programs

def chain_of(prog, fn, svc):
    out = [(fn, svc["name"])]
    while svc.get("extends"):
        fn, name = svc["extends"]
        svc = L.find_service(prog, fn, name)
        out.append((fn, name))
    return out


def features_of(prog):
    f = set()
    for fn in prog["order"]:
        for svc in prog["files"][fn]["services"]:
            d = len(chain_of(prog, fn, svc))
            f.add("svc")
            if d >= 2:
                f.add("extends")
            if d >= 3:
                f.add("extends2")
            for m in svc["methods"]:
                if m["oneway"]:
                    f.add("oneway")
                if m["throws"]:
                    f.add("throws")
                if m["ret"] is None and not m["oneway"]:
                    f.add("void")
                if m["args"]:
                    f.add("args")
        for sc in prog["files"][fn]["scopes"]:
            f.add("scope")
            if sc["vars"]:
                f.add("scopevars%d" % len(sc["vars"]))
    return f


def pick_programs(rng, tag, n, sizes):
    """seeded candidates; greedily keep those that add features (extends chains, scopes with variables, ...)"""
    want = {"svc", "extends", "extends2", "oneway", "throws", "void", "args", "scope", "scopevars1", "scopevars2"}
    cands = []
    for i in range(6 * n + 6):
        p = L.gen_program(rng, "%sq%d" % (tag, i), sizes[i % len(sizes)])
        cands.append((p, features_of(p)))
    chosen, have = [], set()
    while len(chosen) < n and cands:
        best = max(cands, key=lambda pf: (len((pf[1] & want) - have), len(pf[1])))
        cands.remove(best)
        chosen.append(best[0])
        have |= best[1]
    return chosen, have


def rpc_targets(prog):
    out = []
    for fn in prog["order"]:
        for svc in prog["files"][fn]["services"]:
            ch = chain_of(prog, fn, svc)
            allm = L.service_methods(prog, fn, svc["name"])
            for df, ds, m in allm:
                out.append({"kind": "rpc", "file": fn, "service": "%s.%s" % (L.go_pkg(fn), L.snake_to_camel(svc["name"])),
                            "go": L.snake_to_camel(m["name"]), "lower": m["name"][0].lower() + m["name"][1:],
                            "m": m, "level": ch.index((df, ds)), "nlevels": len(ch), "nmethods": len(allm),
                            "decl": "%s.%s" % (L.go_pkg(df), L.snake_to_camel(ds))})
    return out


def scope_targets(prog):
    out = []
    for fn in prog["order"]:
        for sc in prog["files"][fn]["scopes"]:
            for op in sc["ops"]:
                out.append({"kind": "scope", "file": fn, "scope": "%s.%s" % (L.go_pkg(fn), L.snake_to_camel(sc["name"])),
                            "sc": sc, "op": op, "nops": len(sc["ops"])})
    return out


# ------------------------------------------------------------------------------------------------
# requests

ERR_POOL = [{"k": "plain", "msg": "boom"}, {"k": "plain", "msg": "no such thing"},
            {"k": "app", "type": 6, "msg": "custom internal"}, {"k": "app", "type": 0, "msg": "why"},
            {"k": "app", "type": 7, "msg": "proto"}]


def exc_specs(rng, prog, lb_key, m, n=2):
    out = []
    for e in m["throws"]:
        t = L.resolve(prog, e["type"])
        k, d = L.lookup(prog, t[1], t[2])
        for _ in range(n):
            v = L.gen_struct_value(rng, prog, d)
            out.append({"k": "exc", "type": "%s.%s" % (L.go_pkg(t[1]), L.go_struct_name(d["name"])),
                        "value": L.struct_to_wire(prog, d, v)})
    return out


def gen_style(rng):
    r = rng.random()
    if r < 0.35:
        return {"literal": True, "spare": 0}
    if r < 0.55:
        return {"literal": False, "spare": 0}
    return {"literal": False, "spare": rng.randrange(1, 6)}


class Ids:
    def __init__(self):
        self.n = 0

    def next(self):
        self.n += 1
        return self.n


def gen_mw(rng, ids, arg_pool, res_pool, err_pool, nargs, has_ret, mode, allow_arity):
    """arg_pool[i]: wire values usable at argument position i+1; res_pool: wire values for the return value;
    mode: 'obs' | 'rw' | 'sharedprov' (no argument rewrites besides headers)"""
    m = {"id": ids.next(), "pre": [], "post": [], "inplace": rng.random() < 0.3}
    if mode == "obs" or rng.random() < 0.35:
        return m
    if rng.random() < 0.6:
        if mode != "sharedprov":
            for _ in range(rng.randrange(1, 3)):
                cand = [i for i in range(nargs) if arg_pool[i]]
                if cand:
                    i = rng.choice(cand)
                    m["pre"].append({"k": "set", "pos": i + 1, "v": rng.choice(arg_pool[i])})
        if rng.random() < 0.4:
            m["pre"].append({"k": "hdr"})
    if rng.random() < 0.6:
        if has_ret and res_pool and rng.random() < 0.6:
            m["post"].append({"k": "set", "pos": 0, "v": rng.choice(res_pool)})
        if rng.random() < 0.5:
            m["post"].append({"k": "seterr", "pos": 1 if has_ret else 0,
                              "err": rng.choice(err_pool + [None, None]) if err_pool else None})
    if not m["pre"] and not m["post"]:
        m["pre"].append({"k": "hdr"})
    return m


def add_arity_break(rng, lists):
    """exactly one arity-changing rewrite in the whole request (a second one could restore the count with a value
    of the wrong dynamic type, which Go's reflect rejects and the model does not describe)"""
    mws = [m for l in lists for m in l]
    if mws:
        m = rng.choice(mws)
        m[rng.choice(["pre", "post"])].append(rng.choice([{"k": "trunc", "pos": rng.randrange(0, 2)}, {"k": "app"}]))


def gen_list(rng, n, *a):
    return [gen_mw(rng, *a) for _ in range(n)]


def len_pick(rng):
    return rng.choice([0, 0, 1, 1, 2, 2, 3, 4])


# ------------------------------------------------------------------------------------------------
# oracle helpers (canonical JSON strings of dumps)

def apply_rws(mw, which, built, xs):
    """xs: list of dumps (position 0 may be a ctx dict).  Returns the rewritten list (the harness semantics of
    its own middleware: set / header / truncate / append nil)."""
    xs = list(xs)
    vals = built["mw%d" % mw["id"]][which]
    for r, v in zip(mw[which], vals):
        k = r["k"]
        if k in ("set", "seterr"):
            if r["pos"] < len(xs):
                xs[r["pos"]] = v
        elif k == "hdr":
            if xs and isinstance(xs[0], dict) and "cid" in xs[0]:
                c = dict(xs[0])
                c["hdr"] = sorted(set(c["hdr"]) | {"mw%d" % mw["id"]})
                xs[0] = c
        elif k == "trunc":
            if r["pos"] < len(xs):
                xs = xs[:r["pos"]]
        elif k == "app":
            xs = xs + [None]
    return xs


def has_arity(mws):
    return any(r["k"] in ("trunc", "app") for m in mws for w in ("pre", "post") for r in m[w])


def wire_err(e, lower):
    if e is None:
        return None
    if e["k"] == "plain":
        return {"k": "app", "type": 6, "msg": "Internal error processing %s: %s" % (lower, e["msg"])}
    return e


def wire_results(rs, oneway, zero, lower):
    if oneway:
        return [None]
    if len(rs) == 1:
        return [wire_err(rs[0], lower)]
    if len(rs) == 2:
        if rs[1] is None:
            return [rs[0], None]
        return [zero, wire_err(rs[1], lower)]
    return rs


class Walk:
    """walks the observed events against the expectation, collecting failures"""

    def __init__(self, events):
        self.ev = events
        self.i = 0
        self.fails = []

    def expect(self, kind, ident, vals, what):
        if self.i >= len(self.ev):
            self.fails.append("%s: missing (trace ends after %d events)" % (what, len(self.ev)))
            return False
        e = self.ev[self.i]
        self.i += 1
        got_vals = e[3] if e[0] in ("enter", "core") else e[2]
        if e[0] != kind or e[1] != ident:
            self.fails.append("%s: expected %s %s, observed %s %s" % (what, kind, ident, e[0], e[1]))
            return False
        if vals is not None and cj(got_vals) != cj(vals):
            self.fails.append("%s: %s %s saw %s, expected %s" % (what, kind, ident, cj(got_vals)[:300], cj(vals)[:300]))
            return False
        return True

    def done(self, what):
        if self.i != len(self.ev):
            self.fails.append("%s: %d extra events, first %s" % (what, len(self.ev) - self.i, cj(self.ev[self.i])[:200]))


def nesting_ok(events):
    """every exit closes the most recent open entry; returns (ok, open ids)"""
    st = []
    for e in events:
        if e[0] == "enter":
            st.append(e[1])
        elif e[0] == "exit":
            if not st or st[-1] != e[1]:
                return False, st
            st.pop()
    return True, st


def oracle_rpc(case, resp, run, call_index):
    """the property on one observed RPC"""
    q, t = case["req"], case["target"]
    built = resp["built"]
    fails = []
    ev = run["events"]
    client = q["cctor"] + q["prov"]              # composed list: constructor then provider
    server = q["pctor"] + q["padd"]
    arity = has_arity(client + server)
    ok, open_ids = nesting_ok(ev)
    if not ok:
        fails.append("entries and exits are not nested")
    enters = [e[1] for e in ev if e[0] == "enter"]
    exits = [e[1] for e in ev if e[0] == "exit"]
    for i in set(enters):
        if enters.count(i) != 1:
            fails.append("middleware %d entered %d times in one call" % (i, enters.count(i)))
    if run["panic"] is not None:
        if not arity:
            fails.append("panic without an arity-changing middleware: %s" % run["panic"][:200])
        # what happened before the panic must be a prefix of the specified order
        want = [m["id"] for m in reversed(client)] + [m["id"] for m in reversed(server)]
        if enters != want[:len(enters)]:
            fails.append("entries before the panic %s are not a prefix of the specified order %s" % (enters, want))
        return fails
    cid = "c16-%d" % call_index
    cur = [{"cid": cid, "hdr": []}] + list(built["args"])
    w = Walk(ev)
    good = True
    for m in reversed(client):
        good = good and w.expect("enter", m["id"], cur, "client side, provider outside constructor")
        cur = apply_rws(m, "pre", built, cur)
    good = good and w.expect("core", "transport", None, "request leaves the client")
    for m in reversed(server):
        good = good and w.expect("enter", m["id"], cur, "server side, AddMiddleware outside constructor")
        cur = apply_rws(m, "pre", built, cur)
    if arity and (len(cur) != 1 + len(built["args"])):
        return fails    # the judge decides the exact panic point
    good = good and w.expect("core", "handler", cur, "what the handler receives")
    res = ([built["ret"]] if resp["nret"] == 2 else []) + [built["herr"]]
    for m in server:
        good = good and w.expect("exit", m["id"], res, "server side exits")
        res = apply_rws(m, "post", built, res)
    if arity and len(res) != resp["nret"]:
        return fails
    res = wire_results(res, t["m"]["oneway"], resp["zero"], t["lower"])
    for m in client:
        good = good and w.expect("exit", m["id"], res, "client side exits")
        res = apply_rws(m, "post", built, res)
    if arity and len(res) != resp["nret"]:
        return fails
    w.done("after the outermost exit")
    fails += w.fails
    if not w.fails:
        got = ([run.get("ret")] if resp["nret"] == 2 else []) + [run.get("err")]
        if cj(got) != cj(res):
            fails.append("the caller received %s, the outermost middleware returned %s" % (cj(got)[:300], cj(res)[:300]))
    # every middleware was told the method it proxies
    for e in ev:
        if e[0] == "enter":
            side_client = e[1] in [m["id"] for m in client]
            want = t["lower"] if side_client else t["go"]
            if e[2] != want:
                fails.append("middleware %d was told method %r, expected %r" % (e[1], e[2], want))
    return fails


def expected_topic(sc, op, vars_):
    pre = sc["prefix"]
    for name, v in zip(sc["vars"], vars_):
        pre = pre.replace("{%s}" % name, v)
    title = sc["name"][:1].upper() + sc["name"][1:]
    return (pre + "." if pre else "") + title + "." + op["name"]


def oracle_scope(case, resp, run, call_index, sub_override=None):
    q, t = case["req"], case["target"]
    built = resp["built"]
    fails = []
    ev = run["events"]
    nv = len(q["vars"])
    pub = q["pctor"] + q["pprov"]
    sprov = q["pprov"] if q["shared"] else q["sprov"]
    sub = q["sctor"] + sprov
    if sub_override is not None:
        sub = sub_override
    arity = has_arity(pub + sub)
    ok, _ = nesting_ok(ev)
    if not ok:
        fails.append("entries and exits are not nested")
    enters = [e[1] for e in ev if e[0] == "enter"]
    dup = [i for i in set(enters) if enters.count(i) != 1 and not (q["shared"] and enters.count(i) == 2)]
    if dup:
        fails.append("middleware %s entered more than once in one delivery" % dup)
    if run["panic"] is not None:
        if not arity:
            fails.append("panic without an arity-changing middleware: %s" % run["panic"][:200])
        return fails
    cid = "c16-%d" % call_index
    cur = [{"cid": cid, "hdr": []}] + [v.encode().hex() for v in q["vars"]] + [built["value"]]
    w = Walk(ev)
    for m in reversed(pub):
        w.expect("enter", m["id"], cur, "publisher side, provider outside constructor")
        cur = apply_rws(m, "pre", built, cur)
    if arity and len(cur) != 2 + nv:
        return fails
    vars_now = [bytes.fromhex(x).decode("utf8", "replace") for x in cur[1:1 + nv]]
    topic = expected_topic(t["sc"], t["op"], vars_now)
    w.expect("core", "transport", None, "publish reaches the transport")
    if w.i >= 1 and w.i <= len(ev) and ev[w.i - 1][0] == "core" and ev[w.i - 1][2] != topic:
        fails.append("published on topic %r, the middleware left variables %r (expected topic %r)" % (ev[w.i - 1][2], vars_now, topic))
    delivered = vars_now == q["vars"]
    res_pub = [None]
    if delivered:
        cur = [cur[0], cur[-1]]
        for m in reversed(sub):
            w.expect("enter", m["id"], cur, "subscriber side, provider outside constructor")
            cur = apply_rws(m, "pre", built, cur)
        if arity and len(cur) != 2:
            return fails
        w.expect("core", "subhandler", cur, "what the subscriber's handler receives")
        res = [built["herr"]]
        for m in sub:
            w.expect("exit", m["id"], res, "subscriber side exits")
            res = apply_rws(m, "post", built, res)
        if arity and len(res) < 1:
            return fails
        w.expect("ret", "callback", [res[-1]], "what the subscriber callback returns")
    for m in pub:
        w.expect("exit", m["id"], res_pub, "publisher side exits")
        res_pub = apply_rws(m, "post", built, res_pub)
    if arity and len(res_pub) < 1:
        return fails
    w.done("after the outermost exit")
    fails += w.fails
    if not w.fails and cj(run.get("err")) != cj(res_pub[0]):
        fails.append("Publish returned %s, the outermost middleware returned %s" % (cj(run.get("err"))[:200], cj(res_pub[0])[:200]))
    return fails


def alias_list(q):
    """the list the subscriber reads after the poisoning constructor's append landed in its array"""
    sprov = q["pprov"] if q["shared"] else q["sprov"]
    k = min(len(q["poison"]), len(sprov))
    return q["sctor"] + q["poison"][:k] + sprov[k:]


def alias_expected(q):
    """does the Go slice semantics of the recorded request make the second constructor's append land in the
    array the subscriber kept (the known finding)?  Exact conditions of append-in-place."""
    if not q.get("poison") or q["sstyle"]["literal"]:
        return False
    sprov = q["pprov"] if q["shared"] else q["sprov"]
    spare = q["sstyle"]["spare"]
    return 0 < len(sprov) <= spare and 0 < len(q["poison"]) <= spare


# ------------------------------------------------------------------------------------------------
# judge encoding

class Intern:
    def __init__(self):
        self.m = {"null": 0}

    def val(self, d):
        if isinstance(d, dict) and "cid" in d and "hdr" in d:
            return sum(1 << int(h[2:]) for h in d["hdr"])
        k = cj(d)
        if k not in self.m:
            self.m[k] = len(self.m)
        return self.m[k]

    def vals(self, ds):
        return [self.val(d) for d in ds]


def tok_mws(mws, built, it):
    out = []
    for m in mws:
        b = built["mw%d" % m["id"]]
        sides = []
        for which in ("pre", "post"):
            rws = []
            for r, v in zip(m[which], b[which]):
                if r["k"] in ("set", "seterr"):
                    rws.append([0, r["pos"], it.val(v)])
                elif r["k"] == "trunc":
                    rws.append([1, r["pos"], 0])
                elif r["k"] == "app":
                    rws.append([2, 0, 0])
                else:
                    rws.append([3, 0, 0])
            sides.append(rws)
        out.append([m["id"], sides[0], sides[1]])
    return out


def tok_style(st):
    return [1 if st.get("literal") else 0, st.get("spare", 0)]


def tok_events(ev, it):
    out = []
    for e in ev:
        if e[0] == "enter":
            out.append([0, e[1], it.vals(e[3])])
        elif e[0] == "exit":
            out.append([1, e[1], it.vals(e[2])])
        elif e[0] == "core":
            tag = {"handler": 0, "transport": 1, "subhandler": 2}[e[1]]
            out.append([2, tag, it.vals(e[3])])
        else:
            out.append([3, 1, it.vals(e[2])])
    return out


def judge_case_rpc(case, resp, run, call_index):
    q, t = case["req"], case["target"]
    built = resp["built"]
    it = Intern()
    nret = resp["nret"]
    args = [it.val({"cid": "", "hdr": []})] + it.vals(built["args"])
    hres = ([it.val(built["ret"])] if nret == 2 else []) + [it.val(built["herr"])]
    errs = [built["herr"]]
    for m in q["pctor"] + q["padd"]:
        for r, v in zip(m["post"], built["mw%d" % m["id"]]["post"]):
            if r["k"] == "seterr":
                errs.append(v)
    werr = [[it.val(e), it.val(wire_err(e, t["lower"]))] for e in errs if e is not None]
    result = ([it.val(run.get("ret"))] if nret == 2 else []) + [it.val(run.get("err"))]
    if run["panic"] is not None:
        result = []
    return [1, 1 + len(built["args"]), nret, 1 if t["m"]["oneway"] else 0, it.val(resp["zero"]),
            tok_mws(q["prov"], built, it), tok_style(q["provstyle"]), tok_mws(q["cctor"], built, it), tok_style(q["cstyle"]),
            tok_mws(q["pctor"], built, it), tok_style(q["pstyle"]), tok_mws(q["padd"], built, it),
            tok_mws(q.get("poison", []), built, it), t["nlevels"], t["level"], werr, args, hres,
            tok_events(run["events"], it), 0 if run["panic"] is None else 1, result]


def judge_case_scope(case, resp, run, call_index):
    q = case["req"]
    built = resp["built"]
    it = Intern()
    subvars = it.vals([v.encode().hex() for v in q["vars"]])
    args = [0] + subvars + [it.val(built["value"])]
    result = [it.val(run.get("err"))] if run["panic"] is None else []
    return [2, len(q["vars"]), subvars, it.val(built["herr"]),
            tok_mws(q["pprov"], built, it), tok_mws([] if q["shared"] else q["sprov"], built, it), 1 if q["shared"] else 0,
            tok_style(q["provstyle"]), tok_mws(q["pctor"], built, it), tok_style(q["pstyle"]),
            tok_mws(q["sctor"], built, it), tok_style(q["sstyle"]), tok_mws(q.get("poison", []), built, it),
            args, tok_events(run["events"], it), 0 if run["panic"] is None else 1, result]


# ------------------------------------------------------------------------------------------------
# value pools (values the call path reproduces exactly: measured with a middleware-free call)

def probe_rpc(rng, prog, lb, targets, k):
    """fill t["arg_pool"], t["res_pool"], t["exc_pool"] with wire values that a middleware-free call through the
    generated client, the wire and the generated processor hands over unchanged; a value that arrives normalised
    (nil container -> empty, ...) is tried again in its normalised form"""
    items = []
    for t in targets:
        m = t["m"]
        t["arg_pool"] = [[] for _ in m["args"]]
        t["res_pool"] = []
        t["exc_pool"] = []
        excs = exc_specs(rng, prog, lb, m)
        for j in range(k + len(excs)):
            args = [L.to_wire(prog, a["type"], L.gen_value(rng, prog, a["type"])) for a in m["args"]]
            ret = L.to_wire(prog, m["ret"], L.gen_value(rng, prog, m["ret"])) if m["ret"] is not None else None
            herr = excs[j - k] if j >= k else None
            items.append((t, args, ret, herr))
    stats = collections.Counter()
    for rnd in (1, 2):
        resps = lb.run([base_rpc(t, args, ret, herr) for t, args, ret, herr in items])
        again = []
        for (t, args, ret, herr), r in zip(items, resps):
            if r.get("code") != 0 or not r.get("runs") or r["runs"][0]["panic"] is not None:
                stats["probe_rejected"] += 1
                continue
            run = r["runs"][0]
            hev = [e for e in run["events"] if e[0] == "core" and e[1] == "handler"]
            args2, ret2, herr2, retry = list(args), ret, None, False
            if len(hev) == 1:
                for i, (a, seen) in enumerate(zip(r["built"]["args"], hev[0][3][1:])):
                    if cj(a) == cj(seen):
                        if cj(args[i]) not in [cj(x) for x in t["arg_pool"][i]]:
                            t["arg_pool"][i].append(args[i])
                        stats["stable_arg_round%d" % rnd] += 1
                    else:
                        stats["unstable_arg_round%d" % rnd] += 1
                        args2[i], retry = seen, True
            if herr is None and t["m"]["ret"] is not None and not t["m"]["oneway"]:
                if cj(run.get("ret")) == cj(r["built"]["ret"]) and run.get("err") is None:
                    t["res_pool"].append(ret)
                    stats["stable_ret_round%d" % rnd] += 1
                else:
                    stats["unstable_ret_round%d" % rnd] += 1
                    if run.get("err") is None:
                        ret2, retry = run.get("ret"), True
            if herr is not None:
                if cj(run.get("err")) == cj(r["built"]["herr"]):
                    t["exc_pool"].append(herr)
                    stats["stable_exc_round%d" % rnd] += 1
                else:
                    stats["unstable_exc_round%d" % rnd] += 1
                    if isinstance(run.get("err"), dict) and run["err"].get("k") == "exc":
                        herr2, retry = run["err"], True
            if retry and rnd == 1:
                again.append((t, args2, ret2, herr2))
        items = again
        if not items:
            break
    return stats


def base_rpc(t, args, ret, herr):
    return {"op": "c16", "kind": "rpc", "service": t["service"], "method": t["go"], "args": args, "ret": ret, "herr": herr,
            "prov": [], "cctor": [], "pctor": [], "padd": [], "poison": [],
            "cstyle": {"literal": True, "spare": 0}, "pstyle": {"literal": True, "spare": 0},
            "provstyle": {"literal": True, "spare": 0}, "calls": 1, "proto": "binary"}


def base_scope(t, vars_, value, herr, errorable):
    return {"op": "c16", "kind": "scope", "scope": t["scope"], "opname": t["op"]["name"], "vars": vars_, "value": value,
            "herr": herr, "errorable": errorable, "pprov": [], "pctor": [], "sprov": [], "sctor": [], "shared": False,
            "poison": [], "pstyle": {"literal": True, "spare": 0}, "sstyle": {"literal": True, "spare": 0},
            "provstyle": {"literal": True, "spare": 0}, "calls": 1, "proto": "binary"}


VAR_POOL = ["u1", "bob", "x", "tenant-7", "Z", "a_b"]


def probe_scope(rng, prog, lb, targets, k):
    items = []
    for t in targets:
        t["val_pool"] = []
        for j in range(k):
            v = L.to_wire(prog, t["op"]["type"], L.gen_value(rng, prog, t["op"]["type"]))
            items.append((t, v))
    stats = collections.Counter()
    for rnd in (1, 2):
        reqs = [base_scope(t, [rng.choice(VAR_POOL) for _ in t["sc"]["vars"]], v, None, True) for t, v in items]
        again = []
        for (t, v), r in zip(items, lb.run(reqs)):
            if r.get("code") != 0 or not r.get("runs") or r["runs"][0]["panic"] is not None or "value" not in r.get("built", {}):
                stats["probe_rejected"] += 1
                continue
            hev = [e for e in r["runs"][0]["events"] if e[0] == "core" and e[1] == "subhandler"]
            if len(hev) == 1 and cj(hev[0][3][1]) == cj(r["built"]["value"]):
                t["val_pool"].append(v)
                stats["stable_value_round%d" % rnd] += 1
            else:
                stats["unstable_value_round%d" % rnd] += 1
                if len(hev) == 1 and rnd == 1:
                    again.append((t, hev[0][3][1]))
        items = again
        if not items:
            break
    return stats


# ------------------------------------------------------------------------------------------------
# case generation

def gen_rpc_case(rng, t, profile):
    m = t["m"]
    ids = Ids()
    nargs = len(m["args"])
    has_ret = m["ret"] is not None
    if any(not p for p in t["arg_pool"]) or (has_ret and not t["res_pool"]):
        return None
    args = [rng.choice(p) for p in t["arg_pool"]]
    ret = rng.choice(t["res_pool"]) if has_ret else None
    errs = t["exc_pool"] + ERR_POOL
    herr = rng.choice(errs) if rng.random() < 0.3 else None
    q = base_rpc(t, args, ret, herr)
    mode = "obs" if profile == "observe" else "rw"
    allow_arity = profile == "arity"
    ga = (ids, t["arg_pool"], t["res_pool"], errs, nargs, has_ret, mode, allow_arity)
    if profile == "empty":
        lens = [0, 0, 0, 0]
    elif profile == "single":
        lens = [0, 0, 0, 0]
        lens[rng.randrange(4)] = rng.randrange(1, 5)
    else:
        lens = [len_pick(rng) for _ in range(4)]
    q["prov"] = gen_list(rng, lens[0], *ga)
    q["cctor"] = gen_list(rng, lens[1], *ga)
    q["pctor"] = gen_list(rng, lens[2], *ga)
    q["padd"] = gen_list(rng, lens[3], *ga)
    if allow_arity:
        add_arity_break(rng, [q["prov"], q["cctor"], q["pctor"], q["padd"]])
    q["cstyle"], q["pstyle"], q["provstyle"] = gen_style(rng), gen_style(rng), gen_style(rng)
    if rng.random() < 0.25:
        q["poison"] = [{"id": 50 + i, "pre": [], "post": []} for i in range(rng.randrange(1, 4))]
    q["calls"] = 2 if rng.random() < 0.2 else 1
    q["proto"] = rng.choice(["binary", "binary", "compact"])
    return {"kind": "rpc", "target": t, "req": q, "profile": profile}


def gen_scope_case(rng, t, profile):
    sc = t["sc"]
    if not t["val_pool"]:
        return None
    ids = Ids()
    nv = len(sc["vars"])
    vars_ = [rng.choice(VAR_POOL) for _ in sc["vars"]]
    errorable = rng.random() < 0.6
    herr = rng.choice(ERR_POOL) if (errorable and rng.random() < 0.4) else None
    q = base_scope(t, vars_, rng.choice(t["val_pool"]), herr, errorable)
    q["shared"] = rng.random() < 0.3
    mode = "obs" if profile in ("observe", "subarity") else "rw"
    allow_arity = profile == "arity"
    var_wire = [v.encode().hex() for v in VAR_POOL]
    # publisher-side positions: vars then the value; rewriting a variable moves the message to another topic
    pub_pool = [(var_wire if rng.random() < 0.5 else []) for _ in range(nv)] + [t["val_pool"]]
    sub_pool = [t["val_pool"]]
    gp = (ids, pub_pool, [], ERR_POOL, nv + 1, False, mode, allow_arity)
    gs = (ids, sub_pool, [], ERR_POOL, 1, False, mode, allow_arity)
    gshared = (ids, [[]] * (nv + 1), [], ERR_POOL, nv + 1, False, "obs" if mode == "obs" else "sharedprov", False)
    if profile == "empty":
        lens = [0, 0, 0, 0]
    elif profile == "single":
        lens = [0, 0, 0, 0]
        lens[rng.randrange(4)] = rng.randrange(1, 5)
    else:
        lens = [len_pick(rng) for _ in range(4)]
    q["pprov"] = gen_list(rng, lens[0], *(gshared if q["shared"] else gp))
    q["pctor"] = gen_list(rng, lens[1], *gp)
    q["sprov"] = [] if q["shared"] else gen_list(rng, lens[2], *gs)
    q["sctor"] = gen_list(rng, lens[3], *gs)
    if allow_arity:
        add_arity_break(rng, [[] if q["shared"] else q["pprov"], q["pctor"], q["sprov"], q["sctor"]])
    if profile == "subarity":
        # the subscriber callback returns method.Invoke(...).Error(): the LAST result, whatever their number
        if not q["sctor"]:
            q["sctor"] = gen_list(rng, 1, *gs)
        q["errorable"], q["herr"] = True, rng.choice(ERR_POOL)
        rng.choice(q["sctor"])["post"].append({"k": "app"})
    q["pstyle"], q["sstyle"], q["provstyle"] = gen_style(rng), gen_style(rng), gen_style(rng)
    if rng.random() < 0.3:
        q["poison"] = [{"id": 50 + i, "pre": [], "post": []} for i in range(rng.randrange(1, 4))]
    q["calls"] = 2 if rng.random() < 0.2 else 1
    q["proto"] = rng.choice(["binary", "binary", "compact"])
    return {"kind": "scope", "target": t, "req": q, "profile": profile}


PROFILES = ["empty", "single", "observe", "mixed", "mixed", "mixed", "mixed", "arity"]


# ------------------------------------------------------------------------------------------------
# evaluation

def brief_target(t):
    if t["kind"] == "rpc":
        return {"service": t["service"], "method": t["go"], "declared_in": t["decl"], "extends_level": t["level"],
                "oneway": t["m"]["oneway"], "nargs": len(t["m"]["args"]), "returns": t["m"]["ret"] is not None}
    return {"scope": t["scope"], "op": t["op"]["name"], "prefix": t["sc"]["prefix"], "vars": t["sc"]["vars"]}


def evaluate(ctx, prog_info, cases, resps, stats, judge_cases, judge_meta, samples):
    for case, resp in zip(cases, resps):
        t, q = case["target"], case["req"]
        rep = {"program": prog_info, "target": brief_target(t), "request": q}
        stats["requests"] += 1
        if resp.get("code") != 0:
            stats["harness_errors"] += 1
            ctx.violation("C16: the lab could not run the request (%s)" % str(resp)[:300],
                          dict(rep, response=resp, no_failing_input_found=True, broken="lab extension ext_c16"))
            continue
        # wrap counts: at construction every middleware is applied once per method (own and inherited)
        if case["kind"] == "rpc":
            for name in ("prov", "cctor", "pctor", "padd"):
                for m in q[name]:
                    if resp["wraps"].get(str(m["id"]), 0) != t["nmethods"]:
                        ctx.violation("C16: middleware %d of list %s wrapped %s methods at construction, the service has %d"
                                      % (m["id"], name, resp["wraps"].get(str(m["id"]), 0), t["nmethods"]),
                                      dict(rep, wraps=resp["wraps"]), signature=None)
        else:
            sprov_ids = [m["id"] for m in (q["pprov"] if q["shared"] else q["sprov"])]
            for name, want in (("pprov", t["nops"]), ("pctor", t["nops"]), ("sctor", 1)):
                for m in q[name]:
                    w = want + (1 if (name == "pprov" and q["shared"]) else 0)
                    if resp["wraps"].get(str(m["id"]), 0) != w and not alias_expected(q):
                        ctx.violation("C16: middleware %d of list %s wrapped %s functions, expected %d"
                                      % (m["id"], name, resp["wraps"].get(str(m["id"]), 0), w), dict(rep, wraps=resp["wraps"]))
        for ci, run in enumerate(resp["runs"]):
            stats["runs"] += 1
            stats["kind_" + case["kind"]] += 1
            stats["profile_" + case["profile"]] += 1
            if run["panic"] is not None:
                stats["panics"] += 1
            fn = oracle_rpc if case["kind"] == "rpc" else oracle_scope
            fails = fn(case, resp, run, ci)
            if fails:
                stats["oracle_failures"] += 1
                sig = None
                if case["kind"] == "scope" and alias_expected(q) and \
                        not oracle_scope(case, resp, run, ci, sub_override=alias_list(q)):
                    sig = KNOWN_ALIAS       # exactly the recorded defect, nothing else
                ctx.violation("C16: %s" % fails[0], dict(rep, call=ci, failures=fails[:6], observed=run), signature=sig)
            jc = (judge_case_rpc if case["kind"] == "rpc" else judge_case_scope)(case, resp, run, ci)
            judge_cases.append(jc)
            judge_meta.append((rep, ci, run, bool(fails)))
            if len(samples) < 4 and (case["profile"] == "mixed") and len(run["events"]) > 6:
                samples.append({"target": brief_target(t), "lists": {k: [m["id"] for m in q[k]] for k in q if isinstance(q[k], list) and q[k] and isinstance(q[k][0], dict) and "id" in q[k][0]},
                                "events": [[e[0], e[1]] for e in run["events"]][:40]})


def shape_key(case):
    q = case["req"]
    names = ("prov", "cctor", "pctor", "padd") if case["kind"] == "rpc" else ("pprov", "pctor", "sprov", "sctor")
    t = case["target"]
    tgt = (t["service"], t["go"]) if case["kind"] == "rpc" else (t["scope"], t["op"]["name"])
    return (case["kind"], tgt, tuple((len(q[n]), sum(1 for m in q[n] if m["pre"] or m["post"])) for n in names),
            tuple(sorted((k, cj(q[k])) for k in q if k.endswith("style"))), bool(q.get("poison")))


def run_program(ctx, prog, lab_id, gen_opts, per_target, stats, judge_cases, judge_meta, samples, shapes, hist):
    rng = ctx.rng
    lb = lab.Lab(prog, lab_id=lab_id, gen_opts=gen_opts, extra_imports=[EXT])
    info = {"id": prog["id"], "root": prog["root"], "gen_opts": gen_opts, "idl": L.render(prog)}
    try:
        lb.build()
    except lab.LabError as e:
        ctx.violation("C16: generated program or lab extension does not build (%s)" % e.stage,
                      dict(info, stage=e.stage, log=e.log[-2500:], no_failing_input_found=True,
                           broken="lab build (frugal -gen go output + harness/lab/ext_c16)"))
        lb.remove()
        return
    try:
        rts, sts = rpc_targets(prog), scope_targets(prog)
        stats.update(probe_rpc(rng, prog, lb, rts, 4))
        stats.update(probe_scope(rng, prog, lb, sts, 4))
        cases = []
        for t in rts + sts:
            stats["targets_" + t["kind"]] += 1
            if t["kind"] == "rpc" and t["level"] > 0:
                stats["targets_inherited"] += 1
            for j in range(per_target):
                fixed = ["mixed", "observe", "mixed", "arity", "subarity" if t["kind"] == "scope" else "single"]
                profile = fixed[j] if j < len(fixed) else rng.choice(PROFILES + (["subarity"] if t["kind"] == "scope" else []))
                c = (gen_rpc_case if t["kind"] == "rpc" else gen_scope_case)(rng, t, profile)
                if c is None:
                    stats["skipped_no_stable_values"] += 1
                    continue
                cases.append(c)
                shapes.add(shape_key(c))
                q = c["req"]
                for n in ("prov", "cctor", "pctor", "padd", "pprov", "sprov", "sctor"):
                    if n in q:
                        hist["len_%s_%d" % (n, len(q[n]))] += 1
                        for m in q[n]:
                            for w in ("pre", "post"):
                                for r in m[w]:
                                    hist["rw_%s_%s" % (w, r["k"])] += 1
                for n in ("cstyle", "pstyle", "sstyle", "provstyle"):
                    if n in q:
                        hist["style_" + ("literal" if q[n]["literal"] else "spare%d" % min(q[n]["spare"], 3))] += 1
                hist["proto_" + q["proto"]] += 1
                if q.get("poison"):
                    hist["poison"] += 1
        resps = lb.run([c["req"] for c in cases])
        evaluate(ctx, info, cases, resps, stats, judge_cases, judge_meta, samples)
    finally:
        lb.remove()


TAG_BITS = {1: "pubsub", 2: "panic", 4: "append_in_place", 8: "poisoned", 16: "delivered", 32: "rewrites",
            64: "subscriber_list_changed_after_construction", 128: "inherited_method"}


def run_explain(rundir, case, name):
    """the model's own trace for one case (JMiddleware.explain), decoded; for the replay file of a rejected case"""
    import os
    import re
    d = os.path.join(rundir, name)
    os.makedirs(d, exist_ok=True)
    flat = vlib.encode_tokens([case])
    with open(os.path.join(d, "Data.v"), "w") as fh:
        fh.write("From Coq Require Import Uint63 PArray.\nOpen Scope uint63_scope.\n")
        fh.write("Definition data : array int := [| " + "; ".join(map(str, flat)) + " | 0 |].\n")
    with open(os.path.join(d, "Run.v"), "w") as fh:
        fh.write("From Coq Require Import ZArith List.\nFrom FV Require Import Judge.Wire Judge.JMiddleware.\n"
                 "Require Import Data.\nImport ListNotations.\nOpen Scope Z_scope.\nSet Printing Depth 100000000.\n"
                 "Definition M := Eval vm_compute in explain (decode data).\nPrint M.\n")
    q = "-Q %s FV -Q . \"\"" % os.path.join(vlib.COQ, "theories")
    rc, out, err = vlib.sh("coqc %s Data.v && coqc %s Run.v" % (q, q), cwd=d, timeout=600)
    m = re.search(r"M\s*=\s*(.*?)\n\s*:\s*list Z", out, re.S)
    if rc != 0 or not m:
        return {"error": (out + err)[-800:]}
    v = [int(x) for x in re.findall(r"-?\d+", m.group(1).replace("%Z", ""))]
    ev, i = [], 0
    while i < len(v) and v[i] != -7:
        n = v[i + 2]
        ev.append([["enter", "exit", "core", "ret"][v[i]], v[i + 1], v[i + 3:i + 3 + n]])
        i += 3 + n
    rest = v[i + 1:]
    return {"events": ev, "outcome": "panic" if rest[:1] == [0] else rest[1:],
            "note": "values are interned integers (0 = nil, position 0 = bit set of mw headers), see judge_case_* in tools/props/c16.py"}


def run_judge(ctx, judge_cases, judge_meta, stats):
    verdicts = vlib.run_judge(ctx.rundir, "JMiddleware", "judge", judge_cases, shard=400000) if judge_cases else []
    tags = collections.Counter()
    mism = 0
    for (rep, ci, run, oracle_failed), v, jc in zip(judge_meta, verdicts, judge_cases):
        if v < 0:
            mism += 1
            if oracle_failed:
                continue       # the oracle already reported the failing input
            mt = run_explain(ctx.rundir, jc, "explain%d" % mism) if mism <= 3 else None
            ctx.violation("C16 correspondence: Model/Middleware.v does not reproduce the observed trace",
                          dict(rep, call=ci, observed=run, model_trace=mt, no_failing_input_found=True,
                               broken="correspondence JMiddleware.judge (theorems of Props/C16.v are about this model)"))
        else:
            tags["rpc" if not v & 1 else "pubsub"] += 1
            for b, n in TAG_BITS.items():
                if v & b:
                    tags[n] += 1
    stats["judge_mismatches"] = mism
    return verdicts, tags


def run_replay(ctx, rep):
    r = rep["replay"] if "replay" in rep else rep
    prog = r["program"]
    stats, judge_cases, judge_meta, samples = collections.Counter(), [], [], []
    lb = lab.Lab({"id": prog["id"], "root": prog["root"], "files": {}, "order": []},
                 lab_id="c16replay%d" % (ctx.seed % 100000), gen_opts=prog.get("gen_opts", ""), extra_imports=[EXT])
    try:
        lb.build(idl_texts=prog["idl"])
        resp = lb.run([r["request"]])[0]
    finally:
        lb.remove()
    print(json.dumps(resp)[:4000])
    return {"evaluations": 1, "distinct_nontrivial": 1, "rule": "replay of one recorded request (response printed)",
            "traces_validated_against_impl": 0, "samples": [str(resp)[:1000]]}


def run(ctx, br):
    if getattr(ctx, "replaying", None):
        return run_replay(ctx, ctx.replaying)
    quick = ctx.tier == "quick"
    stats, hist = collections.Counter(), collections.Counter()
    judge_cases, judge_meta, samples, shapes = [], [], [], set()
    tag = "c16x%d" % (ctx.seed % 100000)
    if quick:
        nprog, sizes, per_target, opts = 3, ["small", "medium"], 8, ["", "", "async"]
    else:
        nprog, sizes, per_target, opts = 14, ["small", "medium", "large"], 40, ["", "", "async", "", "slim"]
    progs, feats = pick_programs(ctx.rng, tag, nprog, sizes)
    for i, prog in enumerate(progs):
        before = len(ctx.violations)
        run_program(ctx, prog, "%s_%d" % (tag, i), opts[i % len(opts)], per_target, stats, judge_cases, judge_meta,
                    samples, shapes, hist)
        if len(ctx.violations) - before > 40:
            break
    verdicts, tags = run_judge(ctx, judge_cases, judge_meta, stats)
    ctx.assumptions += [
        "middleware are the harness's own (trace, rewrite arguments / results / error / add a request header, keep or "
        "change the arity) applied through the public ServiceMiddleware type; arbitrary middleware are covered by "
        "c16_later_wraps_earlier only",
        "values used are those a middleware-free call through the same generated code reproduces exactly (measured per "
        "run): faithfulness of the codec is C02/C03's; the wire is the identity on such arguments, and on results it drops "
        "the value next to an error and maps undeclared errors to INTERNAL_ERROR",
        "Go's reflect.Call / type assertions on values of a wrong dynamic type are not modelled: rewrites keep the types",
    ]
    return {
        "evaluations": stats["runs"],
        "distinct_nontrivial": len(shapes),
        "rule": "distinct (kind, method or scope operation, per attachment point (list length, number of rewriting "
                "middleware), how each variadic list is passed, poisoned) among the executed cases",
        "programs": len(progs),
        "program_features": sorted(feats),
        "traces_validated_against_impl": sum(1 for v in verdicts if v >= 0),
        "judge_cases": len(judge_cases),
        "model_branch_hits": dict(tags),
        "input_histogram": dict(hist),
        "stats": dict(stats),
        "samples": samples[:4],
    }
