"""C10: generator for the PROVED round-trip fragment (theorem c10_roundtrip_structs_partial).

A *description* is the data the Coq theorem quantifies over: for every declaration the exact
blanks / line breaks at every position the grammar allows them, the separator style of every
field and enum value, the modifier spelling, the nesting of container types, the value of a
constant.  `render(desc)` mirrors `render_file` of coq/theories/Proofs/ParserRoundTripFile.v (the
judge Judge/JParserFragment.v re-renders the description inside Coq and demands byte equality, so
a divergence of this mirror is detected, not trusted); `to_tok(desc)` is the wire form the judge
decodes; `to_model(desc)` is the declared model in the form c10_gen.canon understands (the direct
oracle: what the parser must return, computed without any Coq definition).

Declaration kinds inside the fragment: typedef of a base type, enum, struct, exception, union, const
(integer or plain double-quoted string value), service.  See the comment above the theorem in Props/C10.v.
"""

BASE = [b"bool", b"byte", b"i16", b"i32", b"i64", b"double", b"string", b"binary"]
LETTERS = b"abcdefghijklmnopqrstuvwxyzABCDEFGHIJKLMNOPQRSTUVWXYZ"
DIGITS = b"0123456789"
KEYWORDS = [b"include", b"namespace", b"const", b"enum", b"typedef", b"struct", b"exception", b"union", b"service",
            b"scope", b"extends", b"throws", b"oneway", b"void", b"required", b"optional", b"map", b"set", b"list",
            b"cpp_type", b"prefix", b"true", b"false"] + BASE

KINDS_INSIDE = ["typedef of a base type", "enum", "struct", "exception", "union",
                "const with an integer value", "const with a plain double-quoted string value",
                "service (no extends) with methods: oneway or not, void or base/container return type, arguments, throws"]
STYLES_INSIDE = [
    "blanks (space, tab, CR) at every '_' position, blanks and line breaks at every '__' position, any length incl. none "
    "(at least one after required / optional / oneway / void and after a base-type keyword that stands before a name: "
    "keywords end at a word boundary)",
    "field ids: any 64-bit integer, negative included", "field modifiers: required / optional / none (default)",
    "field types: the eight base types, list<T>, set<T>, map<K,V>, nested to any depth, blanks inside the brackets",
    "field separators: ',' / ';' / none, with any blanks and line breaks around them",
    "enum values: implicit / explicit (negative included), separators ',' / ';' / none",
    "names: any identifier-shaped byte string (keyword-prefixed, underscores, dots)",
    "const values: decimal 64-bit integers; double-quoted ASCII strings without quote, backslash, line break",
    "methods: 'oneway' or not; 'void' or a base/container return type; argument and throws lists are field lists in "
    "every field style; separators ',' / ';' / none after a method; blanks and line breaks at every '__' position",
    "statement terminator: line break",
]
OUTSIDE = ["named (identifier) types", "field default values", "const values of kind double / bool / list / map / "
           "identifier, strings with escapes or single quotes", "service 'extends'", "scopes", "includes", "namespaces",
           "comments and doc comments", "annotations", "cpp_type", "';' and end-of-file statement terminators"]


class FragGen:
    def __init__(self, rng, size=1.0):
        self.rng = rng
        self.size = size
        self.features = set()

    # ---- lexical pieces ------------------------------------------------------------------------
    def blanks(self, p_empty=0.35, mx=3):
        rng = self.rng
        if rng.random() < p_empty:
            return b""
        n = 1 if rng.random() < 0.7 else rng.randrange(1, mx + 1)
        s = bytes(rng.choice(b" \t\r" if rng.random() < 0.25 else b" ") for _ in range(n))
        if b"\t" in s or b"\r" in s:
            self.features.add("gap_tab_or_cr")
        return s

    def blanks1(self):
        """non-empty blanks (where two words would otherwise fuse in the *intended* reading)"""
        b = self.blanks(p_empty=0.0)
        return b

    def wsnl(self, p_empty=0.3, mx=4):
        rng = self.rng
        if rng.random() < p_empty:
            return b""
        n = rng.randrange(1, mx + 1)
        s = bytes(rng.choice(b" \n\n\t\r" if rng.random() < 0.3 else b" \n") for _ in range(n))
        if b"\n" in s:
            self.features.add("gap_with_line_break")
        return s

    def ident(self):
        rng = self.rng
        r = rng.random()
        if r < 0.2:
            self.features.add("keyword_prefixed_name")
            name = rng.choice(KEYWORDS) + rng.choice([b"x", b"List", b"_data", b"2", b"Value", b"_", b"s", b""])
            if name in KEYWORDS:
                name += b"_"
            return name
        first = rng.choice(LETTERS + b"_" if r < 0.35 else LETTERS)
        n = rng.randrange(0, 9)
        alphabet = LETTERS + DIGITS + b"_" + (b"." if rng.random() < 0.1 else b"")
        body = bytes(rng.choice(alphabet) for _ in range(n))
        name = bytes([first]) + body
        if b"." in name:
            self.features.add("dotted_name")
        if name in KEYWORDS:
            name += b"_"
        return name

    def int64(self):
        rng = self.rng
        r = rng.random()
        if r < 0.5:
            return rng.randrange(0, 40)
        if r < 0.7:
            return -rng.randrange(1, 1000)
        if r < 0.8:
            return rng.choice([2 ** 63 - 1, -2 ** 63, 2 ** 31, -2 ** 31 - 1, 2 ** 62 + 12345, 0])
        return rng.randrange(-2 ** 63, 2 ** 63)

    # ---- types ---------------------------------------------------------------------------------
    def ty(self, depth=0):
        rng = self.rng
        r = rng.random()
        if depth >= 4 or r < 0.5 + 0.12 * depth:
            return ("base", rng.choice(BASE), self.blanks(0.5))
        if depth >= 1:
            self.features.add("type_nested")
        if depth >= 2:
            self.features.add("type_nested_depth3")
        k = rng.choice(["list", "set", "map"])
        self.features.add("type_" + k)
        if k == "map":
            return ("map", self.blanks(0.7), self.ty(depth + 1), self.blanks(0.6), self.ty(depth + 1), self.blanks(0.5))
        return (k, self.blanks(0.7), self.ty(depth + 1), self.blanks(0.5))

    def before_name(self, ty):
        """a base type written right against the following name ("i32count") is one identifier (since the
        repair of C10-F8a): a base-type keyword before a name is followed by at least one blank"""
        if ty[0] == "base" and ty[-1] == b"":
            return ty[:-1] + (self.blanks1(),)
        if ty[0] != "base" and ty[-1] == b"":
            self.features.add("name_glued_to_type_bracket")
        return ty

    def kw_gap(self):
        if self.rng.random() < 0.06:
            self.features.add("keyword_glued_to_next_token")
            return b""
        return self.blanks1()

    # ---- declarations --------------------------------------------------------------------------
    def field(self, last):
        rng = self.rng
        m = rng.choice(["default", "default", "required", "optional"])
        self.features.add("mod_" + m)
        # the modifier keyword ends at a word boundary (since the repair of C10-F8b): at least one blank follows
        mod = ("default",) if m == "default" else (m, self.blanks1())
        fid = self.int64()
        if fid < 0:
            self.features.add("negative_field_id")
        ty = self.ty()
        ty = self.before_name(ty)
        r = rng.random()
        if r < 0.3:
            w = self.wsnl(p_empty=0.0 if not last else 0.3)
            tail = ("plain", w)
            self.features.add("field_sep_none")
        else:
            sep = rng.choice(b",;")
            tail = ("sep", self.wsnl(0.7), sep, self.wsnl(0.2))
            self.features.add("field_sep_comma" if sep == 44 else "field_sep_semicolon")
        return {"id": fid, "g1": self.blanks(0.6), "g2": self.blanks(0.3), "mod": mod, "ty": ty,
                "name": self.ident(), "tail": tail}

    def struct_like(self):
        rng = self.rng
        n = rng.choice([0, 1, 1, 2, 3, 4, int(6 * self.size)])
        if n == 0:
            self.features.add("empty_field_list")
        return {"name": self.ident(), "w1": self.wsnl(0.3), "w2": self.wsnl(0.3),
                "fields": [self.field(i == n - 1) for i in range(n)], "g3": self.blanks(0.7), "w": self.wsnl(0.5)}

    def enum_value(self, last):
        rng = self.rng
        r = rng.random()
        if r < 0.25:
            self.features.add("enum_value_plain")
            tail = ("plain", self.wsnl(p_empty=0.0 if not last else 0.3))
        elif r < 0.55:
            self.features.add("enum_value_sep")
            tail = ("sep", self.blanks(0.7), rng.choice(b",;"), self.wsnl(0.3))
        elif r < 0.75:
            self.features.add("enum_value_explicit")
            tail = ("val", self.blanks(0.5), self.blanks(0.5), self.int64(), self.wsnl(p_empty=0.0 if not last else 0.3))
        else:
            self.features.add("enum_value_explicit_sep")
            tail = ("valsep", self.blanks(0.5), self.blanks(0.5), self.int64(), self.blanks(0.7), rng.choice(b",;"),
                    self.wsnl(0.3))
        return {"name": self.ident(), "tail": tail}

    def nl_led(self, p_empty=0.3):
        """a run of blanks and line breaks that is empty or begins with a line break"""
        if self.rng.random() < p_empty:
            return b""
        self.features.add("gap_with_line_break")
        return b"\n" + self.wsnl(0.5)

    def fields(self, n):
        return [self.field(i == n - 1) for i in range(n)]

    def function(self):
        rng = self.rng
        if rng.random() < 0.3:
            w = self.wsnl(0.0)        # oneway ends at a word boundary (C10-F8c repaired)
            ow = ("oneway", w)
            self.features.add("method_oneway")
        else:
            ow = ("none",)
        if rng.random() < 0.45:
            w = self.wsnl(0.0)        # void ends at a word boundary (C10-F8d repaired)
            ret = ("void", w)
            self.features.add("method_void")
        else:
            ty = self.ty()
            w = self.nl_led(0.6)
            if ty[0] == "base" and ty[-1] == b"" and w == b"":
                ty = ty[:-1] + (self.blanks1(),)
            ret = ("type", ty, w)
            self.features.add("method_returns_" + ("base" if ty[0] == "base" else "container"))
        nargs = rng.choice([0, 0, 1, 2, 3])
        self.features.add("method_args_%s" % ("none" if nargs == 0 else "some"))
        r = rng.random()
        if r < 0.3:
            tail = ("plain", self.wsnl(0.2))
            self.features.add("method_sep_none")
        elif r < 0.6:
            sep = rng.choice(b",;")
            tail = ("sep", self.wsnl(0.7), sep, self.wsnl(0.2))
            self.features.add("method_sep_comma" if sep == 44 else "method_sep_semicolon")
        else:
            nth = rng.choice([0, 1, 1, 2])
            sep = rng.choice([None, None, 44, 59])
            w3 = self.wsnl(0.2) if sep is not None else self.nl_led(0.2)
            tail = ("throws", self.wsnl(0.3), self.wsnl(0.5), self.wsnl(0.6), self.fields(nth), self.blanks(0.7), sep, w3)
            self.features.add("method_throws" if nth else "method_throws_empty")
            self.features.add("method_throws_then_" + ("none" if sep is None else "sep"))
        return {"ow": ow, "ret": ret, "name": self.ident(), "g": self.blanks(0.7), "w": self.wsnl(0.6),
                "args": self.fields(nargs), "tail": tail}

    def decl(self):
        rng = self.rng
        k = rng.choice(["typedef", "enum", "struct", "struct", "exception", "union", "const", "const", "service", "service"])
        self.features.add("kind_" + k)
        if k == "typedef":
            return ("typedef", {"g1": self.kw_gap(), "base": rng.choice(BASE), "g2": self.blanks1(), "name": self.ident(),
                                "g3": self.blanks(0.7), "w": self.wsnl(0.5)})
        if k == "enum":
            n = rng.choice([0, 1, 2, 3, 5])
            vals = [self.enum_value(i == n - 1) for i in range(n)]
            keep_in_range(vals, rng)
            return ("enum", {"g1": self.kw_gap(), "name": self.ident(), "w1": self.wsnl(0.3), "w2": self.wsnl(0.3),
                             "values": vals, "g3": self.blanks(0.7), "w": self.wsnl(0.5)})
        if k in ("struct", "exception", "union"):
            return (k, {"g1": self.kw_gap(), "sl": self.struct_like()})
        if k == "service":
            n = rng.choice([0, 1, 2, 3, int(4 * self.size)])
            if n == 0:
                self.features.add("empty_service")
            return ("service", {"g1": self.kw_gap(), "name": self.ident(), "w1": self.wsnl(0.3), "w2": self.wsnl(0.3),
                                "fns": [self.function() for _ in range(n)], "g3": self.blanks(0.7), "w": self.wsnl(0.5)})
        ty = self.before_name(self.ty())
        if rng.random() < 0.5:
            z = self.int64()
            self.features.add("const_int_negative" if z < 0 else "const_int")
            v = ("int", z)
        else:
            alphabet = bytes(c for c in range(32, 127) if c not in (34, 92))
            n = rng.randrange(0, 14)
            s = bytes(rng.choice(alphabet) for _ in range(n))
            if rng.random() < 0.1:
                s += bytes([rng.choice([9, 0, 127, 1])])
                self.features.add("const_str_control_char")
            self.features.add("const_str" if s else "const_str_empty")
            v = ("str", s)
        return ("const", {"g1": self.kw_gap(), "ty": ty, "name": self.ident(), "g2": self.blanks(0.3),
                          "g3": self.blanks(0.3), "v": v, "g4": self.blanks(0.7), "w": self.wsnl(0.5)})

    def enum_overflow(self):
        """outside the fragment: a value without a number after the largest 64-bit integer (Thrift's previous + 1
        does not exist; the Enum action must report it -- it numbered it -2^63 before the repair of C10-F22)"""
        vals = [self.enum_value(False) for _ in range(self.rng.randrange(0, 3))]
        keep_in_range(vals, self.rng)
        top = {"name": self.ident(), "tail": ("valsep", self.blanks(0.5), self.blanks(0.5), 2 ** 63 - 1, self.blanks(0.7),
                                             self.rng.choice(b",;"), self.wsnl(0.3))}
        nxt = {"name": self.ident(), "tail": ("plain", self.wsnl(0.3))}
        return {"w0": self.wsnl(0.5),
                "decls": [("enum", {"g1": self.blanks1(), "name": self.ident(), "w1": self.wsnl(0.3), "w2": self.wsnl(0.3),
                                    "values": vals + [top, nxt], "g3": self.blanks(0.7), "w": self.wsnl(0.5)})]}

    def file(self):
        rng = self.rng
        n = rng.choice([1, 1, 2, 3, 4, int(7 * self.size)])
        return {"w0": self.wsnl(0.5), "decls": [self.decl() for _ in range(n)]}


def keep_in_range(values, rng):
    """no implicit enum value may follow 2^63 - 1 (that corner is an error, see FragGen.enum_overflow)"""
    while True:
        prev, last_explicit, bad = -1, None, None
        for i, v in enumerate(values):
            tl = v["tail"]
            if tl[0] in ("val", "valsep"):
                prev, last_explicit = tl[3], i
            else:
                prev += 1
            if prev > 2 ** 63 - 1:
                bad = last_explicit
                break
        if bad is None:
            return
        tl = values[bad]["tail"]
        values[bad]["tail"] = tl[:3] + (rng.randrange(-1000, 1000),) + tl[4:]


# ---- the mirror of render_file -----------------------------------------------------------------------

def render_int(z):
    return str(z).encode()


def render_ty(t, more):
    if t[0] == "base":
        return t[1] + t[2] + more
    if t[0] == "list":
        return b"list<" + t[1] + render_ty(t[2], b">" + t[3] + more)
    if t[0] == "set":
        return b"set<" + t[1] + render_ty(t[2], b">" + t[3] + more)
    return b"map<" + t[1] + render_ty(t[2], b"," + t[3] + render_ty(t[4], b">" + t[5] + more))


def render_field(f, more):
    tl = f["tail"]
    tail = tl[1] + more if tl[0] == "plain" else tl[1] + bytes([tl[2]]) + tl[3] + more
    m = f["mod"]
    modtxt = b"" if m[0] == "default" else m[0].encode() + m[1]
    return render_int(f["id"]) + f["g1"] + b":" + f["g2"] + modtxt + render_ty(f["ty"], f["name"] + tail)


def render_sl(s, more):
    body = b"}" + s["g3"] + b"\n" + s["w"] + more
    for f in reversed(s["fields"]):
        body = render_field(f, body)
    return s["name"] + s["w1"] + b"{" + s["w2"] + body


def render_ev(v, more):
    tl = v["tail"]
    if tl[0] == "plain":
        t = tl[1]
    elif tl[0] == "sep":
        t = tl[1] + bytes([tl[2]]) + tl[3]
    elif tl[0] == "val":
        t = tl[1] + b"=" + tl[2] + render_int(tl[3]) + tl[4]
    else:
        t = tl[1] + b"=" + tl[2] + render_int(tl[3]) + tl[4] + bytes([tl[5]]) + tl[6]
    return v["name"] + t + more


def render_fields(fs, tail):
    for f in reversed(fs):
        tail = render_field(f, tail)
    return tail


def render_fn(f, more):
    tl = f["tail"]
    if tl[0] == "plain":
        t = tl[1] + more
    elif tl[0] == "sep":
        t = tl[1] + bytes([tl[2]]) + tl[3] + more
    else:
        after = (bytes([tl[6]]) if tl[6] is not None else b"") + tl[7] + more
        t = tl[1] + b"throws" + tl[2] + b"(" + tl[3] + render_fields(tl[4], b")" + tl[5] + after)
    rest = f["name"] + f["g"] + b"(" + f["w"] + render_fields(f["args"], b")" + t)
    r = f["ret"]
    rest = b"void" + r[1] + rest if r[0] == "void" else render_ty(r[1], r[2] + rest)
    return (b"oneway" + f["ow"][1] if f["ow"][0] == "oneway" else b"") + rest


def render_decl(kd, more):
    k, d = kd
    if k == "typedef":
        return b"typedef" + d["g1"] + d["base"] + d["g2"] + d["name"] + d["g3"] + b"\n" + d["w"] + more
    if k == "enum":
        body = b"}" + d["g3"] + b"\n" + d["w"] + more
        for v in reversed(d["values"]):
            body = render_ev(v, body)
        return b"enum" + d["g1"] + d["name"] + d["w1"] + b"{" + d["w2"] + body
    if k in ("struct", "exception", "union"):
        return k.encode() + d["g1"] + render_sl(d["sl"], more)
    if k == "service":
        body = b"}" + d["g3"] + b"\n" + d["w"] + more
        for f in reversed(d["fns"]):
            body = render_fn(f, body)
        return b"service" + d["g1"] + d["name"] + d["w1"] + b"{" + d["w2"] + body
    v = d["v"]
    val = render_int(v[1]) if v[0] == "int" else b'"' + v[1] + b'"'
    return b"const" + d["g1"] + render_ty(d["ty"], d["name"] + d["g2"] + b"=" + d["g3"] + val + d["g4"] + b"\n"
                                           + d["w"] + more)


def render(desc):
    out = b""
    for kd in reversed(desc["decls"]):
        out = render_decl(kd, out)
    return desc["w0"] + out


# ---- wire form for Judge/JParserFragment.v -----------------------------------------------------------

def t_z(z):
    a = abs(z)
    return [1 if z < 0 else 0, a >> 32, a & 0xffffffff]


def t_ty(t):
    if t[0] == "base":
        return [0, t[1], t[2]]
    if t[0] == "list":
        return [1, t[1], t_ty(t[2]), t[3]]
    if t[0] == "set":
        return [2, t[1], t_ty(t[2]), t[3]]
    return [3, t[1], t_ty(t[2]), t[3], t_ty(t[4]), t[5]]


def t_field(f):
    m = f["mod"]
    mod = [0] if m[0] == "default" else [1 if m[0] == "required" else 2, m[1]]
    tl = f["tail"]
    tail = [0, tl[1]] if tl[0] == "plain" else [1, tl[1], tl[2], tl[3]]
    return [t_z(f["id"]), f["g1"], f["g2"], mod, t_ty(f["ty"]), f["name"][0], f["name"][1:], tail]


def t_sl(s):
    return [s["name"][0], s["name"][1:], s["w1"], s["w2"], [t_field(f) for f in s["fields"]], s["g3"], s["w"]]


def t_ev(v):
    tl = v["tail"]
    if tl[0] == "plain":
        t = [0, tl[1]]
    elif tl[0] == "sep":
        t = [1, tl[1], tl[2], tl[3]]
    elif tl[0] == "val":
        t = [2, tl[1], tl[2], t_z(tl[3]), tl[4]]
    else:
        t = [3, tl[1], tl[2], t_z(tl[3]), tl[4], tl[5], tl[6]]
    return [v["name"][0], v["name"][1:], t]


def t_fn(f):
    ow = [0] if f["ow"][0] == "none" else [1, f["ow"][1]]
    r = f["ret"]
    ret = [0, r[1]] if r[0] == "void" else [1, t_ty(r[1]), r[2]]
    tl = f["tail"]
    if tl[0] == "plain":
        tail = [0, tl[1]]
    elif tl[0] == "sep":
        tail = [1, tl[1], tl[2], tl[3]]
    else:
        tail = [2, tl[1], tl[2], tl[3], [t_field(x) for x in tl[4]], tl[5], [] if tl[6] is None else [tl[6]], tl[7]]
    return [ow, ret, f["name"][0], f["name"][1:], f["g"], f["w"], [t_field(x) for x in f["args"]], tail]


def t_decl(kd):
    k, d = kd
    if k == "typedef":
        return [0, d["g1"], d["base"], d["g2"], d["name"][0], d["name"][1:], d["g3"], d["w"]]
    if k == "enum":
        return [1, d["g1"], d["name"][0], d["name"][1:], d["w1"], d["w2"], [t_ev(v) for v in d["values"]], d["g3"], d["w"]]
    if k in ("struct", "exception", "union"):
        return [2, {"struct": 0, "exception": 1, "union": 2}[k], d["g1"], t_sl(d["sl"])]
    if k == "service":
        return [4, d["g1"], d["name"][0], d["name"][1:], d["w1"], d["w2"], [t_fn(f) for f in d["fns"]], d["g3"], d["w"]]
    v = d["v"]
    cv = [0, t_z(v[1])] if v[0] == "int" else [1, v[1]]
    return [3, d["g1"], t_ty(d["ty"]), d["name"][0], d["name"][1:], d["g2"], d["g3"], cv, d["g4"], d["w"]]


def to_tok(desc):
    return [t_decl(kd) for kd in desc["decls"]]


# ---- the declared model, in c10_gen's form (for canon: the direct oracle) ------------------------------

def m_ty(t):
    if t[0] == "base":
        return {"name": t[1], "key": None, "val": None, "anns": []}
    if t[0] in ("list", "set"):
        return {"name": t[0].encode(), "key": None, "val": m_ty(t[2]), "anns": []}
    return {"name": b"map", "key": m_ty(t[2]), "val": m_ty(t[4]), "anns": []}


MODS = {"required": 0, "optional": 1, "default": 2}


def m_fields(fs):
    return [{"doc": None, "id": f["id"], "name": f["name"], "mod": MODS[f["mod"][0]], "type": m_ty(f["ty"]),
             "default": None, "anns": []} for f in fs]


def to_model(desc):
    decls = []
    for k, d in desc["decls"]:
        if k == "typedef":
            decls.append(("typedef", {"doc": None, "name": d["name"], "anns": [],
                                      "type": {"name": d["base"], "key": None, "val": None, "anns": []}}))
        elif k == "enum":
            vs = []
            for v in d["values"]:
                tl = v["tail"]
                vs.append({"doc": None, "name": v["name"], "anns": [],
                           "explicit": tl[3] if tl[0] in ("val", "valsep") else None})
            decls.append(("enum", {"doc": None, "name": d["name"], "values": vs, "anns": []}))
        elif k in ("struct", "exception", "union"):
            s = d["sl"]
            fs = [{"doc": None, "id": f["id"], "name": f["name"], "mod": MODS[f["mod"][0]], "type": m_ty(f["ty"]),
                   "default": None, "anns": []} for f in s["fields"]]
            decls.append((k, {"doc": None, "name": s["name"], "fields": fs, "anns": []}))
        elif k == "service":
            ms = []
            for f in d["fns"]:
                ms.append({"doc": None, "name": f["name"], "oneway": f["ow"][0] == "oneway",
                           "ret": m_ty(f["ret"][1]) if f["ret"][0] == "type" else None, "args": m_fields(f["args"]),
                           "throws": m_fields(f["tail"][4]) if f["tail"][0] == "throws" else None, "anns": []})
            decls.append(("service", {"doc": None, "name": d["name"], "extends": None, "methods": ms, "anns": []}))
        else:
            decls.append(("const", {"doc": None, "name": d["name"], "type": m_ty(d["ty"]), "value": d["v"], "anns": []}))
    return {"decls": decls}
