"""C18 helpers: a small IDL program generator / renderer and the catalogue of edits with labels.

A *project* is {file name -> file ast}; the root file is "main".  A file ast is a dict with the
keys includes, namespaces, typedefs, constants, enums, structs, exceptions, unions, services,
scopes.  Types are tuples: ("b", "i32") | ("list", t) | ("set", t) | ("map", k, v) | ("n", "Foo")
| ("n", "inc.Foo").  All randomness comes from the rng passed in."""
import copy
import re

BASE = ["bool", "byte", "i16", "i32", "i64", "double", "string", "binary"]
KINDS = ["structs", "exceptions", "unions"]
KIND_WORD = {"structs": "struct", "exceptions": "exception", "unions": "union"}


# ---------------------------------------------------------------------------------------------
# rendering

def rtype(t):
    if t is None:
        return "void"
    if t[0] in ("b", "n"):
        return t[1]
    if t[0] == "map":
        return "map<%s, %s>" % (rtype(t[1]), rtype(t[2]))
    return "%s<%s>" % (t[0], rtype(t[1]))


def rfield(f):
    s = "%d: " % f["id"]
    if f.get("mod"):
        s += f["mod"] + " "
    s += "%s %s" % (rtype(f["type"]), f["name"])
    if f.get("default") is not None:
        s += " = " + f["default"]
    return s


def render(fa):
    out = []
    for inc in fa["includes"]:
        out.append('include "%s.frugal"' % inc)
    for sc, val in fa["namespaces"]:
        out.append("namespace %s %s" % (sc, val))
    decls = []
    for name, t in fa["typedefs"]:
        decls.append("typedef %s %s" % (rtype(t), name))
    for name, t, val in fa["constants"]:
        decls.append("const %s %s = %s" % (rtype(t), name, val))
    for name, vals in fa["enums"]:
        body = ",\n".join("    %s%s" % (vn, "" if vv is None else " = %d" % vv) for vn, vv in vals)
        decls.append("enum %s {\n%s\n}" % (name, body))
    for kind in KINDS:
        for name, fields in fa[kind]:
            body = ",\n".join("    " + rfield(f) for f in fields)
            decls.append("%s %s {\n%s\n}" % (KIND_WORD[kind], name, body))
    for name, ext, methods in fa["services"]:
        ms = []
        for m in methods:
            s = "    %s%s %s(%s)" % ("oneway " if m["oneway"] else "", rtype(m["ret"]), m["name"],
                                      ", ".join(rfield(a) for a in m["args"]))
            if m["excs"] is not None:
                s += " throws (%s)" % ", ".join(rfield(e) for e in m["excs"])
            ms.append(s)
        decls.append("service %s%s {\n%s\n}" % (name, " extends " + ext if ext else "", ",\n".join(ms)))
    for name, prefix, ops in fa["scopes"]:
        body = "\n".join("    %s: %s" % (on, rtype(ot)) for on, ot in ops)
        decls.append("scope %s%s {\n%s\n}" % (name, " prefix " + prefix if prefix else "", body))
    order = fa.get("order")
    if order:
        decls = [decls[i] for i in order if i < len(decls)] + decls[len(order):]
    return "\n".join(out + decls) + "\n"


# ---------------------------------------------------------------------------------------------
# type resolution (the intended meaning: a typedef is read in the file that declares it)

def resolve(proj, fname, t, depth=0):
    """Normal form of type t written in file fname; names of types declared in a file other than
    main are qualified by that file's name."""
    assert depth < 60
    if t is None:
        return None
    if t[0] == "b":
        return t
    if t[0] in ("list", "set"):
        return (t[0], resolve(proj, fname, t[1], depth + 1))
    if t[0] == "map":
        return ("map", resolve(proj, fname, t[1], depth + 1), resolve(proj, fname, t[2], depth + 1))
    name = t[1]
    decl = fname
    local = name
    if "." in name:
        decl, local = name.split(".", 1)
    tds = dict(proj[decl]["typedefs"])  # last wins
    if local in tds:
        return resolve(proj, decl, tds[local], depth + 1)
    return ("n", local if decl == "main" else decl + "." + local)


# ---------------------------------------------------------------------------------------------
# generation

def new_file():
    return {"includes": [], "namespaces": [], "typedefs": [], "constants": [], "enums": [], "structs": [],
            "exceptions": [], "unions": [], "services": [], "scopes": []}


class Gen:
    def __init__(self, rng):
        self.rng = rng
        self.n = 0

    def fresh(self, stem):
        self.n += 1
        return "%s%d" % (stem, self.n)

    def visible(self, proj, fname):
        """names usable as field types in file fname: (type tuple) list, split by category"""
        vis = {"struct": [], "enum": [], "typedef": [], "exception": []}
        for f in [fname] + proj[fname]["includes"]:
            q = "" if f == fname else f + "."
            fa = proj[f]
            vis["struct"] += [("n", q + n) for n, _ in fa["structs"]] + [("n", q + n) for n, _ in fa["unions"]]
            vis["exception"] += [("n", q + n) for n, _ in fa["exceptions"]]
            vis["enum"] += [("n", q + n) for n, _ in fa["enums"]]
            vis["typedef"] += [("n", q + n) for n, _ in fa["typedefs"]]
        return vis

    def rtype(self, proj, fname, depth=0, typedefs=None, keyok=False):
        """a random valid type expression in file fname"""
        rng = self.rng
        vis = self.visible(proj, fname)
        tds = vis["typedef"] if typedefs is None else typedefs
        r = rng.random()
        if keyok:
            return ("b", rng.choice(["i32", "string", "i64", "i16"])) if r < 0.8 or not vis["enum"] else rng.choice(vis["enum"])
        if depth < 3 and r < 0.22:
            k = rng.random()
            if k < 0.45:
                return ("list", self.rtype(proj, fname, depth + 1, typedefs))
            if k < 0.6:
                return ("set", self.rtype(proj, fname, depth + 1, typedefs, keyok=True))
            return ("map", self.rtype(proj, fname, depth + 1, typedefs, keyok=True),
                    self.rtype(proj, fname, depth + 1, typedefs))
        if r < 0.45 and tds:
            q = [t for t in tds if "." in t[1]]
            return rng.choice(q) if q and rng.random() < 0.5 else rng.choice(tds)
        if r < 0.6 and vis["struct"]:
            return rng.choice(vis["struct"])
        if r < 0.7 and vis["enum"]:
            return rng.choice(vis["enum"])
        return ("b", rng.choice(BASE))

    def default_for(self, proj, fname, t):
        rng = self.rng
        nf = resolve(proj, fname, t)
        if nf[0] == "b":
            if nf[1] in ("i16", "i32", "i64", "byte"):
                return str(rng.randrange(-5, 100))
            if nf[1] == "string":
                return '"%s"' % rng.choice(["a", "hello", "x y", ""])
            if nf[1] == "bool":
                return rng.choice(["true", "false"])
            if nf[1] == "double":
                return rng.choice(["1.5", "2.0", "0.25"])
        if nf[0] == "list" and nf[1][0] == "b" and nf[1][1] in ("i32", "i64", "i16"):
            return "[%s]" % ", ".join(str(rng.randrange(9)) for _ in range(rng.randrange(3)))
        return None

    def fields(self, proj, fname, n, union=False, args=False):
        rng = self.rng
        ids = []
        cur = rng.choice([1, 1, 1, 2, 5])
        for _ in range(n):
            ids.append(cur)
            cur += rng.choice([1, 1, 1, 2, 3, 10])
        if n and rng.random() < 0.08:
            ids[rng.randrange(n)] = rng.choice([-1, -7, 1 << 33, 100000])
            if len(set(ids)) != len(ids):
                ids = list(range(1, n + 1))
        if rng.random() < 0.3:
            rng.shuffle(ids)
        out = []
        for i in ids:
            t = self.rtype(proj, fname)
            mod = None if union else rng.choice([None, None, "optional", "required"])
            f = {"id": i, "name": self.fresh("f"), "mod": mod, "type": t, "default": None}
            if not union and not args and rng.random() < 0.2:
                f["default"] = self.default_for(proj, fname, t)
            out.append(f)
        return out

    def library(self, proj, fname, n_td):
        """fill file fname with enums, structs and typedefs (acyclic: each typedef may use earlier ones)"""
        rng = self.rng
        fa = proj[fname]
        for _ in range(rng.randrange(1, 3)):
            vals = []
            explicit = rng.random() < 0.7
            v = rng.choice([0, 1])
            for _ in range(rng.randrange(2, 6)):
                vals.append((self.fresh("V"), v if explicit else None))
                v += rng.choice([1, 1, 2, 5]) if explicit else 1
            fa["enums"].append((self.fresh("En"), vals))
        for _ in range(rng.randrange(1, 3)):
            fa["structs"].append((self.fresh("Sl"), []))
        fa["exceptions"].append((self.fresh("Ex"), []))
        mine = []
        for _ in range(n_td):
            name = self.fresh("Td")
            # chains: prefer earlier typedefs of this file or of its includes
            pool = mine + [t for t in self.visible(proj, fname)["typedef"] if "." in t[1]]
            t = self.rtype(proj, fname, depth=rng.choice([0, 0, 1]), typedefs=pool)
            if pool and rng.random() < 0.45:
                t = rng.choice(pool)
            fa["typedefs"].append((name, t))
            mine.append(("n", name))
        for kind in ("structs", "exceptions"):
            for idx, (name, _) in enumerate(fa[kind]):
                fa[kind][idx] = (name, self.fields(proj, fname, rng.randrange(0, 4)))

    def project(self):
        rng = self.rng
        proj = {}
        names = []
        n_inc = rng.choice([0, 1, 1, 2, 2, 3])
        for i in range(n_inc):
            nm = self.fresh("inc")
            proj[nm] = new_file()
            # nested includes: a later include file may include an earlier one
            if names and rng.random() < 0.5:
                proj[nm]["includes"].append(rng.choice(names))
            self.library(proj, nm, rng.randrange(1, 5))
            # every included file offers a service of the SAME name: a root service may extend inc.Base, and switching it to
            # another include's Base is a change of parent
            proj[nm]["services"].append(("Base", "", [{"name": "ping", "oneway": False, "ret": None, "args": [], "excs": None}]))
            names.append(nm)
        main = new_file()
        proj["main"] = main
        # the root includes some of the files (so a file can be reachable only through another one)
        main["includes"] = [n for n in names if rng.random() < 0.75]
        if names and not main["includes"]:
            main["includes"] = [names[-1]]
        self.library(proj, "main", rng.randrange(1, 6))
        for sc in rng.sample(["go", "java", "py", "dart", "*"], rng.randrange(0, 3)):
            main["namespaces"].append((sc, self.fresh("ns")))
        for _ in range(rng.randrange(0, 3)):
            t = ("b", rng.choice(["i32", "string", "i64", "double", "bool"]))
            main["constants"].append((self.fresh("C"), t, self.default_for(proj, "main", t)))
        for _ in range(rng.randrange(1, 4)):
            main["structs"].append((self.fresh("St"), self.fields(proj, "main", rng.randrange(1, 7))))
        for _ in range(rng.randrange(0, 2)):
            main["unions"].append((self.fresh("Un"), self.fields(proj, "main", rng.randrange(1, 4), union=True)))
        for _ in range(rng.randrange(0, 2)):
            main["exceptions"].append((self.fresh("Xc"), self.fields(proj, "main", rng.randrange(0, 3))))
        excs = self.visible(proj, "main")["exception"]
        for si in range(rng.randrange(1, 3)):
            methods = []
            for _ in range(rng.randrange(1, 5)):
                oneway = rng.random() < 0.15
                ret = None if oneway or rng.random() < 0.4 else self.rtype(proj, "main")
                m = {"name": self.fresh("m"), "oneway": oneway, "ret": ret,
                     "args": self.fields(proj, "main", rng.randrange(0, 4), args=True), "excs": None}
                if not oneway and rng.random() < 0.5:
                    m["excs"] = [{"id": i + 1, "name": self.fresh("e"), "mod": None, "type": rng.choice(excs),
                                  "default": None} for i in range(rng.randrange(0, 3))]
                methods.append(m)
            ext = ""
            if main["services"] and rng.random() < 0.5:
                ext = rng.choice(main["services"])[0]
            elif main["includes"] and rng.random() < 0.5:
                ext = rng.choice(main["includes"]) + ".Base"
            main["services"].append((self.fresh("Sv"), ext, methods))
        for _ in range(rng.randrange(0, 3)):
            pieces = []
            for _ in range(rng.randrange(0, 4)):
                pieces.append("{%s}" % self.fresh("v") if rng.random() < 0.4 else self.fresh("p"))
            ops = [(self.fresh("Op"), self.rtype(proj, "main")) for _ in range(rng.randrange(1, 4))]
            main["scopes"].append((self.fresh("Sc"), ".".join(pieces), ops))
        nd = (len(main["typedefs"]) + len(main["constants"]) + len(main["enums"]) + len(main["structs"])
              + len(main["exceptions"]) + len(main["unions"]) + len(main["services"]) + len(main["scopes"]))
        if rng.random() < 0.5:
            order = list(range(nd))
            rng.shuffle(order)
            main["order"] = order
        return proj


# ---------------------------------------------------------------------------------------------
# sites and references

def type_names(t, acc):
    if t is None:
        return acc
    if t[0] == "n":
        acc.add(t[1])
    elif t[0] in ("list", "set"):
        type_names(t[1], acc)
    elif t[0] == "map":
        type_names(t[1], acc)
        type_names(t[2], acc)
    return acc


def all_types(fa):
    for _, t in fa["typedefs"]:
        yield t
    for _, t, _ in fa["constants"]:
        yield t
    for kind in KINDS:
        for _, fs in fa[kind]:
            for f in fs:
                yield f["type"]
    for _, _, ms in fa["services"]:
        for m in ms:
            yield m["ret"]
            for f in m["args"] + (m["excs"] or []):
                yield f["type"]
    for _, _, ops in fa["scopes"]:
        for _, t in ops:
            yield t


def referenced(proj, fname, local):
    """is the declaration `local` of file fname referenced by any type expression of the project?"""
    for f, fa in proj.items():
        want = local if f == fname else fname + "." + local
        for t in all_types(fa):
            if want in type_names(t, set()):
                return True
    return False


def audited_type_sites(proj):
    """(key, type) for every type position of the root file that the audit compares as an error"""
    m = proj["main"]
    out = {}
    for kind in KINDS:
        for name, fs in m[kind]:
            for f in fs:
                out[(kind, name, f["id"])] = f["type"]
    for sname, _, ms in m["services"]:
        for me in ms:
            out[("ret", sname, me["name"])] = me["ret"]
            for f in me["args"]:
                out[("arg", sname, me["name"], f["id"])] = f["type"]
            for f in me["excs"] or []:
                out[("exc", sname, me["name"], f["id"])] = f["type"]
    for sname, _, ops in m["scopes"]:
        for on, t in ops:
            out[("op", sname, on)] = t
    return out


def changed_type_sites(old, new):
    so, sn = audited_type_sites(old), audited_type_sites(new)
    return [k for k in so if k in sn and resolve(old, "main", so[k]) != resolve(new, "main", sn[k])]


# ---------------------------------------------------------------------------------------------
# edits.  Each returns None (not applicable) or a dict
#   {"name", "breaking": bool, "claims": [tuples], "errors": [regex], "warnings": [regex]}
# after mutating `new` in place.  `claimed` holds the sites earlier edits of this pair used.

def conflicts(claimed, claims):
    for c in claims:
        for d in claimed:
            n = min(len(c), len(d))
            if c[:n] == d[:n]:
                return True
    return False


def esc(s):
    return re.escape(s)


class Editor:
    def __init__(self, rng, gen, old, new, claimed):
        self.rng, self.gen, self.old, self.new, self.claimed = rng, gen, old, new, claimed

    # -- helpers
    def pick(self, items):
        items = list(items)
        self.rng.shuffle(items)
        return items

    def free(self, *claims):
        return not conflicts(self.claimed, list(claims))

    def other_type(self, t, same=False):
        """a valid type (in main) whose normal form differs from (or, same=True, equals) that of t"""
        nf = resolve(self.new, "main", t)
        for _ in range(40):
            c = self.gen.rtype(self.new, "main")
            if (resolve(self.new, "main", c) == nf) == same and c != t:
                return c
        return None

    def deep_change(self, t):
        """change one leaf of a container type (nested position)"""
        if t is None or t[0] in ("b", "n"):
            return self.other_type(t)
        if t[0] == "list":
            c = self.deep_change(t[1])
            return None if c is None else ("list", c)
        if t[0] == "set":
            nf = resolve(self.new, "main", t[1])
            cands = [("b", b) for b in ("i32", "string", "i64", "i16") if ("b", b) != nf]
            return ("set", self.rng.choice(cands))
        if self.rng.random() < 0.5:
            c = self.deep_change(t[2])
            return None if c is None else ("map", t[1], c)
        nf = resolve(self.new, "main", t[1])
        cands = [("b", b) for b in ("i32", "string", "i64", "i16") if ("b", b) != nf]
        return ("map", self.rng.choice(cands), t[2])

    def fieldlists(self):
        """(claim prefix, message context, kind tag, list object) for every field list of new main"""
        m = self.new["main"]
        out = []
        for kind in KINDS:
            for name, fs in m[kind]:
                out.append(((kind, name), "struct %s:" % name, kind, fs))
        for sname, _, ms in m["services"]:
            for me in ms:
                out.append((("service", sname, me["name"], "args"), "service %s: method %s:" % (sname, me["name"]), "args", me["args"]))
                if me["excs"]:
                    out.append((("service", sname, me["name"], "excs"), "service %s: method %s:" % (sname, me["name"]), "excs", me["excs"]))
        return out

    # -- field edits (structs, exceptions, unions, arguments, exceptions of methods)
    def field_retype(self, nested=False, same=False):
        for pre, ctx, kind, fs in self.pick(self.fieldlists()):
            if kind == "excs":
                continue
            for f in self.pick(fs):
                if not self.free(pre + (f["id"],)):
                    continue
                if nested and f["type"][0] in ("b", "n"):
                    continue
                t = self.deep_change(f["type"]) if nested else self.other_type(f["type"], same=same)
                if t is None:
                    continue
                f["type"] = t
                f["default"] = None
                if same:
                    return {"name": "field_retype_equivalent", "breaking": False, "claims": [pre + (f["id"],)]}
                return {"name": "field_retype_nested" if nested else "field_retype", "breaking": True,
                        "claims": [pre + (f["id"],)],
                        "errors": [r"^%s field %s:( (key|value) type:)* types not equal: " % (esc(ctx), esc(f["name"]))]}
        return None

    def exc_retype(self):
        excs = [t for t in self.gen.visible(self.new, "main")["exception"]]
        for pre, ctx, kind, fs in self.pick(self.fieldlists()):
            if kind != "excs":
                continue
            for f in self.pick(fs):
                cands = [e for e in excs if e != f["type"]]
                if not cands or not self.free(pre + (f["id"],)):
                    continue
                f["type"] = self.rng.choice(cands)
                return {"name": "exception_retype", "breaking": True, "claims": [pre + (f["id"],)],
                        "errors": [r"^%s field %s: types not equal: " % (esc(ctx), esc(f["name"]))]}
        return None

    def field_requiredness(self):
        for pre, ctx, kind, fs in self.pick(self.fieldlists()):
            if kind in ("unions", "excs"):
                continue
            for f in self.pick(fs):
                if not self.free(pre + (f["id"],)):
                    continue
                was = f["mod"] == "required"
                f["mod"] = self.rng.choice([None, "optional"]) if was else "required"
                return {"name": "requiredness_flip", "breaking": True, "claims": [pre + (f["id"],)],
                        "errors": [r"^%s field %s: field presence modifier changed: '%s' -> '%s'$" % (
                            esc(ctx), esc(f["name"]), "REQUIRED" if was else "(DEFAULT|OPTIONAL)",
                            "(DEFAULT|OPTIONAL)" if was else "REQUIRED")]}
        return None

    def field_optional_default_flip(self):
        for pre, ctx, kind, fs in self.pick(self.fieldlists()):
            if kind in ("unions", "excs"):
                continue
            for f in self.pick(fs):
                if f["mod"] == "required" or not self.free(pre + (f["id"],)):
                    continue
                f["mod"] = "optional" if f["mod"] is None else None
                return {"name": "optional_default_flip", "breaking": False, "claims": [pre + (f["id"],)]}
        return None

    def field_remove(self, optional):
        for pre, ctx, kind, fs in self.pick(self.fieldlists()):
            for f in self.pick(fs):
                isopt = f["mod"] == "optional" or kind in ("unions", "excs")
                if isopt != optional or not self.free(pre + (f["id"],)):
                    continue
                if kind == "excs" and len(fs) == 1:
                    continue  # the void-method rule has its own edit
                fs.remove(f)
                if optional:
                    return {"name": "optional_field_removed", "breaking": False, "claims": [pre + (f["id"],)]}
                return {"name": "field_removed", "breaking": True, "claims": [pre + (f["id"],)],
                        "errors": [r"^%s field %s: field removed with ID=%d$" % (esc(ctx), esc(f["name"]), f["id"])]}
        return None

    def field_add(self, required):
        for pre, ctx, kind, fs in self.pick(self.fieldlists()):
            if kind == "excs":
                continue
            ids = [f["id"] for f in fs]
            # ids of removed fields may not be reused by this edit: claims of this list
            used = set(ids) | {c[-1] for c in self.claimed if c[:len(pre)] == pre and len(c) == len(pre) + 1}
            cands = sorted({j for i in ids + [0] for j in (i - 1, i + 1, i + 2) if j not in used and j != 0})
            if not cands:
                continue
            i = self.rng.choice(cands)
            if not self.free(pre + (i,)):
                continue
            name = self.gen.fresh("nf")
            mod = "required" if required else self.rng.choice([None, "optional"])
            f = {"id": i, "name": name, "mod": mod, "type": self.gen.rtype(self.new, "main"), "default": None}
            fs.insert(self.rng.randrange(len(fs) + 1), f)
            if required and kind != "unions":
                return {"name": "required_field_added", "breaking": True, "claims": [pre + (i,)],
                        "errors": [r"^%s field %s: added field is required$" % (esc(ctx), esc(name))]}
            return {"name": "field_added", "breaking": False, "claims": [pre + (i,)]}
        return None

    def field_rename(self):
        for pre, ctx, kind, fs in self.pick(self.fieldlists()):
            for f in self.pick(fs):
                if not self.free(pre + (f["id"],)):
                    continue
                oldname = f["name"]
                f["name"] = self.gen.fresh("rn")
                return {"name": "field_renamed", "breaking": False, "claims": [pre + (f["id"],)],
                        "warnings": [r"^%s field %s: name changed$" % (esc(ctx), esc(oldname))]}
        return None

    def field_default(self):
        for pre, ctx, kind, fs in self.pick(self.fieldlists()):
            if kind not in ("structs", "exceptions"):
                continue
            for f in self.pick(fs):
                d = self.gen.default_for(self.new, "main", f["type"])
                if d is None or d == f["default"] or not self.free(pre + (f["id"],)):
                    continue
                if f["default"] is not None and _same_value(d, f["default"]):
                    continue
                f["default"] = d
                return {"name": "default_changed", "breaking": False, "claims": [pre + (f["id"],)],
                        "warnings": [r"^%s field %s: default value changed$" % (esc(ctx), esc(f["name"]))]}
        return None

    def fields_reorder(self):
        for pre, ctx, kind, fs in self.pick(self.fieldlists()):
            if len(fs) < 2:
                continue
            self.rng.shuffle(fs)
            return {"name": "fields_reordered", "breaking": False, "claims": []}
        return None

    # -- struct-like declarations
    def struct_remove(self):
        m = self.new["main"]
        for kind in self.pick(KINDS):
            for item in self.pick(m[kind]):
                name = item[0]
                if referenced(self.new, "main", name) or referenced(self.old, "main", name) or not self.free((kind, name)):
                    continue
                m[kind].remove(item)
                return {"name": "struct_removed", "breaking": True, "claims": [(kind, name)],
                        "errors": [r"^missing struct: %s$" % esc(name)]}
        return None

    def struct_kind_change(self):
        """the declaration keeps its name and fields but changes kind (struct <-> exception <-> union): the old
        declaration no longer exists in its kind, which the audit reports as a missing struct"""
        m = self.new["main"]
        for kind in self.pick(KINDS):
            for item in self.pick(m[kind]):
                name, fs = item
                if referenced(self.new, "main", name) or referenced(self.old, "main", name):
                    continue
                plain = all(f.get("mod") is None and f.get("default") is None for f in fs)
                targets = [k for k in KINDS if k != kind and (k != "unions" or (plain and fs))]
                if kind == "unions" and not fs:
                    continue
                if not targets:
                    continue
                to = self.rng.choice(targets)
                if not self.free((kind, name), (to, name)):
                    continue
                m[kind].remove(item)
                m[to].insert(self.rng.randrange(len(m[to]) + 1), item)
                return {"name": "struct_kind_changed", "breaking": True, "claims": [(kind, name), (to, name)],
                        "errors": [r"^missing struct: %s$" % esc(name)]}
        return None

    def struct_add(self):
        m = self.new["main"]
        kind = self.rng.choice(KINDS)
        name = self.gen.fresh("New")
        m[kind].insert(self.rng.randrange(len(m[kind]) + 1),
                       (name, self.gen.fields(self.new, "main", self.rng.randrange(0, 3), union=(kind == "unions"))))
        return {"name": "struct_added", "breaking": False, "claims": [(kind, name)]}

    # -- enums
    def enums(self):
        return self.new["main"]["enums"]

    def enum_value_remove(self):
        for idx, (name, vals) in enumerate(self.pick(self.enums())):
            if len(vals) < 2 or not self.free(("enum", name)):
                continue
            vals.pop(self.rng.randrange(len(vals)))
            return {"name": "enum_value_removed", "breaking": True, "claims": [("enum", name)],
                    "errors": [r"^enum %s: variant \w+: removed with ID=-?\d+$" % esc(name)]}
        return None

    def enum_value_renumber(self):
        for name, vals in self.pick(self.enums()):
            if not self.free(("enum", name)) or any(v is None for _, v in vals):
                continue
            i = self.rng.randrange(len(vals))
            top = max(v for _, v in vals)
            oldv = vals[i][1]
            vals[i] = (vals[i][0], top + self.rng.randrange(1, 4))
            return {"name": "enum_value_renumbered", "breaking": True, "claims": [("enum", name)],
                    "errors": [r"^enum %s: variant %s: removed with ID=%d$" % (esc(name), esc(vals[i][0]), oldv)]}
        return None

    def enum_value_rename(self):
        for name, vals in self.pick(self.enums()):
            if not self.free(("enum", name)):
                continue
            i = self.rng.randrange(len(vals))
            oldn = vals[i][0]
            vals[i] = (self.gen.fresh("RV"), vals[i][1])
            return {"name": "enum_variant_renamed", "breaking": False, "claims": [("enum", name)],
                    "warnings": [r"^enum variant name changed: %s$" % esc(oldn)]}
        return None

    def enum_value_add(self):
        for name, vals in self.pick(self.enums()):
            if not self.free(("enum", name)):
                continue
            if any(v is None for _, v in vals):
                vals.append((self.gen.fresh("AV"), None))
            else:
                vals.append((self.gen.fresh("AV"), max(v for _, v in vals) + 1))
            return {"name": "enum_value_added", "breaking": False, "claims": [("enum", name)]}
        return None

    def enum_remove(self):
        m = self.new["main"]
        for item in self.pick(m["enums"]):
            name = item[0]
            if referenced(self.new, "main", name) or referenced(self.old, "main", name) or not self.free(("enum", name)):
                continue
            m["enums"].remove(item)
            return {"name": "enum_removed", "breaking": False, "claims": [("enum", name)],
                    "warnings": [r"^enum removed: %s$" % esc(name)]}
        return None

    # -- services
    def service_remove(self):
        m = self.new["main"]
        exts = {e for _, e, _ in m["services"]} | {e for _, e, _ in self.old["main"]["services"]}
        for item in self.pick(m["services"]):
            if item[0] in exts or not self.free(("service", item[0])):
                continue
            m["services"].remove(item)
            return {"name": "service_removed", "breaking": True, "claims": [("service", item[0])],
                    "errors": [r"^missing service: %s$" % esc(item[0])]}
        return None

    def service_extends(self):
        m = self.new["main"]
        for idx, (name, ext, ms) in enumerate(m["services"]):
            if not self.free(("service", name, "#extends")):
                continue
            others = [n for n, _, _ in m["services"][:idx] if n != ext]
            if ext and "." in ext:
                # the parent lives in an include: another include's service of the same name is another parent
                alts = [i + ".Base" for i in m["includes"] if i + ".Base" != ext]
                newext = self.rng.choice(alts + others + [""])
                m["services"][idx] = (name, newext, ms)
                return {"name": "extends_changed_include", "breaking": True, "claims": [("service", name, "#extends")],
                        "errors": [r"^service %s: extends changed: '%s' -> '%s'$" % (esc(name), esc(ext), esc(newext))]}
            if ext:
                newext = self.rng.choice(others + [""])
                m["services"][idx] = (name, newext, ms)
                return {"name": "extends_changed", "breaking": True, "claims": [("service", name, "#extends")],
                        "errors": [r"^service %s: extends changed: '%s' -> '%s'$" % (esc(name), esc(ext), esc(newext))]}
            if others:
                m["services"][idx] = (name, self.rng.choice(others), ms)
                return {"name": "extends_added", "breaking": False, "claims": [("service", name, "#extends")]}
        return None

    def methods(self):
        for sname, _, ms in self.new["main"]["services"]:
            for me in ms:
                yield sname, ms, me

    def method_remove(self):
        for sname, ms, me in self.pick(self.methods()):
            if len(ms) < 2 or not self.free(("service", sname, me["name"])):
                continue
            ms.remove(me)
            return {"name": "method_removed", "breaking": True, "claims": [("service", sname, me["name"])],
                    "errors": [r"^service %s: missing method: %s$" % (esc(sname), esc(me["name"]))]}
        return None

    def method_add(self):
        for sname, ms, me in self.pick(self.methods()):
            name = self.gen.fresh("nm")
            ms.insert(self.rng.randrange(len(ms) + 1), {"name": name, "oneway": False, "ret": self.gen.rtype(self.new, "main"),
                                                        "args": self.gen.fields(self.new, "main", 1, args=True), "excs": None})
            return {"name": "method_added", "breaking": False, "claims": [("service", sname, name)]}
        return None

    def method_oneway(self):
        for sname, ms, me in self.pick(self.methods()):
            if me["ret"] is not None or me["excs"] or not self.free(("service", sname, me["name"], "#oneway")):
                continue
            me["oneway"] = not me["oneway"]
            if me["oneway"]:
                me["excs"] = None
            return {"name": "oneway_flip", "breaking": True, "claims": [("service", sname, me["name"], "#oneway")],
                    "errors": [r"^service %s: method %s: one way modifier changed$" % (esc(sname), esc(me["name"]))]}
        return None

    def method_return(self, kind):
        for sname, ms, me in self.pick(self.methods()):
            if me["oneway"] or not self.free(("service", sname, me["name"], "#ret")):
                continue
            ctx = "service %s: method %s: return type:" % (sname, me["name"])
            if kind == "void":
                # void <-> value; keep the exception rules out of the way
                if me["excs"]:
                    continue
                if me["ret"] is None:
                    me["ret"] = self.gen.rtype(self.new, "main")
                    pat = r"^%s types not equal: '<nil>' -> '[^']+'$" % esc(ctx)
                else:
                    me["ret"] = None
                    pat = r"^%s types not equal: '[^']+' -> '<nil>'$" % esc(ctx)
                return {"name": "return_void_flip", "breaking": True, "claims": [("service", sname, me["name"], "#ret"),
                                                                                  ("service", sname, me["name"], "excs")],
                        "errors": [pat]}
            if me["ret"] is None:
                continue
            if kind == "same":
                t = self.other_type(me["ret"], same=True)
                if t is None:
                    continue
                me["ret"] = t
                return {"name": "return_retype_equivalent", "breaking": False, "claims": [("service", sname, me["name"], "#ret")]}
            t = self.deep_change(me["ret"]) if kind == "nested" else self.other_type(me["ret"])
            if t is None:
                continue
            me["ret"] = t
            return {"name": "return_retype", "breaking": True, "claims": [("service", sname, me["name"], "#ret")],
                    "errors": [r"^%s( (key|value) type:)* types not equal: " % esc(ctx)]}
        return None

    def method_exceptions(self, how):
        excs = self.gen.visible(self.new, "main")["exception"]
        if not excs:
            return None
        for sname, ms, me in self.pick(self.methods()):
            if me["oneway"] or not self.free(("service", sname, me["name"], "excs")) or not self.free(("service", sname, me["name"], "#ret")):
                continue
            ctx = "service %s: method %s:" % (sname, me["name"])
            claims = [("service", sname, me["name"], "excs"), ("service", sname, me["name"], "#ret")]
            has = bool(me["excs"])
            newexc = {"id": max([e["id"] for e in (me["excs"] or [])] + [0]) + 1, "name": self.gen.fresh("ne"), "mod": None,
                      "type": self.rng.choice(excs), "default": None}
            if how == "add_to_void_none" and me["ret"] is None and not has:
                me["excs"] = [newexc]
                return {"name": "exception_added_to_void", "breaking": True, "claims": claims,
                        "errors": [r"^%s can't add exceptions with nil return type$" % esc(ctx)]}
            if how == "remove_all_from_void" and me["ret"] is None and has:
                me["excs"] = self.rng.choice([None, []])
                return {"name": "exceptions_removed_from_void", "breaking": True, "claims": claims,
                        "errors": [r"^%s can't remove exceptions with nil return type$" % esc(ctx)]}
            if how == "add_ok" and (me["ret"] is not None or has):
                me["excs"] = (me["excs"] or []) + [newexc]
                return {"name": "exception_added", "breaking": False, "claims": claims}
            if how == "remove_ok" and has and (me["ret"] is not None or len(me["excs"]) > 1):
                me["excs"].pop(self.rng.randrange(len(me["excs"])))
                return {"name": "exception_removed", "breaking": False, "claims": claims}
        return None

    # -- scopes
    def scope_remove(self):
        m = self.new["main"]
        for item in self.pick(m["scopes"]):
            if not self.free(("scope", item[0])):
                continue
            m["scopes"].remove(item)
            return {"name": "scope_removed", "breaking": True, "claims": [("scope", item[0])],
                    "errors": [r"^missing scope: %s$" % esc(item[0])]}
        return None

    def scope_prefix(self, how):
        m = self.new["main"]
        for idx, (name, prefix, ops) in enumerate(m["scopes"]):
            if not self.free(("scope", name, "#prefix")):
                continue
            pieces = prefix.split(".") if prefix else []
            isvar = [p.startswith("{") for p in pieces]
            if how == "rename_var":
                if not any(isvar):
                    continue
                i = self.rng.choice([i for i, v in enumerate(isvar) if v])
                pieces[i] = "{%s}" % self.gen.fresh("w")
                m["scopes"][idx] = (name, ".".join(pieces), ops)
                return {"name": "prefix_variable_renamed", "breaking": False, "claims": [("scope", name, "#prefix")]}
            r = self.rng.random()
            if pieces and r < 0.3:
                i = self.rng.randrange(len(pieces))
                pieces[i] = self.gen.fresh("q") if isvar[i] or self.rng.random() < 0.6 else "{%s}" % self.gen.fresh("w")
            elif pieces and r < 0.55:
                pieces.pop(self.rng.randrange(len(pieces)))
            else:
                pieces.insert(self.rng.randrange(len(pieces) + 1),
                              self.gen.fresh("q") if self.rng.random() < 0.6 else "{%s}" % self.gen.fresh("w"))
            m["scopes"][idx] = (name, ".".join(pieces), ops)
            return {"name": "prefix_changed", "breaking": True, "claims": [("scope", name, "#prefix")],
                    "errors": [r"^scope %s: prefix changed: '" % esc(name)]}
        return None

    def op_remove(self):
        for name, prefix, ops in self.pick(self.new["main"]["scopes"]):
            if len(ops) < 2:
                continue
            for op in self.pick(ops):
                if not self.free(("scope", name, op[0])):
                    continue
                ops.remove(op)
                return {"name": "operation_removed", "breaking": True, "claims": [("scope", name, op[0])],
                        "errors": [r"^scope %s: operation removed: %s$" % (esc(name), esc(op[0]))]}
        return None

    def op_retype(self, same=False):
        for name, prefix, ops in self.pick(self.new["main"]["scopes"]):
            for i, op in enumerate(ops):
                if not self.free(("scope", name, op[0])):
                    continue
                t = self.other_type(op[1], same=same)
                if t is None:
                    continue
                ops[i] = (op[0], t)
                if same:
                    return {"name": "operation_retype_equivalent", "breaking": False, "claims": [("scope", name, op[0])]}
                return {"name": "operation_retype", "breaking": True, "claims": [("scope", name, op[0])],
                        "errors": [r"^scope %s: operation %s:( (key|value) type:)* types not equal: " % (esc(name), esc(op[0]))]}
        return None

    def op_add(self):
        for name, prefix, ops in self.pick(self.new["main"]["scopes"]):
            on = self.gen.fresh("NOp")
            ops.insert(self.rng.randrange(len(ops) + 1), (on, self.gen.rtype(self.new, "main")))
            return {"name": "operation_added", "breaking": False, "claims": [("scope", name, on)]}
        return None

    # -- namespaces, constants
    def namespace_change(self):
        m = self.new["main"]
        r = self.rng.random()
        if m["namespaces"] and r < 0.4:
            i = self.rng.randrange(len(m["namespaces"]))
            sc = m["namespaces"][i][0]
            m["namespaces"][i] = (sc, self.gen.fresh("nsx"))
            return {"name": "namespace_changed", "breaking": False, "claims": [], "warnings": [r"^namespace changed: %s$" % esc(sc)]}
        if m["namespaces"] and r < 0.7:
            sc, _ = m["namespaces"].pop(self.rng.randrange(len(m["namespaces"])))
            if any(s == sc for s, _ in m["namespaces"]):
                return {"name": "namespace_duplicate_removed", "breaking": False, "claims": []}
            return {"name": "namespace_removed", "breaking": False, "claims": [], "warnings": [r"^namespace removed: %s$" % esc(sc)]}
        have = {s for s, _ in m["namespaces"]}
        cands = [s for s in ["cpp", "rb", "js", "go", "java"] if s not in have]
        if not cands:
            return None
        m["namespaces"].append((self.rng.choice(cands), self.gen.fresh("nsy")))
        return {"name": "namespace_added", "breaking": False, "claims": []}

    def constant_change(self):
        m = self.new["main"]
        if not m["constants"]:
            return None
        i = self.rng.randrange(len(m["constants"]))
        name, t, val = m["constants"][i]
        r = self.rng.random()
        if r < 0.4:
            m["constants"].pop(i)
            return {"name": "constant_removed", "breaking": False, "claims": [], "warnings": [r"^constant value removed: %s$" % esc(name)]}
        if r < 0.7:
            nt = ("b", "i64") if t != ("b", "i64") else ("b", "i32")
            m["constants"][i] = (name, nt, "7")
            return {"name": "constant_retyped", "breaking": False, "claims": [],
                    "warnings": [r"^constant %s: types not equal: " % esc(name)]}
        for _ in range(10):
            d = self.gen.default_for(self.new, "main", t)
            if d is not None and not _same_value(d, val):
                m["constants"][i] = (name, t, d)
                return {"name": "constant_value_changed", "breaking": False, "claims": [],
                        "warnings": [r"^constant value changed: %s$" % esc(name)]}
        return None

    # -- typedefs (in the root or in an included file, at any depth of a chain)
    def typedef_change(self, where=None):
        """change the target of a typedef (root or included file, any link of a chain); prefers a
        typedef whose change reaches an audited site"""
        if not self.free(("typedef",)):
            return None
        oldsites = audited_type_sites(self.old)
        cands = [(fname, name, t) for fname in self.new for name, t in self.new[fname]["typedefs"]
                 if where is None or (where == "include") == (fname != "main")]
        unused = None
        for fname, name, t in self.pick(cands):
            fa = self.new[fname]
            nf = resolve(self.new, fname, t)
            for _ in range(20):
                c = ("b", self.rng.choice(BASE)) if self.rng.random() < 0.6 else ("list", ("b", self.rng.choice(BASE)))
                if resolve(self.new, fname, c) != nf:
                    break
            else:
                continue
            before = copy.deepcopy(self.new)
            j = [n for n, _ in fa["typedefs"]].index(name)
            fa["typedefs"][j] = (name, c)
            # the effect of a typedef change is wherever the typedef is used (and audited)
            sites = [k for k in changed_type_sites(before, self.new) if k in oldsites]
            claims = [("typedef",)] + [(k[0], k[1]) if k[0] in KINDS else ("scope", k[1], k[2]) if k[0] == "op"
                                       else ("service", k[1], k[2]) for k in sites]
            fa["typedefs"][j] = (name, t)
            if conflicts(self.claimed, claims[1:]):
                continue
            if sites:
                fa["typedefs"][j] = (name, c)
                return {"name": "typedef_changed_%s" % ("root" if fname == "main" else "include"), "breaking": True,
                        "claims": claims, "errors": [r"types not equal: "], "sites": len(sites)}
            if unused is None:
                unused = (fname, j, name, c, claims)
        if unused is not None:
            fname, j, name, c, claims = unused
            self.new[fname]["typedefs"][j] = (name, c)
            return {"name": "typedef_changed_unused", "breaking": False, "claims": claims}
        return None

    def typedef_add(self):
        fname = self.rng.choice(list(self.new.keys()))
        self.new[fname]["typedefs"].append((self.gen.fresh("NTd"), self.gen.rtype(self.new, fname)))
        return {"name": "typedef_added", "breaking": False, "claims": []}


def _same_value(a, b):
    try:
        return float(a) == float(b)
    except (TypeError, ValueError):
        return a == b


BREAKING_EDITS = [
    ("field_retype", lambda e: e.field_retype()),
    ("field_retype_nested", lambda e: e.field_retype(nested=True)),
    ("exception_retype", lambda e: e.exc_retype()),
    ("requiredness_flip", lambda e: e.field_requiredness()),
    ("field_removed", lambda e: e.field_remove(optional=False)),
    ("required_field_added", lambda e: e.field_add(required=True)),
    ("struct_removed", lambda e: e.struct_remove()),
    ("struct_kind_changed", lambda e: e.struct_kind_change()),
    ("enum_value_removed", lambda e: e.enum_value_remove()),
    ("enum_value_renumbered", lambda e: e.enum_value_renumber()),
    ("service_removed", lambda e: e.service_remove()),
    ("extends_changed", lambda e: e.service_extends()),
    ("method_removed", lambda e: e.method_remove()),
    ("oneway_flip", lambda e: e.method_oneway()),
    ("return_void_flip", lambda e: e.method_return("void")),
    ("return_retype", lambda e: e.method_return("other")),
    ("return_retype_nested", lambda e: e.method_return("nested")),
    ("exception_added_to_void", lambda e: e.method_exceptions("add_to_void_none")),
    ("exceptions_removed_from_void", lambda e: e.method_exceptions("remove_all_from_void")),
    ("scope_removed", lambda e: e.scope_remove()),
    ("prefix_changed", lambda e: e.scope_prefix("change")),
    ("operation_removed", lambda e: e.op_remove()),
    ("operation_retype", lambda e: e.op_retype()),
    ("typedef_changed", lambda e: e.typedef_change()),
    ("typedef_changed_include", lambda e: e.typedef_change("include")),
    ("typedef_changed_include", lambda e: e.typedef_change("include")),
    ("typedef_changed_root", lambda e: e.typedef_change("root")),
]
COMPATIBLE_EDITS = [
    ("field_retype_equivalent", lambda e: e.field_retype(same=True)),
    ("optional_default_flip", lambda e: e.field_optional_default_flip()),
    ("optional_field_removed", lambda e: e.field_remove(optional=True)),
    ("field_added", lambda e: e.field_add(required=False)),
    ("field_renamed", lambda e: e.field_rename()),
    ("default_changed", lambda e: e.field_default()),
    ("fields_reordered", lambda e: e.fields_reorder()),
    ("struct_added", lambda e: e.struct_add()),
    ("enum_variant_renamed", lambda e: e.enum_value_rename()),
    ("enum_value_added", lambda e: e.enum_value_add()),
    ("enum_removed", lambda e: e.enum_remove()),
    ("method_added", lambda e: e.method_add()),
    ("return_retype_equivalent", lambda e: e.method_return("same")),
    ("exception_added", lambda e: e.method_exceptions("add_ok")),
    ("exception_removed", lambda e: e.method_exceptions("remove_ok")),
    ("prefix_variable_renamed", lambda e: e.scope_prefix("rename_var")),
    ("operation_retype_equivalent", lambda e: e.op_retype(same=True)),
    ("operation_added", lambda e: e.op_add()),
    ("namespace_change", lambda e: e.namespace_change()),
    ("constant_change", lambda e: e.constant_change()),
    ("typedef_added", lambda e: e.typedef_add()),
]


def _default_fits(proj, fname, t, d):
    """does the literal text d conform to type t (validation checks defaults against their types)"""
    nf = resolve(proj, fname, t)
    if nf is None:
        return False
    if d.startswith('"'):
        return nf == ("b", "string")
    if d in ("true", "false"):
        return nf == ("b", "bool")
    if d.startswith("["):
        return nf[0] == "list" and nf[1][0] == "b" and nf[1][1] in ("i32", "i64", "i16")
    if "." in d:
        return nf == ("b", "double")
    try:
        v = int(d)
    except ValueError:
        return False
    if nf[0] != "b":
        return False
    if nf[1] == "byte":
        return -128 <= v <= 127
    return nf[1] in ("i16", "i32", "i64", "double")


def sanitize_defaults(proj):
    """a retyped field (directly or through a changed typedef) must not keep a default of the old type"""
    for fname, fa in proj.items():
        lists = [fs for kind in KINDS for _, fs in fa[kind]]
        for _, _, ms in fa["services"]:
            for me in ms:
                lists.append(me["args"])
        for fs in lists:
            for f in fs:
                if f.get("default") is not None and not _default_fits(proj, fname, f["type"], f["default"]):
                    f["default"] = None


def apply_edits(rng, gen, old, plan):
    """plan: list of (name, fn). Returns (new project, list of applied edit records)."""
    new = copy.deepcopy(old)
    claimed = []
    applied = []
    for name, fn in plan:
        ed = Editor(rng, gen, old, new, claimed)
        snapshot = copy.deepcopy(new)
        rec = fn(ed)
        if rec is None:
            new.clear()
            new.update(snapshot)
            continue
        if conflicts(claimed, rec["claims"]):
            new.clear()
            new.update(snapshot)
            continue
        claimed.extend(rec["claims"])
        rec["claims"] = [list(c) for c in rec["claims"]]
        applied.append(rec)
    sanitize_defaults(new)
    return new, applied
