"""C03 -- a call through generated client and server code is faithful end to end.

For seeded multi-file IDL programs (tools/lab_idl.py: services with extends across files, oneway, throws) the
lab (tools/lab.py + harness/lab/ext_c03) links the generated clients (NewF<Svc>Client) and processors
(NewF<Svc>Processor over recording stub handlers) over four transports (in-memory, adapter transport + simple
server over loopback TCP, HTTP, NATS with an embedded server) and three protocols (binary, compact, JSON) and
makes scripted calls: random argument tuples, handler outcomes value / declared exception / undeclared
exception / other error / TApplicationException.
  * direct oracle (no model): the handler ran exactly once with equal arguments, the caller got exactly the
    handler's outcome, a successful oneway call produced no reply frame, inherited methods behave like own
    ones, an unknown method / wrong reply name / wrong reply type is rejected with the documented exception;
  * correspondence: every call is replayed on the Coq model (Judge/JGenCall.v over Model/GenCall.v): the model's
    end-to-end rpc_call on the same arguments and scripted outcome, and -- binary AND compact protocols -- the
    model's server on the request bytes that travelled and the model's client on the reply bytes that travelled
    (the model runs over the codec of the session: bin_codec / compact_codec of Model/GenCall.v; JSON sessions are
    judged at the level of values only);
  * bursts (the same calls again, several in flight at once through the one generated client): direct oracle = each
    caller got what the same call got alone; correspondence = Judge/JGenCallConc.v over Model/GenCallConc.v (registry
    model x call model): on the frames that travelled during a round the hypotheses of c03_concurrent_calls_independent
    (pairwise distinct op ids, replies delivered when alone, nothing but server replies to these calls arrived) and its
    conclusion (each caller's outcome, handler log and own request / reply bytes are the model's for the call made alone).
"""
import collections
import json
import struct
import threading
import time

import lab
import lab_idl as L
import vlib
from props import c02 as C2

HARNESS_BINS = ["vh_lab"]
NEEDS_FRUGAL = True

import re
THRIFT_JSON_SPLIT = re.compile(rb"Expected '(-?Infinity|NaN)' but found '")
TRANSPORTS = ["mem", "tcp", "http", "nats"]
PROTOS = ["binary", "compact", "json"]
REGISTRY = {"mem": 0, "http": 0, "tcp": 1, "nats": 1}
PROTO_CODE = {"binary": 0, "compact": 1, "json": 2}
BYTE_LEVEL = ("binary", "compact")


def go_name(m):
    return L.snake_to_camel(m["name"])


def wire_name(m):
    return m["name"][0].lower() + m["name"][1:]


def svc_key(fn, svc):
    return "%s.%s" % (L.go_pkg(fn), L.snake_to_camel(svc))


# ------------------------------------------------------------------------------------------------
# program -> tokens

class Prog:
    def __init__(self, prog, lb):
        self.p = prog
        self.lb = lb
        self.names = {}
        for fn in prog["order"]:
            f = prog["files"][fn]
            for d in f["typedefs"] + f["enums"] + f["structs"]:
                self.names[(fn, d["name"])] = len(self.names) + 1
        self.sids = {}
        self.mstruct = {}     # (fn, svc, method, role) -> number
        for fn in prog["order"]:
            for svc in prog["files"][fn]["services"]:
                self.sids[(fn, svc["name"])] = len(self.sids) + 1
                for m in svc["methods"]:
                    for role in ("args", "result"):
                        self.mstruct[(fn, svc["name"], m["name"], role)] = len(self.names) + len(self.mstruct) + 1
        self.by_key = {}      # registry key -> (fn, sdef) for declared struct-likes
        for fn, s in L.all_structs(prog):
            self.by_key[lb.struct_key(fn, L.go_struct_name(s["name"]))] = (fn, s)
        self.env = self._env()
        self.services = self._services()

    def _env(self):
        p, names = self.p, self.names
        decls = []
        for fn in p["order"]:
            f = p["files"][fn]
            for d in f["typedefs"]:
                decls.append([names[(fn, d["name"])], 0, C2.type_tok(p, names, d["type"])])
            for d in f["enums"]:
                decls.append([names[(fn, d["name"])], 1, [x[1] for x in d["values"]]])
            for d in f["structs"]:
                decls.append([names[(fn, d["name"])], 2, {"struct": 0, "union": 1, "exception": 2}[d["kind"]],
                              [C2.field_tok(p, names, x) for x in d["fields"]]])
            for svc in f["services"]:
                for m in svc["methods"]:
                    decls.append([self.mstruct[(fn, svc["name"], m["name"], "args")], 3,
                                  [C2.field_tok(p, names, x) for x in m["args"]]])
                    decls.append([self.mstruct[(fn, svc["name"], m["name"], "result")], 4,
                                  [] if m["ret"] is None else [C2.type_tok(p, names, m["ret"])],
                                  [C2.field_tok(p, names, x) for x in m["throws"]]])
        return decls

    def _services(self):
        p = self.p
        out = []
        for fn in p["order"]:
            for svc in p["files"][fn]["services"]:
                ms = []
                for m in svc["methods"]:
                    ms.append([go_name(m).encode(), wire_name(m).encode(), 1 if m["oneway"] else 0,
                               self.mstruct[(fn, svc["name"], m["name"], "args")],
                               self.mstruct[(fn, svc["name"], m["name"], "result")],
                               [] if m["ret"] is None else [C2.type_tok(p, self.names, m["ret"])],
                               [C2.field_tok(p, self.names, x) for x in m["throws"]]])
                ext = svc.get("extends")
                out.append([self.sids[(fn, svc["name"])], [] if not ext else [self.sids[(ext[0], ext[1])]], ms])
        return out

    def slot_tok(self, t, v):
        return [] if v is None else [C2.val_tok(self.p, t, v)]


def args_sdef(m):
    fs = []
    for a in m["args"]:
        a2 = dict(a)
        if a2["mod"] == "optional":
            a2["mod"] = "default"
        fs.append(a2)
    return {"name": "args", "kind": "struct", "fields": fs}


def ret_sdef(m):
    return {"name": "result", "kind": "struct",
            "fields": [{"id": 0, "name": "success", "mod": "optional", "type": m["ret"], "default": None}]}


def canon_nan(tok):
    """value tokens with every NaN replaced by the canonical one (TJSON writes NaN as the string "NaN")"""
    if isinstance(tok, list):
        if len(tok) == 2 and tok[0] == 3 and isinstance(tok[1], bytes) and len(tok[1]) == 8:
            bits = struct.unpack(">Q", tok[1])[0]
            if (bits & 0x7fffffffffffffff) > 0x7ff0000000000000:
                return [3, struct.pack(">Q", 0x7ff8000000000001)]
            return tok
        return [canon_nan(x) for x in tok]
    return tok


def parse_headers(frame):
    """header pairs of a frame (with its 4-byte size), in wire order; None if malformed"""
    try:
        if len(frame) < 9 or frame[4] != 0:
            return None
        size = struct.unpack(">I", frame[5:9])[0]
        i, end, out = 9, 9 + size, []
        while i < end:
            n = struct.unpack(">I", frame[i:i + 4])[0]
            k = frame[i + 4:i + 4 + n]
            i += 4 + n
            n = struct.unpack(">I", frame[i:i + 4])[0]
            v = frame[i + 4:i + 4 + n]
            i += 4 + n
            out.append([bytes(k), bytes(v)])
        return out
    except Exception:  # noqa
        return None


# ------------------------------------------------------------------------------------------------
# scripted calls

def gen_outcome(rng, P, m, kind):
    """(request outcome spec, model description) for a handler outcome of the given kind"""
    p = P.p
    if kind == "ret":
        if m["ret"] is None:
            return {"kind": "ret", "value": None}, ("ret", None)
        hk = L.head_kind(p, m["ret"])
        nilable = hk in ("struct", "list", "set", "map", "base:binary")
        if nilable and rng.random() < 0.12:
            return {"kind": "ret", "value": None}, ("ret", None)
        v = avoid_const_default_zero(p, m["ret"], L.gen_value(rng, p, m["ret"]))
        return {"kind": "ret", "value": L.to_wire(p, m["ret"], v)}, ("ret", v)
    if kind in ("declared", "undeclared"):
        if kind == "declared":
            f = rng.choice(m["throws"])
            r = L.resolve(p, f["type"])
            fn, name = r[1], r[2]
        else:
            declared = set()
            for f in m["throws"]:
                r = L.resolve(p, f["type"])
                declared.add((r[1], r[2]))
            cands = [(fn, s["name"]) for fn, s in L.all_structs(p) if s["kind"] == "exception" and (fn, s["name"]) not in declared]
            if not cands:
                return None, None
            fn, name = rng.choice(cands)
        _, sdef = L.lookup(p, fn, name)
        v = avoid_const_default_zero(p, ["ref", fn, name], L.gen_struct_value(rng, p, sdef))
        key = P.lb.struct_key(fn, L.go_struct_name(name))
        return {"kind": "declared", "exc": key, "value": L.struct_to_wire(p, sdef, v)}, ("exc", fn, name, v)
    if kind == "other":
        msg = rng.choice([b"boom", b"", b"disk full: /dev/sda1", "café ☃".encode(), b"x" * 300])
        return {"kind": "other", "msg": msg.hex()}, ("other", msg)
    if kind == "appexc":
        t = rng.choice([0, 1, 2, 3, 4, 5, 6, 7, 8, 9, 10, 11, 42, 100, 2147483647, -1, -2147483648])
        msg = rng.choice([b"app says no", b"", b"q" * 200, "über".encode()])
        return {"kind": "appexc", "type": t, "msg": msg.hex()}, ("appexc", t, msg)
    raise ValueError(kind)


def outcome_kinds(rng, m, n):
    kinds = ["ret", "ret", "other", "appexc", "undeclared"]
    if m["throws"]:
        kinds += ["declared", "declared"]
    out = ["ret"]
    while len(out) < n:
        out.append(rng.choice(kinds))
    return out


class Call:
    pass


def _is_zero(p, t, v):
    hk = L.head_kind(p, t)
    if hk == "base:double":
        return v == 0.0
    if hk in ("base:string", "base:binary"):
        return v is None or len(v) == 0
    if hk == "base:bool":
        return v is False
    return v == 0


def avoid_const_default_zero(p, t, v):
    """Known finding C03-go-default-from-constant (a C02 matter surfacing here): an optional field whose default names a
    constant gets `var <S>_<F>_DEFAULT T = <Const>`, evaluated before the init() that assigns the constant, so IsSet
    compares with the zero value: a field holding zero is not written and the reader sees the declared default.  The
    seeded values avoid that case (such a field holding zero is given its default); a probe pins the finding."""
    if v is None:
        return v
    r = L.resolve(p, t)
    if r[0] == "ref":
        k, d = L.lookup(p, r[1], r[2])
        if k == "enum":
            return v
        out = {}
        for f in d["fields"]:
            x = v.get(f["id"])
            dflt = f.get("default")
            if f["mod"] == "optional" and dflt is not None and dflt.get("const") and L.go_kind(p, f) != "P" and \
                    L.head_kind(p, f["type"]).startswith("base:") and _is_zero(p, f["type"], x) and \
                    not _is_zero(p, f["type"], dflt["value"]):
                x = dflt["value"]
            else:
                x = avoid_const_default_zero(p, f["type"], x)
            out[f["id"]] = x
        return out
    if r[0] in ("list", "set"):
        return [avoid_const_default_zero(p, r[1], x) for x in v]
    if r[0] == "map":
        return [[avoid_const_default_zero(p, r[1], k), avoid_const_default_zero(p, r[2], x)] for k, x in v]
    return v


def writable(P, sdef, v):
    """can the generated Write emit this Go-level value (C02: a union field holding its default is unset)?"""
    try:
        C2.expected_struct(P.p, sdef, v)
        return True
    except (C2.UnionCount, C2.NilDeref):
        return False


def spoil_union(p, t, v):
    """v with the first union inside it (depth first: struct fields, list elements) replaced by the value New<T>() builds -
    no member set, which the generated Write refuses; None if v holds no union"""
    if v is None:
        return None
    r = L.resolve(p, t)
    if r[0] == "ref":
        k, d = L.lookup(p, r[1], r[2])
        if k == "enum":
            return None
        if d["kind"] == "union":
            return L.new_value(p, d)
        for f in d["fields"]:
            sp = spoil_union(p, f["type"], v.get(f["id"]))
            if sp is not None:
                w = dict(v)
                w[f["id"]] = sp
                return w
        return None
    if r[0] == "list":
        for i, x in enumerate(v):
            sp = spoil_union(p, r[1], x)
            if sp is not None:
                w = list(v)
                w[i] = sp
                return w
    return None


def plan_session(rng, P, cfn, csvc, sfn, ssvc, transport, proto, per_method, tamper=False):
    p = P.p
    calls, reqs = [], []
    for (dfn, dsvc, m) in L.service_methods(p, cfn, csvc):
        for kind in outcome_kinds(rng, m, per_method):
            for _ in range(30):
                spec, desc = gen_outcome(rng, P, m, kind)
                if spec is None:
                    break
                # outcomes are values of the declared type: something the generated Write can emit
                if desc[0] == "ret" and desc[1] is not None and m["ret"] is not None and \
                        not writable(P, ret_sdef(m), {0: desc[1]}):
                    continue
                if desc[0] == "exc" and not writable(P, L.lookup(p, desc[1], desc[2])[1], desc[3]):
                    continue
                break
            else:
                continue
            if spec is None:
                continue
            # fault: the handler returns a value the generated Write refuses part-way (a union with no member set somewhere
            # inside): the reply is abandoned after its beginning has been written; the caller must be told, with a
            # well-formed error, and the calls that follow must be served as ever
            badret = False
            if desc[0] == "ret" and desc[1] is not None and m["ret"] is not None and not m["oneway"] and not tamper:
                sp = spoil_union(p, m["ret"], desc[1])
                if sp is not None and rng.random() < 0.3 and not writable(P, ret_sdef(m), {0: sp}):
                    badret = True
                    spec, desc = {"kind": "ret", "value": L.to_wire(p, m["ret"], sp)}, ("ret", sp)
            c = Call()
            c.badret = badret
            c.m, c.dfn, c.dsvc = m, dfn, dsvc
            c.own = (dfn, dsvc) == (cfn, csvc)
            for _ in range(30):
                c.args = [avoid_const_default_zero(p, a["type"], L.gen_value(rng, p, a["type"])) for a in m["args"]]
                for i, a in enumerate(m["args"]):
                    if L.head_kind(p, a["type"]) in ("list", "set", "map", "base:binary") and rng.random() < 0.06:
                        c.args[i] = None
                c.unwritable = not writable(P, args_sdef(m), {a["id"]: v for a, v in zip(m["args"], c.args)})
                # arguments the generated Write refuses (rarely kept: the caller must get an error, nothing is sent)
                if not c.unwritable or rng.random() < 0.1:
                    break
            else:
                continue
            c.desc = desc
            c.proto = proto
            c.tamper = None
            req = {"method": go_name(m), "args": [L.to_wire(p, a["type"], v) for a, v in zip(m["args"], c.args)],
                   "outcome": spec}
            if rng.random() < 0.3:
                req["headers"] = {b"x-trace".hex(): rng.choice([b"abc", b"", "é".encode()]).hex()}
            if tamper and not m["oneway"]:
                if rng.random() < 0.5:
                    c.tamper = {"name": (wire_name(m) + "x").encode().hex() if rng.random() < 0.7 else b"".hex()}
                else:
                    # TCompactProtocol carries three bits of the type: 12 arrives as 4, 13 and 77 as 5
                    c.tamper = {"type": rng.choice([1, 4, 0, 5, 77] + ([7, 6, 12, 13] if proto == "compact" else []))}
                req["tamper"] = c.tamper
            c.drop = False
            if transport == "http" and not tamper and not c.unwritable and not c.badret and rng.random() < 0.08:
                # fault: the server processes the request and the connection is closed before any response leaves
                c.drop = True
                req["drop_reply"] = True
            calls.append(c)
            reqs.append(req)
    order = list(range(len(calls)))
    rng.shuffle(order)
    calls = [calls[i] for i in order]
    reqs = [reqs[i] for i in order]
    req = {"op": "c03_session", "service": svc_key(cfn, csvc), "server": svc_key(sfn, ssvc),
           "transport": transport, "proto": proto, "calls": reqs}
    # the same calls once more, all in flight at once through the one client (several goroutines sharing it)
    served = {wire_name(m) for _, _, m in L.service_methods(p, sfn, ssvc)}
    elig = [i for i, c in enumerate(calls) if not c.m["oneway"] and not c.unwritable and c.tamper is None
            and c.desc[0] in ("ret", "exc") and wire_name(c.m) in served and not getattr(c, "drop", False)
            and not getattr(c, "badret", False)]
    if proto == "json":
        # Apache Thrift's JSON reader splits NaN / Infinity tokens at a 4096-byte boundary (known finding, third party):
        # alone such a call fails with a recognisable PROTOCOL_ERROR; in a burst the undecodable request makes the
        # server stop serving the shared connection and the OTHER calls time out. Calls carrying such doubles stay
        # out of JSON bursts (they are judged one at a time above).
        special = re.compile(r'"[7f]ff[0-9a-f]{13}"')
        elig = [i for i in elig if not special.search(json.dumps(reqs[i]))]
    if len(elig) >= 2 and not tamper:
        rng.shuffle(elig)
        req["burst"] = elig[:12]
        req["burst_rounds"] = 3
    return req, calls


def boundary_program(pid):
    """hand-written: service Echo { string echo(1: string msg), oneway void fire(1: binary blob) } -- used to sweep
    request and reply sizes across the buffer sizes of the protocols and transports (bufio's 4096, 8192)"""
    fn = pid + "a"

    def fld(i, name, t):
        return {"id": i, "name": name, "mod": "default", "type": t, "default": None}
    methods = [{"name": "echo", "oneway": False, "ret": ["string"], "args": [fld(1, "msg", ["string"])], "throws": []},
               {"name": "fire", "oneway": True, "ret": None, "args": [fld(1, "blob", ["binary"])], "throws": []},
               {"name": "sum", "oneway": False, "ret": ["i32"],
                "args": [fld(1, "pad", ["string"]), fld(2, "ds", ["list", ["double"]])], "throws": []}]
    return {"id": pid, "root": fn, "order": [fn],
            "files": {fn: {"name": fn, "includes": [], "typedefs": [], "enums": [], "consts": [], "structs": [],
                           "services": [{"name": "Echo", "extends": None, "methods": methods}], "scopes": [],
                           "decl_order": "natural"}}}


def plan_boundary(rng, P, transport, proto, sizes):
    p = P.p
    fn = p["root"]
    svc = L.find_service(p, fn, "Echo")
    echo, fire, summ = svc["methods"]
    calls, reqs = [], []
    for n in sizes:
        which = rng.random()
        c = Call()
        c.dfn, c.dsvc, c.own, c.tamper, c.unwritable = fn, "Echo", True, None, False
        c.proto = proto
        if which < 0.45:      # a large request
            c.m, c.args, c.desc = echo, ["a" * n], ("ret", "ok")
        elif which < 0.9:     # a large reply
            c.m, c.args, c.desc = echo, ["q"], ("ret", "b" * n)
        else:
            c.m, c.args, c.desc = fire, [b"z" * n], ("ret", None)
        m = c.m
        spec = {"kind": "ret", "value": None if m["ret"] is None else L.to_wire(p, m["ret"], c.desc[1])}
        calls.append(c)
        reqs.append({"method": go_name(m), "args": [L.to_wire(p, a["type"], v) for a, v in zip(m["args"], c.args)],
                     "outcome": spec})
    if sizes and sizes[0] < 0:
        # special doubles across the 4096-byte buffer of the JSON protocol's reader (known finding of the Thrift library)
        calls, reqs = [], []
        for n in range(-sizes[0]):
            c = Call()
            c.dfn, c.dsvc, c.own, c.tamper, c.unwritable = fn, "Echo", True, None, False
            c.proto = proto
            c.m, c.args, c.desc = summ, ["p" * (3950 + n), [float("-inf")] * 30], ("ret", n)
            calls.append(c)
            reqs.append({"method": go_name(summ), "args": [L.to_wire(p, a["type"], v) for a, v in zip(summ["args"], c.args)],
                         "outcome": {"kind": "ret", "value": n}})
    req = {"op": "c03_session", "service": svc_key(fn, "Echo"), "server": svc_key(fn, "Echo"),
           "transport": transport, "proto": proto, "calls": reqs}
    return req, calls


# ------------------------------------------------------------------------------------------------
# direct oracle

def norm_args(P, m, vals):
    return _norm_struct(P.p, args_sdef(m), {a["id"]: v for a, v in zip(m["args"], vals)})


def _norm_struct(p, sdef, v):
    """go_norm on a synthetic struct definition"""
    out = []
    for f in sdef["fields"]:
        x = v.get(f["id"])
        hk = L.head_kind(p, f["type"])
        if f["mod"] == "optional":
            s = C2.is_set(p, f, x)
            out.append((f["id"], s, C2.go_norm(p, f["type"], x) if s else None))
        else:
            if x is None and hk in ("list", "set", "map"):
                x = []
            if x is None and hk == "base:binary":
                x = b""
            out.append((f["id"], True, C2.go_norm(p, f["type"], x)))
    return tuple(out)


def norm_ret(P, m, v):
    """what the caller should get for a returned value: an unset result field reads as the zero value"""
    p = P.p
    if m["ret"] is None:
        return None
    hk = L.head_kind(p, m["ret"])
    if v is None:
        return ("nil",)
    if hk == "base:binary":
        return ("v", bytes(v))
    return ("v", C2.go_norm(p, m["ret"], v))


def expected_client(P, c, server_has):
    """expected client outcome, as a comparable tuple"""
    m = c.m
    wn = wire_name(m).encode()
    if c.unwritable:
        return ("refused",)
    if m["oneway"]:
        return ("ret", None)
    if not server_has:
        return ("appexc", 1, b"Unknown function " + wn)
    if c.tamper is not None:
        if "name" in c.tamper:
            return ("appexc", 3, wn + b" failed: wrong method name")
        t = c.tamper["type"]
        if getattr(c, "proto", "binary") == "compact":
            t %= 8
        if t == 2:
            pass
        elif t == 3:
            return ("garbled",)
        else:
            return ("appexc", 2, wn + b" failed: invalid message type")
    d = c.desc
    if d[0] == "ret":
        return ("ret", norm_ret(P, m, d[1]))
    if d[0] == "exc":
        declared = False
        for f in m["throws"]:
            r = L.resolve(P.p, f["type"])
            if (r[1], r[2]) == (d[1], d[2]):
                declared = True
        if declared:
            _, sdef = L.lookup(P.p, d[1], d[2])
            return ("exc", d[1], d[2], C2.go_norm(P.p, ["ref", d[1], d[2]], d[3]))
        return ("appexc", 6, b"Internal error processing " + wn + b": " + c.text)
    if d[0] == "other":
        return ("appexc", 6, b"Internal error processing " + wn + b": " + d[1])
    if d[0] == "appexc":
        if d[1] == 100:
            return ("transport", 101, c.text)
        return ("appexc", d[1], c.text)
    raise ValueError(d)


def observed_client(P, c, o):
    m = c.m
    k = o.get("kind")
    if k == "ret":
        if m["ret"] is None:
            return ("ret", None)
        j = o.get("value")
        v = L.from_wire(P.p, m["ret"], j)
        return ("ret", norm_ret(P, m, v))
    if k == "declared":
        if o["exc"] not in P.by_key:
            return ("unknown-exc", o["exc"])
        fn, sdef = P.by_key[o["exc"]]
        v = L.struct_from_wire(P.p, sdef, o["value"])
        return ("exc", fn, sdef["name"], C2.go_norm(P.p, ["ref", fn, sdef["name"]], v))
    if k == "appexc":
        return ("appexc", o["type"], bytes.fromhex(o["msg"]))
    if k == "transport":
        return ("transport", o["type"], bytes.fromhex(o["msg"]))
    return (k, o.get("type"), bytes.fromhex(o.get("msg", "")))


# ------------------------------------------------------------------------------------------------

def call_token(P, c, o, hl, seen, text, cfn, csvc, sfn, ssvc, transport, proto, reqf, reps, byte_level=True):
    """the token of one observed call for Judge/JGenCall.v (judge_call); None if the request frame is unusable.
    o: the harness' observation (client outcome), hl: handler invocations observed, seen: the arguments the handler saw,
    text: Error() of the scripted error, reqf / reps: request frame and reply frames (with their 4-byte size)"""
    p, m, d = P.p, c.m, c.desc
    wn = wire_name(m)
    hdrs = parse_headers(reqf)
    if c.unwritable and not reqf:
        hdrs = [[b"_cid", b"c03"], [b"_opid", str(o.get("opid")).encode()], [b"_timeout", b"2000"]]
    if hdrs is None:
        return None
    tok_args = [P.slot_tok(a["type"], v) for a, v in zip(m["args"], c.args)]
    if d[0] == "ret":
        tok_out = [0, [] if (m["ret"] is None or d[1] is None) else [C2.val_tok(p, m["ret"], d[1])]]
    elif d[0] == "exc":
        _, sdef = L.lookup(p, d[1], d[2])
        tok_out = [1, P.names[(d[1], d[2])], C2.struct_tok(p, sdef, d[3]), text]
    elif d[0] == "appexc":
        tok_out = [2, d[1], text]
    else:
        tok_out = [3, d[1]]
    tok_log = []
    for h in hl:
        tok_log.append([wn.encode(), [P.slot_tok(a["type"], v) for a, v in zip(m["args"], seen)]])
    oc = o["client"]
    k = oc.get("kind")
    if k == "ret":
        v = None if m["ret"] is None else L.from_wire(p, m["ret"], oc.get("value"))
        tok_cli = [0, [] if v is None else [C2.val_tok(p, m["ret"], v)]]
    elif k == "declared":
        fn2, sdef = P.by_key[oc["exc"]]
        tok_cli = [1, P.names[(fn2, sdef["name"])], C2.struct_tok(p, sdef, L.struct_from_wire(p, sdef, oc["value"]))]
    elif k == "appexc":
        tok_cli = [2, oc["type"], bytes.fromhex(oc["msg"])]
    elif k == "transport":
        tok_cli = [4] if oc["type"] == 3 else [3, oc["type"], bytes.fromhex(oc["msg"])]
    else:
        tok_cli = [5]
    binary = byte_level and proto in BYTE_LEVEL
    if proto == "json":
        tok_args, tok_log, tok_cli = canon_nan(tok_args), canon_nan(tok_log), canon_nan(tok_cli)
        if tok_out[0] in (0, 1):
            tok_out = tok_out[:2] + canon_nan(tok_out[2:3]) + tok_out[3:] if tok_out[0] == 1 else canon_nan(tok_out)
    tam = []
    if c.tamper is not None:
        tam = [[] if "name" not in c.tamper else [bytes.fromhex(c.tamper["name"])],
               [] if "type" not in c.tamper else [c.tamper["type"]]]
    fuel = min(400000, 4 * (len(reqf) + sum(len(x) for x in reps)) + 2000)
    return [P.sids[(cfn, csvc)], P.sids[(sfn, ssvc)], go_name(m).encode(), REGISTRY[transport], hdrs,
            tok_args, tok_out, tok_log, tok_cli, len(reps),
            [reqf[4:]] if (binary and reqf) else [], [reps[0][4:]] if (binary and reps) else [], tam, fuel,
            PROTO_CODE[proto]]


def run_program(ctx, prog, lab_id, plan, stats, judge_cases, judge_meta, burst_cases=None, burst_meta=None):
    lb = lab.Lab(prog, lab_id=lab_id, extra_imports=["verifharness/lab/ext_c03"])
    try:
        lb.build()
    except lab.LabError as e:
        ctx.violation("C03: generated program does not build (%s)" % e.stage,
                      {"program": prog["id"], "idl": L.render(prog), "stage": e.stage, "log": e.log[-2500:]})
        lb.remove()
        return
    try:
        _run_program(ctx, prog, lb, plan, stats, judge_cases, judge_meta, burst_cases, burst_meta)
    finally:
        lb.remove()


def plan_program(rng, P, svcs, plan):
    p = P.p
    sessions = []
    for (fn, sv) in svcs:
        combos = [(t, pr) for t in TRANSPORTS for pr in PROTOS]
        rng.shuffle(combos)
        for (t, pr) in combos[:plan["combos"]]:
            req, calls = plan_session(rng, P, fn, sv, fn, sv, t, pr, plan["per_method"])
            sessions.append((req, calls, fn, sv, fn, sv, t, pr))
        # sessions with tampering of the reply's message header (binary and compact over the in-memory transport)
        for pr in BYTE_LEVEL:
            req, calls = plan_session(rng, P, fn, sv, fn, sv, "mem", pr, plan["per_method"], tamper=True)
            sessions.append((req, calls, fn, sv, fn, sv, "mem", pr))
        # a server that does not know the client's methods: a processor of another service
        mine = {wire_name(m) for _, _, m in L.service_methods(p, fn, sv)}
        for (fn2, sv2) in svcs:
            theirs = {wire_name(m) for _, _, m in L.service_methods(p, fn2, sv2)}
            if not (mine & theirs):
                t, pr = rng.choice(TRANSPORTS), rng.choice(PROTOS)
                req, calls = plan_session(rng, P, fn, sv, fn2, sv2, t, pr, 2)
                sessions.append((req, calls, fn, sv, fn2, sv2, t, pr))
                break
        # a base-service processor behind a derived client: own methods unknown, inherited ones served
        ext = L.find_service(p, fn, sv).get("extends")
        if ext:
            t, pr = rng.choice(TRANSPORTS), rng.choice(PROTOS)
            req, calls = plan_session(rng, P, fn, sv, ext[0], ext[1], t, pr, 2)
            sessions.append((req, calls, fn, sv, ext[0], ext[1], t, pr))
    return sessions


def _run_program(ctx, prog, lb, plan, stats, judge_cases, judge_meta, burst_cases=None, burst_meta=None):
    rng = ctx.rng
    P = Prog(prog, lb)
    p = prog
    svcs = [(fn, s["name"]) for fn in p["order"] for s in p["files"][fn]["services"]]
    sessions = []     # (req, calls, cfn, csvc, sfn, ssvc, transport, proto)
    if plan.get("boundary"):
        fn = p["root"]
        step = plan["boundary"]
        for t in TRANSPORTS:
            for pr in PROTOS:
                k = step if t == "tcp" else step * 5
                off = rng.randrange(k)
                sizes = list(range(3900 + off, 4140, k)) + list(range(8000 + off, 8240, k * 2)) + [0, 1] + \
                    ([65536 + off] if plan.get("huge") else [])
                for i in range(0, len(sizes), 60):
                    req, calls = plan_boundary(rng, P, t, pr, sizes[i:i + 60])
                    sessions.append((req, calls, fn, "Echo", fn, "Echo", t, pr))
        for t, pr in (("mem", "json"), ("http", "json"), ("tcp", "compact")):
            req, calls = plan_boundary(rng, P, t, pr, [-8])
            sessions.append((req, calls, fn, "Echo", fn, "Echo", t, pr))
    else:
        sessions = plan_program(rng, P, svcs, plan)
    t_run = __import__("time").time()
    resps = lb.run([s[0] for s in sessions], timeout=900)
    stats["ms_sessions"] += int(1000 * (__import__("time").time() - t_run))
    per_case = collections.OrderedDict()
    for (req, calls, cfn, csvc, sfn, ssvc, transport, proto), resp in zip(sessions, resps):
        stats["sessions"] += 1
        base = {"program": p["id"], "client": svc_key(cfn, csvc), "server": svc_key(sfn, ssvc),
                "transport": transport, "proto": proto}
        if resp.get("code") != 0 or "calls" not in resp:
            # the session as a whole hung or died: make its calls one by one (fresh server and connection each) so
            # that the failing input is named; if no single call fails, the session failure itself is reported
            before_session = len(ctx.violations)
            t_end = time.time() + 90
            redone = []
            for rq in req["calls"]:
                if time.time() > t_end:
                    break
                one = dict(req)
                one["calls"] = [rq]
                r1 = lb.run([one], timeout=60)[0]
                if r1.get("code") != 0 or not r1.get("calls"):
                    redone.append({"err": "call alone: %s" % str(r1)[:300]})
                else:
                    redone.append(r1["calls"][0])
            stats["sessions_redone_call_by_call"] += 1
            failed_session = (resp, before_session)
            resp = {"code": 0, "calls": redone}
        else:
            failed_session = None
        served = {wire_name(m): (dfn, dsvc, m) for dfn, dsvc, m in L.service_methods(p, sfn, ssvc)}
        for c, rq, o in zip(calls, req["calls"], resp["calls"]):
            stats["calls"] += 1
            stats["transport/" + transport] += 1
            stats["proto/" + proto] += 1
            m = c.m
            rep = dict(base)
            rep.update({"method": m["name"], "call": rq, "observed": o, "idl": L.render(p)})
            if "err" in o or "client" not in o:
                ctx.violation("C03: harness could not make the call: %s" % o.get("err"), rep)
                continue
            c.text = bytes.fromhex(o.get("outcome_text", ""))
            wn = wire_name(m)
            has = wn in served and not c.unwritable
            problems = []
            # --- exactly once, equal arguments
            hl = o.get("handler") or []
            if has:
                if len(hl) != 1:
                    problems.append("handler invoked %d times" % len(hl))
                else:
                    h = hl[0]
                    dfn, dsvc, sm = served[wn]
                    if h["method"] != go_name(sm) or h["service"] != svc_key(dfn, dsvc):
                        problems.append("wrong handler method %s.%s" % (h["service"], h["method"]))
                    seen = [L.from_wire(p, a["type"], j) for a, j in zip(m["args"], h.get("args") or [])]
                    if len(seen) != len(m["args"]) or norm_args(P, m, seen) != norm_args(P, m, c.args):
                        problems.append("handler saw different arguments")
                    c.seen = seen
            elif hl:
                problems.append("handler invoked for a method the processor does not serve")
            # --- the caller's view
            exp = expected_client(P, c, has)
            got = observed_client(P, c, o["client"])
            if getattr(c, "drop", False):
                # the reply was lost with the connection: the handler ran ONCE (checked above) and the caller is told of a failure
                if got[0] in ("ret", "exc"):
                    problems.append("the reply was lost with the connection, yet the caller got %s" % (str(got)[:200],))
                stats["kind/reply-dropped"] += 1
                if problems:
                    ctx.violation("C03: %s over %s/%s: %s" % (m["name"], transport, proto, "; ".join(problems)), rep)
                else:
                    stats["oracle_ok"] += 1
                continue
            if getattr(c, "badret", False) and has and not c.unwritable:
                # the handler ran ONCE (checked above) and returned what cannot be written: one reply frame, a well-formed
                # INTERNAL_ERROR exception (every transport of the lab can drop what it has buffered)
                if got[0] != "appexc" or got[1] != 6:
                    problems.append("the handler's result cannot be written (a union with no member set): the caller got %s, "
                                    "expected an INTERNAL_ERROR application exception" % (str(got)[:300],))
                if len(o.get("replies") or []) != 1:
                    problems.append("a two-way call whose result cannot be written produced %d reply frames" % len(o.get("replies") or []))
                stats["kind/unwritable-result"] += 1
                if problems:
                    ctx.violation("C03: %s over %s/%s: %s" % (m["name"], transport, proto, "; ".join(problems)), rep)
                else:
                    stats["oracle_ok"] += 1
                continue
            if exp == ("refused",):
                if got[0] not in ("protocol", "error"):
                    problems.append("arguments the generated Write cannot emit: caller got %s" % (str(got)[:200],))
                if o.get("replies") or o.get("request"):
                    problems.append("arguments the generated Write cannot emit, yet something was sent")
            elif exp != ("garbled",) and exp != got:
                problems.append("caller got %s, expected %s" % (str(got)[:300], str(exp)[:300]))
            # --- replies
            nrep = len(o.get("replies") or [])
            d = c.desc
            if m["oneway"] and has and d[0] == "ret" and nrep != 0:
                problems.append("a successful oneway call produced %d reply frame(s)" % nrep)
            if not m["oneway"] and nrep != 1 and not c.unwritable:
                problems.append("a two-way call produced %d reply frames" % nrep)
            kind = ("oneway-" if m["oneway"] else "") + ("refused-args" if c.unwritable else "unknown-method" if not has else
                                                          ("tamper" if c.tamper else d[0]))
            stats["kind/" + kind] += 1
            stats["inherited" if not c.own else "own"] += 1
            if problems:
                sig = None
                txt = bytes.fromhex((o.get("client") or {}).get("msg", "") or "")
                if proto == "json" and m["oneway"]:
                    # a oneway caller does not see the error: its text is in the EXCEPTION frame the server sent
                    txt += b"".join(bytes.fromhex(x) for x in o.get("replies") or [])
                if proto == "json" and THRIFT_JSON_SPLIT.search(txt):
                    # Apache Thrift's TSimpleJSONProtocol reads NaN / Infinity / -Infinity with one bufio Read: a token
                    # that straddles the reader's 4096-byte buffer comes back short (known finding, outside /repo)
                    sig = {"class": "thrift_json_special_double_split_at_4096"}
                    stats["known/thrift_json_special_double_split"] += 1
                ctx.violation("C03: %s over %s/%s: %s" % (m["name"], transport, proto, "; ".join(problems)), rep,
                              signature=sig)
                continue
            stats["oracle_ok"] += 1
            # --- judge case
            reqf = bytes.fromhex(o.get("request") or "")
            reps = [bytes.fromhex(x) for x in o.get("replies") or []]
            call_tok = call_token(P, c, o, hl, getattr(c, "seen", None), c.text, cfn, csvc, sfn, ssvc, transport, proto,
                                  reqf, reps)
            if call_tok is None:
                ctx.violation("C03: request frame not recorded / malformed", rep)
                continue
            if proto in BYTE_LEVEL and reqf:
                stats["byte_level/" + proto] += 1
            key = (cfn, csvc, sfn, ssvc)
            per_case.setdefault(key, ([], []))
            per_case[key][0].append(call_tok)
            m2 = dict(rep)
            m2.pop("idl", None)
            per_case[key][1].append(m2)
        # --- the burst: each concurrent call observes what the same call observed alone (which was judged above)
        for b in resp.get("burst") or []:
            stats["burst_calls"] += 1
            i = b["index"]
            if i >= len(resp["calls"]) or "client" not in resp["calls"][i]:
                continue
            alone = resp["calls"][i]
            problems = []
            cb = calls[i]
            # the response headers are the caller's own (C09 under concurrency): the handler names the call it served
            served = (b.get("resp_headers") or {}).get(b"_cid".hex())
            tag = ("c03b%d/%d" % (b.get("round", 0), i)).encode().hex()
            if b.get("handler") and (b.get("client") or {}).get("kind") in ("ret", "declared") and served != tag:
                problems.append("the caller's FContext carries the response headers of another call (_cid = %s, own %s)"
                                % (bytes.fromhex(served).decode("latin1") if served else None, bytes.fromhex(tag).decode()))
            def _noaddr(cl):
                # an undeclared exception's message prints pointer fields as addresses: not part of the outcome
                cl = dict(cl or {})
                if cl.get("kind") == "appexc" and cl.get("msg"):
                    txt = re.sub(rb"0xc[0-9a-f]{6,12}", b"0xPTR", bytes.fromhex(cl["msg"]))
                    if cb.desc[0] == "exc" and cl.get("type") == 6:
                        # ... and fmt prints a map in key order, which for keys holding pointers is the order of the
                        # addresses of this very value (each call raises a fresh one): keep what does not depend on
                        # them, the text up to the exception's first field and its length
                        txt = txt.split(b"(", 1)[0] + b"(...%d" % len(txt)
                    cl["msg"] = txt.hex()
                return cl
            try:
                same = observed_client(P, cb, _noaddr(b.get("client"))) == observed_client(P, cb, _noaddr(alone["client"]))
            except Exception:
                same = b.get("client") == alone["client"]
            if not same:
                problems.append("caller got %s, alone it got %s" % (str(b.get("client"))[:300], str(alone["client"])[:300]))
            def _inv(hs):
                r = []
                for h in hs or []:
                    seen = [L.from_wire(p, a["type"], j) for a, j in zip(cb.m["args"], h.get("args") or [])]
                    r.append((h["service"], h["method"], norm_args(P, cb.m, seen)))
                return r
            hb, ha = _inv(b.get("handler")), _inv(alone.get("handler"))
            if hb != ha:
                problems.append("handler invocations %s, alone %s" % (str(hb)[:200], str(ha)[:200]))
            if problems:
                rep = dict(base)
                rep.update({"method": calls[i].m["name"], "call": req["calls"][i], "burst": req["burst"], "observed": b,
                            "alone": alone, "idl": L.render(p)})
                sig = None
                if proto == "json":
                    # the known finding of Thrift's JSON reader hits a call or not depending on where its special
                    # doubles fall in the stream (the burst's extra header shifts them): alone and burst may differ
                    txts = b""
                    for side in (b, alone):
                        txts += bytes.fromhex(((side.get("client") or {}).get("msg")) or "")
                        txts += b"".join(bytes.fromhex(x) for x in side.get("replies") or [])
                    if THRIFT_JSON_SPLIT.search(txts):
                        sig = {"class": "thrift_json_special_double_split_at_4096"}
                        stats["known/thrift_json_special_double_split"] += 1
                ctx.violation("C03: %s over %s/%s with %d calls in flight through one client: %s" % (
                    calls[i].m["name"], transport, proto, len(req["burst"]), "; ".join(problems)), rep, signature=sig)
            else:
                stats["burst_ok"] += 1
        # --- the burst on the model: one case per round for Judge/JGenCallConc.v (the composition of the registry model
        # with the call model): the hypotheses of c03_concurrent_calls_independent on what travelled (pairwise distinct
        # op ids, replies delivered when alone, only server replies to these calls arrived) and its conclusion (each
        # caller saw what the model gives for its call made alone, on its own request / reply bytes)
        for fr in resp.get("burst_frames") or []:
            rnd = fr.get("round")
            if ctx.tier == "quick" and rnd != 0:
                continue    # quick tier: the direct oracle above sees every round, the model the first one
            bs = [b for b in resp.get("burst") or [] if b.get("round") == rnd and "client" in b and
                  b["index"] < len(resp["calls"]) and "client" in resp["calls"][b["index"]]]
            if len(bs) < 2:
                continue
            if proto == "json":
                txts = b"".join(bytes.fromhex(x) for x in fr.get("replies") or [])
                txts += b"".join(bytes.fromhex((b_.get("client") or {}).get("msg") or "") for b_ in bs)
                if THRIFT_JSON_SPLIT.search(txts):
                    stats["burst_rounds_with_known_thrift_json_finding"] += 1
                    continue    # the round holds a call hit by the known finding of Thrift's JSON reader (reported above)
            by_op_req, by_op_rep = {}, collections.defaultdict(list)
            for x in fr.get("requests") or []:
                fb = bytes.fromhex(x)
                hd = dict((k, v) for k, v in (parse_headers(fb) or []))
                by_op_req[hd.get(b"_opid")] = fb
            for x in fr.get("replies") or []:
                fb = bytes.fromhex(x)
                hd = dict((k, v) for k, v in (parse_headers(fb) or []))
                by_op_rep[hd.get(b"_opid")].append(fb)
            toks, metas, ok = [], [], True
            for b in bs:
                cb = calls[b["index"]]
                op = str(b.get("opid")).encode()
                reqf = by_op_req.get(op, b"")
                reps = by_op_rep.get(op, [])
                hl = b.get("handler") or []
                try:
                    seen = [L.from_wire(p, a["type"], j) for a, j in zip(cb.m["args"], (hl[0].get("args") or []))] if hl else None
                    tok = call_token(P, cb, b, hl, seen, bytes.fromhex(b.get("outcome_text", "")), cfn, csvc, sfn, ssvc,
                                     transport, proto, reqf, reps)
                except Exception as ex:  # noqa  (an observation the oracle above has already reported)
                    tok = None
                if tok is None:
                    ok = False
                    break
                toks.append(tok)
                m2 = dict(base)
                m2.update({"method": cb.m["name"], "call": req["calls"][b["index"]], "observed": b, "round": rnd,
                           "in_flight": len(bs)})
                metas.append(m2)
            if not ok:
                stats["burst_rounds_not_judged"] += 1
                continue
            stats["burst_rounds_judged"] += 1
            stats["burst_rounds/" + transport] += 1
            if burst_cases is not None:
                burst_cases.append([P.env, P.services, toks, [bytes.fromhex(x)[4:] for x in fr.get("replies") or []]])
                burst_meta.append((L.render(p), metas, dict(base, round=rnd)))
        if failed_session is not None and len(ctx.violations) == failed_session[1]:
            rep = dict(base)
            rep.update({"idl": L.render(p), "response": str(failed_session[0])[:1500], "request": req,
                        "note": "every call of the session succeeds when made alone"})
            ctx.violation("C03: session failed (%s/%s): %s" % (transport, proto, str(failed_session[0])[:200]), rep)
    idl = L.render(p)
    for key, (toks, metas) in per_case.items():
        # cases are cut so that one coqc shard stays small
        for i in range(0, len(toks), 150):
            judge_cases.append([P.env, P.services, toks[i:i + 150]])
            judge_meta.append((idl, metas[i:i + 150]))


# ------------------------------------------------------------------------------------------------
# hand-written probes: constructs of valid IDL the seeded generator does not produce

ARG_NAMES = ["err", "result", "args", "ret", "r", "f", "fctx", "fmt", "type", "range", "len", "error"]

PROBES = {
    # the same exception type twice in a throws clause (directly and through a typedef): the processor's type switch
    # must take each Go type once (was: "duplicate case *E in type switch", repaired)
    "dup_exception_type": {
        "idl": "exception E { 1: string why }\ntypedef E EA\n"
               "service S {\n  i32 m(1: i32 x) throws (1: E a, 2: E b, 3: EA c)\n}\n",
        "calls": True},
    # an optional field whose default names a constant: <S>_<F>_DEFAULT is initialised before the constant is
    # (known finding: a field holding zero is not transmitted, the handler sees the declared default)
    "default_from_constant": {
        "idl": "typedef double T\nconst T DC = 100.25\nstruct Opt {\n  1: optional T d = DC\n}\n"
               "service S {\n  i32 pick(1: Opt o)\n}\n",
        "calls": "default_from_constant"},
    # arguments named like identifiers the generator uses itself in the emitted client / processor functions
    # (was a known finding: the emitted Go did not compile; repaired: such a parameter gets a trailing underscore)
    "arg_names_collide": {
        "idl": "service S {\n" + ",\n".join("  string m%d(1: string %s)" % (i, n) for i, n in enumerate(ARG_NAMES)) + "\n}\n",
        "calls": "arg_names"},
}


def run_probes(ctx, tag):
    out = {}
    for name, pr in sorted(PROBES.items()):
        pid = "%s%s" % (tag.replace("_", ""), name.replace("_", ""))
        prog = {"id": pid, "root": pid, "files": {}, "order": []}
        lb = lab.Lab(prog, lab_id=pid, extra_imports=["verifharness/lab/ext_c03"])
        try:
            lb.build(idl_texts={pid + ".frugal": pr["idl"]})
        except lab.LabError as e:
            if e.stage == "go" and "/f_" not in e.log:
                out[name] = "inconclusive: only the lab's own stubs fail to compile"
                lb.remove()
                continue
            out[name] = "build failed (%s)" % e.stage
            ctx.violation("C03 probe %s: valid IDL, the emitted Go does not build (%s)" % (name, e.stage),
                          {"probe": name, "idl": pr["idl"], "stage": e.stage, "log": e.log[-1500:]},
                          signature={"probe": name, "stage": e.stage})
            lb.remove()
            continue
        try:
            out[name] = "builds"
            if pr["calls"] == "default_from_constant":
                zero, other = "0000000000000000", "3ff8000000000000"
                calls = [{"method": "Pick", "args": [{"1": x}], "outcome": {"kind": "ret", "value": 1}} for x in (other, zero)]
                r = lb.run([{"op": "c03_session", "service": pid + ".S", "transport": "mem", "proto": "binary", "calls": calls}])[0]
                seen = [((c.get("handler") or [{}])[0].get("args") or [{}])[0].get("1") for c in r.get("calls", [])]
                if seen != [other, zero]:
                    out[name] = "handler saw %s for %s" % (seen, [other, zero])
                    sig = {"probe": name, "class": "zero_not_transmitted"} if seen == [other, "4059100000000000"] else None
                    ctx.violation("C03 probe %s: Opt{d: 0.0} sent, the handler saw d = %s" % (name, seen[-1:]),
                                  {"probe": name, "idl": pr["idl"], "calls": calls, "seen": seen, "response": str(r)[:1200]},
                                  signature=sig)
            elif pr["calls"] == "arg_names":
                # every method is callable and its argument reaches the handler under whatever name the parameter got
                calls = [{"method": "M%d" % i, "args": [("in-" + n).encode().hex()],
                          "outcome": {"kind": "ret", "value": ("out-" + n).encode().hex()}} for i, n in enumerate(ARG_NAMES)]
                for t in TRANSPORTS[:2]:
                    r = lb.run([{"op": "c03_session", "service": pid + ".S", "transport": t, "proto": "binary", "calls": calls}])[0]
                    got = r.get("calls", [])
                    ok = len(got) == len(calls) and all(
                        (g.get("client") or {}) == {"kind": "ret", "value": c["outcome"]["value"]} and
                        len(g.get("handler") or []) == 1 and (g["handler"][0].get("args") or [None])[0] == c["args"][0]
                        for g, c in zip(got, calls))
                    if not ok:
                        ctx.violation("C03 probe %s over %s: an argument or a result did not arrive" % (name, t),
                                      {"probe": name, "idl": pr["idl"], "transport": t, "response": str(r)[:1500]})
                        out[name] = "call failed"
            elif pr["calls"]:
                why = b"because".hex()
                calls = [{"method": "M", "args": [5], "outcome": {"kind": "declared", "exc": pid + ".E", "value": {"1": why}}},
                         {"method": "M", "args": [6], "outcome": {"kind": "ret", "value": 11}}]
                for t in TRANSPORTS:
                    r = lb.run([{"op": "c03_session", "service": pid + ".S", "transport": t, "proto": "binary", "calls": calls}])[0]
                    got = [(c.get("client") or {}) for c in r.get("calls", [])]
                    ok = len(got) == 2 and got[0].get("kind") == "declared" and got[0].get("exc") == pid + ".E" and \
                        (got[0].get("value") or {}).get("1") == why and got[1] == {"kind": "ret", "value": 11} and \
                        all(len(c.get("handler") or []) == 1 for c in r["calls"])
                    if not ok:
                        ctx.violation("C03 probe %s over %s: the declared exception / value did not reach the caller" % (name, t),
                                      {"probe": name, "idl": pr["idl"], "transport": t, "response": str(r)[:1500]})
                        out[name] = "call failed"
        finally:
            lb.remove()
    return out


TAGS = {1: "value returned", 2: "declared exception", 4: "undeclared error -> INTERNAL_ERROR",
        8: "TApplicationException passed on", 16: "oneway without reply", 32: "oneway with error reply",
        64: "unknown method", 128: "reply rejected (name/type)", 256: "inherited method",
        512: "RESPONSE_TOO_LARGE mapping", 1024: "byte-level replay", 2048: "reply not delivered",
        4096: "arguments refused by the generated Write", 8192: "replayed over the compact codec"}


def run(ctx, br):
    quick = ctx.tier == "quick"
    stats = collections.Counter()
    judge_cases, judge_meta = [], []
    burst_cases, burst_meta = [], []
    tag = "c03_%d" % (ctx.seed % 100000)
    if quick:
        progs = [("boundary", {"boundary": 6}), ("small", {"combos": 6, "per_method": 3}),
                 ("medium", {"combos": 4, "per_method": 2})]
    else:
        progs = [("boundary", {"boundary": 1, "huge": True})] + \
                [(("small", "medium", "large")[i % 3], {"combos": 12, "per_method": 3}) for i in range(9)]
    sizes = collections.Counter()
    nprog = 0
    probes = run_probes(ctx, tag)
    for i, (size, plan) in enumerate(progs):
        pid = "%sp%d" % (tag.replace("_", ""), i)
        if size == "boundary":
            prog = boundary_program(pid)
        else:
            prog = L.gen_program(ctx.rng, pid, size, features={"scopes": False, "consts": True})
        sizes[size] += 1
        before = len(ctx.violations)
        run_program(ctx, prog, "%s_%d" % (tag, i), plan, stats, judge_cases, judge_meta, burst_cases, burst_meta)
        nprog += 1
        if len(ctx.violations) - before > 30:
            break
    # the two judges, the burst cases in two halves: three coqc pipelines side by side
    t_j = __import__("time").time()
    half = (len(burst_cases) + 1) // 2
    jobs = [("JGenCall", judge_cases, "j"), ("JGenCallConc", burst_cases[:half], "jb"),
            ("JGenCallConc", burst_cases[half:], "jc")]
    jres = [None] * len(jobs)

    def _judge(k):
        mod, cs, nm = jobs[k]
        try:
            jres[k] = vlib.run_judge(ctx.rundir, mod, "judge", cs, shard=500000, name=nm) if cs else []
        except Exception as ex:  # noqa
            jres[k] = ex
    ths = [threading.Thread(target=_judge, args=(k,)) for k in range(len(jobs))]
    for th in ths:
        th.start()
    for th in ths:
        th.join()
    for r in jres:
        if isinstance(r, Exception):
            raise r
    verdicts = jres[0]
    stats["ms_judges"] += int(1000 * (__import__("time").time() - t_j))
    mism = 0
    tagbits = collections.Counter()
    validated = 0
    for (idl, metas), v in zip(judge_meta, verdicts):
        if v < 0:
            mism += 1
            rep = dict(metas[-v - 1])
            rep["idl"] = idl
            rep["no_failing_input_found"] = True
            rep["broken"] = "correspondence JGenCall.judge (Model/GenCall.v rpc_call / server_process / process_reply " \
                            "disagrees with the generated code on this call; theorems c03_*)"
            ctx.violation("C03 correspondence: model and generated code disagree (%s over %s/%s)" %
                          (rep.get("method"), rep.get("transport"), rep.get("proto")), rep)
        else:
            validated += len(metas)
            for b in TAGS:
                if v & b:
                    tagbits[TAGS[b]] += 1
    # --- bursts on the composed model
    bverdicts = jres[1] + jres[2]
    BURST_FAIL = {-1001: "op ids of the calls in flight are not pairwise distinct",
                  -1002: "a call's reply would not be delivered to it when made alone (delivered_aloneb)",
                  -1003: "a reply frame travelled that is not the server model's reply to one of the calls in flight (net_okb)",
                  -1000: "burst case malformed"}
    burst_tags = collections.Counter()
    for (idl, metas, bmeta), v in zip(burst_meta, bverdicts):
        if v < 0:
            mism += 1
            if v in BURST_FAIL:
                rep = dict(bmeta)
                rep["calls"] = [dict((k, str(x)[:400]) for k, x in m_.items()) for m_ in metas]
                why = BURST_FAIL[v]
            else:
                rep = dict(metas[-v - 1]) if -v - 1 < len(metas) else dict(bmeta)
                why = "a caller's outcome in the burst is not the model's outcome of the same call made alone"
            rep["idl"] = idl
            rep["no_failing_input_found"] = True
            rep["broken"] = "correspondence JGenCallConc.judge (Model/GenCallConc.v over Model/Registry.v + Model/GenCall.v; " \
                            "theorem c03_concurrent_calls_independent): " + why
            ctx.violation("C03 correspondence (burst, %s over %s/%s): %s" %
                          (rep.get("method", "round %s" % bmeta.get("round")), bmeta.get("transport"), bmeta.get("proto"), why), rep)
        else:
            validated += len(metas)
            burst_tags["registry: hypotheses checked" if v & 16384 else "direct hand-over"] += 1
    ctx.assumptions += [
        "the TJSON codec is Apache Thrift's: calls under it are compared with the model at the level of values "
        "(arguments seen, outcome returned, reply count); byte-level replay of request and reply is done for TBinary and "
        "TCompact (Model/ThriftCompact.v + the compact message envelope of Model/GenCall.v)",
        "brokers and sockets deliver frames unchanged and in order (embedded nats-server, net/http, loopback TCP); "
        "base64 of the HTTP transport is Go's",
        "a nil slice/map/binary argument is the same value as an empty one; set/map order is Go's iteration order",
        "return values and exceptions are values of the declared type (a result the generated Write refuses is C14's subject)",
    ]
    return {
        "evaluations": stats["calls"],
        "distinct_nontrivial": stats["oracle_ok"],
        "rule": "seeded multi-file IDL programs with services (extends across files, oneway, throws); per service sessions over "
                "{mem,tcp,http,nats} x {binary,compact,json}; per method seeded argument tuples and handler outcomes; non-trivial = "
                "one (program, client service, server, transport, protocol, method, arguments, outcome) call whose handler log, "
                "caller outcome and reply count were checked",
        "programs": nprog,
        "probes": probes,
        "program_sizes": dict(sizes),
        "traces_validated_against_impl": validated,
        "judge_cases": len(judge_cases),
        "burst_cases": len(burst_cases),
        "burst_cases_by_kind": dict(burst_tags),
        "judge_mismatches": mism,
        "model_branch_hits": dict(tagbits),
        "input_histogram": dict(stats),
        "samples": [dict((k, str(v)[:300]) for k, v in metas[0].items()) for _, metas in judge_meta[:3]],
    }
