"""C05, the Thrift layer under the Frugal header: hostile Thrift bodies handed to a REAL generated processor
(generated-code laboratory, lab op c05thrift in harness/lab/ext_c05) under TBinaryProtocol and TCompactProtocol;
direct oracle: no panic, no hang, one outcome, allocation bounded by the size of the message; the Coq judge
(Judge/JThriftLayer.v) replays Model/ThriftLayer.v [thrift_layer] / [layer_class] on the same bytes.
Called from props/c05.py."""
import collections
import struct

import lab
import lab_idl as L
import vlib
from props import c03 as C3
from props import headers_common as hc

ALLOC_BASE = 512 * 1024          # bytes a request may allocate whatever its size (contexts, logging, error texts)
ALLOC_PER_BYTE = 160             # ... plus this much per byte received (a compact list<struct> element: 1 byte -> ~56 bytes)
SLOW_US = 2000000
JUDGE_MAX_LEN = 9000             # longer payloads are judged by the oracle only (deep recursion inside coqc)


def _F(i, name, t, mod="default"):
    return {"id": i, "name": name, "mod": mod, "type": t, "default": None}


def fixed_program(pid):
    fn = pid + "a"
    R = lambda n: ["ref", fn, n]  # noqa: E731
    f = {"name": fn, "includes": [], "typedefs": [{"name": "Names", "type": ["list", ["string"]]}],
         "enums": [{"name": "Color", "values": [["RED", 1], ["GREEN", 2], ["BLUE", 5]]}],
         "consts": [], "scopes": [], "decl_order": "natural",
         "structs": [
             {"name": "Node", "kind": "struct", "fields": [
                 _F(1, "next", R("Node"), "optional"), _F(2, "kids", ["list", R("Node")]), _F(3, "label", ["string"])]},
             {"name": "Bag", "kind": "struct", "fields": [
                 _F(1, "names", R("Names")), _F(2, "dict", ["map", ["string"], ["string"]]), _F(3, "nums", ["set", ["i64"]]),
                 _F(4, "flags", ["list", ["bool"]]), _F(5, "deep", ["map", ["i32"], ["list", R("Node")]]),
                 _F(6, "blob", ["binary"], "optional"), _F(7, "id", ["i32"], "required")]},
             {"name": "Pick", "kind": "union", "fields": [
                 _F(1, "n", ["i32"], "optional"), _F(2, "s", ["string"], "optional"), _F(3, "node", R("Node"), "optional")]},
         ],
         "services": [
             {"name": "Hostile", "extends": None, "methods": [
                 {"name": "walk", "oneway": False, "ret": ["i32"], "args": [_F(1, "n", R("Node"))], "throws": []},
                 {"name": "fill", "oneway": False, "ret": ["i32"], "args": [_F(1, "b", R("Bag")), _F(2, "xs", ["list", ["i16"]])],
                  "throws": []},
                 {"name": "poke", "oneway": False, "ret": None,
                  "args": [_F(1, "f", ["bool"]), _F(2, "y", ["byte"]), _F(3, "d", ["double"]), _F(4, "big", ["i64"]),
                           _F(5, "p", R("Pick")), _F(6, "c", R("Color"))], "throws": []},
                 {"name": "grid", "oneway": False, "ret": ["string"],
                  "args": [_F(1, "g", ["list", ["list", ["bool"]]]),
                           _F(2, "m", ["map", ["string"], ["map", ["i32"], ["set", ["string"]]]])], "throws": []},
                 {"name": "note", "oneway": True, "ret": None, "args": [_F(1, "msg", ["string"])], "throws": []},
             ]},
         ]}
    return {"id": pid, "root": fn, "order": [fn], "files": {fn: f}}


# ------------------------------------------------------------------------------------------------
# reference encoders of this file (independent of implementation and model)

def i16(n):
    return struct.pack(">h", n)


def i32(n):
    return struct.pack(">i", n) if n < 0x80000000 else struct.pack(">I", n)


def varint(u):
    out = bytearray()
    while u >= 0x80:
        out.append((u & 0x7f) | 0x80)
        u >>= 7
    out.append(u)
    return bytes(out)


def zz(n):
    return (n << 1) ^ (n >> 63)


class Bin:
    name = "binary"
    code = 0
    T = {"bool": 2, "byte": 3, "double": 4, "i16": 6, "i32": 8, "i64": 10, "string": 11, "struct": 12, "map": 13, "set": 14,
         "list": 15}

    @staticmethod
    def msg(name, mtype=1, seq=0):
        return struct.pack(">I", 0x80010000 | mtype) + i32(len(name)) + name + i32(seq)

    @staticmethod
    def fld(t, fid, last=0):
        return bytes([Bin.T[t] if isinstance(t, str) else t]) + i16(fid)

    @staticmethod
    def lst(t, n):
        return bytes([Bin.T[t] if isinstance(t, str) else t]) + i32(n & 0xffffffff)

    @staticmethod
    def mp(kt, vt, n):
        return bytes([Bin.T[kt], Bin.T[vt]]) + i32(n & 0xffffffff)

    @staticmethod
    def string(s):
        return i32(len(s)) + s

    @staticmethod
    def strsize(n):
        return i32(n & 0xffffffff)

    @staticmethod
    def i32v(n):
        return i32(n & 0xffffffff)

    @staticmethod
    def i64v(n):
        return struct.pack(">q", n)

    @staticmethod
    def boolv(b):
        return b"\x01" if b else b"\x00"

    stop = b"\x00"


class Compact:
    name = "compact"
    code = 1
    T = {"bool": 1, "byte": 3, "i16": 4, "i32": 5, "i64": 6, "double": 7, "string": 8, "list": 9, "set": 10, "map": 11,
         "struct": 12}

    @staticmethod
    def msg(name, mtype=1, seq=0):
        return bytes([0x82, 1 | ((mtype & 7) << 5)]) + varint(seq) + varint(len(name)) + name

    @staticmethod
    def fld(t, fid, last=0):
        ct = Compact.T[t] if isinstance(t, str) else t
        d = fid - last
        if 0 < d <= 15:
            return bytes([(d << 4) | ct])
        return bytes([ct]) + varint(zz(fid) & 0xffffffff)

    @staticmethod
    def lst(t, n):
        ct = Compact.T[t] if isinstance(t, str) else t
        if 0 <= n < 15:
            return bytes([(n << 4) | ct])
        return bytes([0xf0 | ct]) + varint(n & 0xffffffff)

    @staticmethod
    def mp(kt, vt, n):
        if n == 0:
            return b"\x00"
        return varint(n & 0xffffffff) + bytes([(Compact.T[kt] << 4) | Compact.T[vt]])

    @staticmethod
    def string(s):
        return varint(len(s)) + s

    @staticmethod
    def strsize(n):
        return varint(n & 0xffffffff)

    @staticmethod
    def i32v(n):
        return varint(zz(n) & 0xffffffff)

    @staticmethod
    def i64v(n):
        return varint(zz(n) & 0xffffffffffffffff)

    @staticmethod
    def boolv(b):
        return b"\x01" if b else b"\x02"

    stop = b"\x00"


PROTOS = [Bin, Compact]
HEADER = hc.ref_marshal([(b"_opid", b"7"), (b"_cid", b"c05")])
SIZES = [0, 1, 2, 3, 14, 15, 16, 127, 128, 1000, 65535, 1 << 20, 16384000, 104857600, 104857601, (1 << 31) - 1, 1 << 31,
         (1 << 32) - 1, (1 << 32) - 2]


# ------------------------------------------------------------------------------------------------
# hostile bodies (the bytes after the message header), per protocol

def nest_next(P, k, closed=True):
    """walk args: Node with k more Nodes nested through field 1 (structs open: k + 2)"""
    b = P.fld("struct", 1) + P.fld("struct", 1) * k
    return b + (P.stop * (k + 2) if closed else b"")


def nest_kids(P, k, closed=True):
    """walk args: Node.kids = [Node.kids = [...]] k levels"""
    b = P.fld("struct", 1)
    for _ in range(k):
        b += P.fld("list", 2) + P.lst("struct", 1)
    return b + (P.stop * (k + 2) if closed else b"")


def nest_unknown(P, k, closed=True):
    """walk args: unknown field 99 holding structs nested k deep (thrift.Skip's own depth limit)"""
    b = P.fld("struct", 99) + P.fld("struct", 1) * k
    return b + (P.stop * (k + 2) if closed else b"")


def nest_unknown_lists(P, k):
    """unknown field holding list<list<...<byte>>> k deep, one element each"""
    b = P.fld("list", 98)
    for _ in range(k):
        b += P.lst("list", 1)
    return b + P.lst("byte", 1) + b"\x07" + P.stop


def bag_container(P, fid, n, tail):
    """fill args: Bag (field 1) whose container field [fid] announces n elements, followed by [tail]"""
    kinds = {1: lambda: P.fld("list", 1) + P.lst("string", n),
             2: lambda: P.fld("map", 2) + P.mp("string", "string", n),
             3: lambda: P.fld("set", 3) + P.lst("i64", n),
             4: lambda: P.fld("list", 4) + P.lst("bool", n),
             5: lambda: P.fld("map", 5) + P.mp("i32", "list", n)}
    return P.fld("struct", 1) + kinds[fid]() + tail


def elem_bytes(P, fid, count):
    one = {1: P.string(b"ab"), 2: P.string(b"k") + P.string(b"v"), 3: P.i64v(5), 4: P.boolv(True),
           5: P.i32v(1) + P.lst("struct", 0)}[fid]
    return one * count


def hostile_bodies(rng, P, quick):
    out = []      # (label, method wire name, body)
    deep = [0, 1, 2, 30, 61, 62, 63, 64, 65, 66, 100, 500, 2000]
    for k in deep:
        out.append(("nest_next", b"walk", nest_next(P, k)))
        out.append(("nest_next_open", b"walk", nest_next(P, k, False)))
        out.append(("nest_kids", b"walk", nest_kids(P, k)))
        if k <= 100:
            out.append(("nest_unknown", b"walk", nest_unknown(P, k)))
            out.append(("nest_unknown_open", b"walk", nest_unknown(P, k, False)))
            out.append(("nest_unknown_lists", b"walk", nest_unknown_lists(P, k)))
    # lying container sizes, with nothing / a few elements / exactly enough / many zero bytes behind them
    for fid in (1, 2, 3, 4, 5):
        for n in SIZES:
            out.append(("size_nothing", b"fill", bag_container(P, fid, n, b"")))
            out.append(("size_few", b"fill", bag_container(P, fid, n, elem_bytes(P, fid, 2))))
            if n <= 16:
                exact = elem_bytes(P, fid, n)
                out.append(("size_exact", b"fill", bag_container(P, fid, n, exact + P.stop + P.stop)))
                out.append(("size_exact_cut", b"fill", bag_container(P, fid, n, exact)))
                if exact:
                    out.append(("size_one_short", b"fill", bag_container(P, fid, n, exact[:-1])))
            if n in (1000, 65535):
                out.append(("size_zeros", b"fill", bag_container(P, fid, n, b"\x00" * n)))
                out.append(("size_zeros_short", b"fill", bag_container(P, fid, n, b"\x00" * (n - 1))))
    # string / binary sizes
    for n in SIZES:
        out.append(("strsize", b"note", P.fld("string", 1) + P.strsize(n) + b"abc"))
        out.append(("binsize", b"fill", P.fld("struct", 1) + P.fld("string", 6) + P.strsize(n) + b"abc"))
    # lying field types: every wire type code at every declared id of fill / poke / grid
    for meth, ids in ((b"fill", (1, 2)), (b"poke", (1, 2, 3, 4, 5, 6)), (b"grid", (1, 2)), (b"walk", (1,))):
        for fid in ids:
            for t in range(0, 17):
                tail = rng.choice([b"", b"\x00", b"\x01\x00", b"\x00" * 9, b"\x02\x11\x01\x00\x00"])
                if P is Compact and t > 15:
                    continue
                out.append(("lying_type", meth, P.fld(t, fid) + tail))
    # unknown field ids with every type code (Skip) incl. codes no TType has
    for t in list(range(0, 20)) + [0x63, 0x7f, 0x80, 0xff]:
        if P is Compact:
            b = bytes([t & 0x0f]) + varint(zz(77)) if t < 16 else bytes([t])
        else:
            b = bytes([t & 0xff]) + i16(77)
        for tail in (b"", b"\x00", b"\x05\x00\x00\x00\x00\x00\x00\x00\x00\x00"):
            out.append(("unknown_field", b"poke", b + tail))
    if P is Compact:
        # the pending bool of a field header: a bool-typed header on a list<bool> / list<list<bool>> field
        for n in (0, 1, 2, 3, 5):
            for extra in (0, 1):
                body = P.fld("struct", 1) + bytes([(4 << 4) | 1]) + P.lst("bool", n) + b"\x01" * max(0, n - 1 + extra)
                out.append(("pending_bool", b"fill", body + P.stop + P.stop))
                out.append(("pending_bool", b"fill", body))
        out.append(("pending_bool", b"grid", bytes([(1 << 4) | 2]) + P.lst("list", 1) + P.lst("bool", 2) + b"\x01" + P.stop))
        # varints: long, over-long, never-ending
        for v in (b"\xff" * 4 + b"\x0f", b"\xff" * 4 + b"\x7f", b"\xff" * 9 + b"\x01", b"\xff" * 10 + b"\x01", b"\xff" * 40,
                  b"\x80" * 30 + b"\x00", b"\x80\x80\x80\x80\x10"):
            out.append(("varint", b"fill", P.fld("struct", 1) + bytes([(1 << 4) | 9, 0xf8]) + v))
            out.append(("varint", b"poke", bytes([(4 << 4) | 6]) + v + P.stop))
            out.append(("varint", b"fill", P.fld("struct", 1) + bytes([(2 << 4) | 11]) + v + b"\x88"))
            out.append(("varint", b"note", P.fld("string", 1) + v))
            out.append(("varint", b"poke", bytes([5]) + v))            # long-form field id
    # union and required-field violations, enum out of range, double
    out.append(("union_none", b"poke", P.fld("struct", 5) + P.stop + P.stop))
    out.append(("union_two", b"poke", P.fld("struct", 5) + P.fld("i32", 1) + P.i32v(1) + P.fld("string", 2, 1) + P.string(b"x")
                + P.stop + P.stop))
    out.append(("required_missing", b"fill", P.fld("struct", 1) + P.stop + P.stop))
    out.append(("required_present", b"fill", P.fld("struct", 1) + P.fld("i32", 7) + P.i32v(-1) + P.stop + P.stop))
    # many sibling structs (the nesting count must come down again after each): Node.kids = n empty Nodes, twice
    for n in (1, 63, 64, 65, 200):
        kids = P.fld("list", 2) + P.lst("struct", n) + P.stop * n
        out.append(("siblings", b"walk", P.fld("struct", 1) + kids + P.stop + P.stop))
        out.append(("siblings", b"walk", P.fld("struct", 1) + P.fld("struct", 1) + kids + P.stop
                    + P.fld("list", 2, 1) + P.lst("struct", n) + P.stop * n + P.stop + P.stop))
    out.append(("empty_args", b"walk", P.stop))
    out.append(("no_stop", b"walk", b""))
    return out


def mutations(rng, P, bodies, n):
    """truncation at every byte, bit flips, splices of the closed (well-formed) bodies"""
    good = [b for b in bodies if 4 <= len(b[2]) <= 80]
    out = []
    for (lab_, meth, body) in rng.sample(good, min(len(good), 12)):
        for cut in range(len(body)):
            out.append(("truncate", meth, body[:cut]))
    for _ in range(n):
        lab_, meth, body = rng.choice(good)
        b = bytearray(body)
        r = rng.random()
        if r < 0.5:
            for _ in range(rng.randrange(1, 4)):
                b[rng.randrange(len(b))] ^= 1 << rng.randrange(8)
        elif r < 0.8:
            o = rng.choice(good)[2]
            i, j = rng.randrange(len(b)), rng.randrange(len(o))
            b[i:i + rng.randrange(1, 6)] = o[j:j + rng.randrange(1, 8)]
        else:
            b[rng.randrange(len(b))] = rng.choice([0, 1, 0x0c, 0x0f, 0x1c, 0x7f, 0x80, 0xf8, 0xff])
        out.append(("mutate", meth, bytes(b)))
    return out


def message_headers(rng, P):
    """hostile message headers in front of a well-formed body"""
    out = []
    body = nest_next(P, 1)
    m = P.msg(b"walk")
    for cut in range(len(m)):
        out.append(("msg_truncated", m[:cut]))
    if P is Bin:
        for n in (-1, -2, 0x7fffffff, 5, 3, 0, 100):
            out.append(("msg_name_size", struct.pack(">I", 0x80010001) + struct.pack(">i", n) + b"walk" + i32(0) + body))
        out.append(("msg_bad_version", struct.pack(">I", 0x80020001) + i32(4) + b"walk" + i32(0) + body))
        out.append(("msg_old_style", i32(4) + b"walk" + b"\x01" + i32(0) + body))
        out.append(("msg_old_style_big", i32(0x7fffffff) + b"walk" + b"\x01" + i32(0) + body))
        for t in (0, 2, 3, 4, 5, 0xff):
            out.append(("msg_type", struct.pack(">I", 0x80010000 | t) + i32(4) + b"walk" + i32(0) + body))
    else:
        out.append(("msg_bad_pid", b"\x81\x21\x00\x04walk" + body))
        out.append(("msg_bad_version", b"\x82\x22\x00\x04walk" + body))
        for n in (b"\xff\xff\xff\xff\x0f", b"\xff\xff\xff\xff\x07", b"\x05", b"\x03", b"\x00", b"\x64", b"\xff" * 30):
            out.append(("msg_name_size", b"\x82\x21\x00" + n + b"walk" + body))
        out.append(("msg_seq_long", b"\x82\x21" + b"\xff" * 12 + b"\x01\x04walk" + body))
        for t in (0, 2, 3, 4, 5, 7):
            out.append(("msg_type", bytes([0x82, 1 | (t << 5)]) + b"\x00\x04walk" + body))
    for name in (b"", b"Walk", b"walk\x00", b"nosuch", b"w" * 300):
        out.append(("msg_name", P.msg(name) + body))
    return out


# ------------------------------------------------------------------------------------------------
# reading replies (reference reader of this file): -> TApplicationException type id or None

def exception_type(P, reply):
    parsed = hc.ref_parse(reply)
    if parsed is None:
        return None
    rest = parsed[1]
    try:
        if P is Bin:
            if len(rest) < 8:
                return None
            ver = struct.unpack(">I", rest[:4])[0]
            n = struct.unpack(">i", rest[4:8])[0]
            mtype = ver & 0xff
            i = 8 + n + 4
            if mtype != 3:
                return ("reply", mtype)
            while i < len(rest):
                t = rest[i]
                if t == 0:
                    return None
                fid = struct.unpack(">h", rest[i + 1:i + 3])[0]
                i += 3
                if t == 11:
                    ln = struct.unpack(">i", rest[i:i + 4])[0]
                    i += 4 + ln
                elif t == 8:
                    v = struct.unpack(">i", rest[i:i + 4])[0]
                    if fid == 2:
                        return ("exc", v)
                    i += 4
                else:
                    return None
            return None
        if rest[0] != 0x82:
            return None
        mtype = (rest[1] >> 5) & 7
        i = 2

        def rv(i):
            u, sh = 0, 0
            while True:
                x = rest[i]
                i += 1
                u |= (x & 0x7f) << sh
                sh += 7
                if x < 0x80:
                    return u, i
        _, i = rv(i)
        n, i = rv(i)
        i += n
        if mtype != 3:
            return ("reply", mtype)
        last = 0
        while i < len(rest):
            h = rest[i]
            i += 1
            if h & 0x0f == 0:
                return None
            d = h >> 4
            if d == 0:
                z, i = rv(i)
                fid = (z >> 1) ^ -(z & 1)
            else:
                fid = last + d
            last = fid
            ct = h & 0x0f
            if ct == 8:
                ln, i = rv(i)
                i += ln
            elif ct == 5:
                z, i = rv(i)
                v = (z >> 1) ^ -(z & 1)
                if fid == 2:
                    return ("exc", v)
            else:
                return None
    except (IndexError, struct.error):
        return None
    return None


def observed_class(P, payload, o, go2wire):
    """-> (class, wire name of the invoked method) ; class -1 = none of the expected outcomes"""
    inv = o.get("invoked") or []
    reply = bytes.fromhex(o.get("reply") or "")
    if len(inv) > 1:
        return -1, b""
    if inv:
        return 3, go2wire.get(inv[0], inv[0].encode())
    if reply:
        et = exception_type(P, reply)
        if et == ("exc", 1):
            return 1, b""
        if et == ("exc", 7):
            return 2, b""
        return -1, b""
    if o.get("err", 0) != 0:
        return 0, b""
    return -1, b""


def run_payloads(lb, skey, P, payloads, mode="direct", canary=b"", batch=400):
    """-> one observation per payload; a payload that kills the driver process or trips the driver's own 20 s guard is
    found by re-running its batch one payload at a time and gets {"died": text} / {"hang": True}"""
    def req(ps, tmo):
        return {"op": "c05thrift", "service": skey, "proto": P.name, "mode": mode, "canary": canary.hex(),
                "payloads": [p.hex() for p in ps], "timeout_ms": tmo}
    out = []
    groups = []
    cur = []
    for p in payloads:
        if len(p) > 20000:
            if cur:
                groups.append(cur)
                cur = []
            groups.append([p])
        else:
            cur.append(p)
            if len(cur) >= batch:
                groups.append(cur)
                cur = []
    if cur:
        groups.append(cur)
    resps = lb.run([req(g, 8000) for g in groups], timeout=1500)
    for g, r in zip(groups, resps):
        obs = r.get("obs") or []
        if r.get("code", 0) == 0 and len(obs) == len(g):
            out.extend(obs)
            continue
        for p in g:                                   # find the culprit
            r1 = lb.run([req([p], 8000)], timeout=120)[0]
            o1 = r1.get("obs") or []
            if r1.get("code", 0) == 0 and len(o1) == 1:
                out.append(o1[0])
            elif r1.get("code") == 102 or r1.get("stopped"):
                out.append({"hang": True})
            else:
                out.append({"died": str(r1.get("panic") or r1.get("err") or r1)[:600]})
    return out


# ------------------------------------------------------------------------------------------------

def run(ctx):
    quick = ctx.tier == "quick"
    rng = ctx.rng
    tag = "c05t%d" % (ctx.seed % 100000)
    prog = fixed_program(tag + "p")
    fn = prog["order"][0]
    lb = lab.Lab(prog, lab_id=tag, extra_imports=["verifharness/lab/ext_c05"])
    stats = collections.Counter()
    hist = collections.Counter()
    oracle_failures = mism = validated = 0
    tags_seen = set()
    samples = []
    try:
        try:
            lb.build()
        except lab.LabError as e:
            raise RuntimeError("lab build failed (%s): %s" % (e.stage, e.log[-2000:]))
        P3 = C3.Prog(prog, lb)
        svc = prog["files"][fn]["services"][0]
        skey = C3.svc_key(fn, svc["name"])
        sid = P3.sids[(fn, svc["name"])]
        go2wire = {C3.go_name(m): C3.wire_name(m).encode() for m in svc["methods"]}
        judge_payloads = []
        judge_meta = []
        for P in PROTOS:
            bodies = hostile_bodies(rng, P, quick)
            bodies += mutations(rng, P, [b for b in bodies if b[0] in ("nest_next", "nest_kids", "size_exact", "union_two",
                                                                       "required_present", "nest_unknown", "pending_bool")],
                                300 if quick else 20000)
            payloads = []
            for (label, meth, body) in bodies:
                payloads.append((label, HEADER + P.msg(meth) + body))
                if label in ("nest_unknown", "nest_unknown_open", "size_nothing", "lying_type", "truncate") and rng.random() < 0.25:
                    payloads.append((label + "_unknown_fn", HEADER + P.msg(b"nosuch") + body))     # Skip(STRUCT) on the same bytes
            for (label, msg) in message_headers(rng, P):
                payloads.append((label, HEADER + msg))
            for _ in range(60 if quick else 3000):
                payloads.append(("random", HEADER + bytes(rng.randrange(256) for _ in range(rng.randrange(0, 24)))))
                payloads.append(("random_after_msg", HEADER + P.msg(rng.choice([b"walk", b"fill", b"poke", b"grid", b"note"]))
                                 + bytes(rng.choice([0, 1, 2, 8, 11, 12, 13, 15, 0x19, 0x1c, 0x2b, 0xf8, 0xff, rng.randrange(256)])
                                         for _ in range(rng.randrange(0, 30)))))
            payloads.append(("bad_header", b"\x00\x00\x00\x00\x09" + P.msg(b"walk") + nest_next(P, 0)))
            payloads.append(("no_opid", hc.ref_marshal([(b"_cid", b"x")]) + P.msg(b"walk") + nest_next(P, 0)))
            # the inputs that killed or wedged the process before the two repairs (oracle only: too long for coqc)
            big = [("deep_1m_closed", HEADER + P.msg(b"walk") + nest_next(P, 1000000 if not quick else 200000)),
                   ("deep_100k_open", HEADER + P.msg(b"walk") + nest_next(P, 100000, False)),
                   ("deep_kids_100k", HEADER + P.msg(b"walk") + nest_kids(P, 100000, False))]
            allp = payloads + big
            obs = run_payloads(lb, skey, P, [p for (_, p) in allp])
            for (label, payload), o in zip(allp, obs):
                stats["payloads"] += 1
                hist["%s/%s" % (P.name, label)] += 1
                cls, wname = observed_class(P, payload, o, go2wire)
                bound = ALLOC_BASE + ALLOC_PER_BYTE * len(payload)
                what = None
                if o.get("died"):
                    what = "the process died: " + o["died"][-300:]
                elif o.get("panic"):
                    what = "Go panic: " + o["panic"][:200]
                elif o.get("hang"):
                    what = "no return within the watchdog"
                elif o.get("us", 0) > SLOW_US:
                    o2 = run_payloads(lb, skey, P, [payload])[0]
                    if o2.get("hang") or o2.get("us", 0) > SLOW_US:
                        what = "took %d us (again alone: %s us)" % (o["us"], o2.get("us"))
                elif o.get("alloc", 0) > bound:
                    what = "allocated %d bytes for a message of %d bytes (bound %d)" % (o["alloc"], len(payload), bound)
                elif cls < 0:
                    what = "none of: handler ran once / UNKNOWN_METHOD reply / PROTOCOL_ERROR reply / error without reply"
                if what is not None:
                    oracle_failures += 1
                    ctx.violation("C05 thrift layer (generated processor, %s): %s" % (P.name, what),
                                  {"proto": P.name, "label": label, "payload_hex": payload.hex()[:4000], "payload_len": len(payload),
                                   "service": skey, "observed": {k2: (v if not isinstance(v, str) else v[:300]) for k2, v in o.items()}},
                                  signature={"kind": "thrift_layer_oracle", "proto": P.name, "label": label})
                    continue
                stats["class_%d" % cls] += 1
                if len(payload) <= JUDGE_MAX_LEN:
                    judge_payloads.append([P.code, payload, cls, wname])
                    judge_meta.append((P.name, label, payload, o))
                if len(samples) < 6 and label in ("nest_next", "size_nothing", "pending_bool", "msg_name_size") and rng.random() < 0.1:
                    samples.append({"proto": P.name, "label": label, "payload": payload.hex()[:160], "class": cls,
                                    "alloc": o.get("alloc"), "us": o.get("us")})
            # through a real FSimpleServer: the connection is answered or closed, and the server still serves
            canary = HEADER + P.msg(b"walk") + nest_next(P, 0)
            sel = [p for p in payloads if p[0] in ("nest_next", "size_nothing", "lying_type", "msg_truncated", "random", "varint",
                                                   "nest_unknown", "bad_header", "truncate")]
            sel = rng.sample(sel, min(len(sel), 60 if quick else 1500)) + [big[1]]
            sobs = run_payloads(lb, skey, P, [p for (_, p) in sel], mode="simple", canary=canary, batch=40)
            for (label, payload), o in zip(sel, sobs):
                stats["simple_payloads"] += 1
                what = None
                if o.get("died"):
                    what = "the server process died: " + o["died"][-300:]
                elif o.get("hang"):
                    what = "connection neither answered nor closed"
                elif o.get("canary") != 1:
                    what = "the server did not answer a well-formed request on a new connection afterwards"
                elif not (o.get("reply") or o.get("closed")):
                    what = "unexpected end: %s" % o.get("errtext")
                if what is not None:
                    oracle_failures += 1
                    ctx.violation("C05 thrift layer (FSimpleServer, generated processor, %s): %s" % (P.name, what),
                                  {"proto": P.name, "label": label, "payload_hex": payload.hex()[:4000], "service": skey,
                                   "observed": {k2: (v if not isinstance(v, str) else v[:300]) for k2, v in o.items()}},
                                  signature={"kind": "thrift_layer_simple", "proto": P.name, "label": label})
                else:
                    stats["simple_answered" if o.get("reply") else "simple_closed"] += 1
        # ---- TJSONProtocol (no Coq model; direct oracle only): containers announcing far more elements than the message
        # could hold, truncated at every point, deep nesting
        class _J:
            name = "json"
        jmsgs = []
        for big_n in (5000, 104857600, 2147483647):
            jmsgs += [b'[1,"fill",1,0,{"1":{"rec":{"1":{"lst":["str",%d' % big_n,
                      b'[1,"fill",1,0,{"1":{"rec":{"2":{"map":["str","str",%d,{' % big_n,
                      b'[1,"fill",1,0,{"1":{"rec":{"3":{"set":["i64",%d' % big_n,
                      b'[1,"fill",1,0,{"2":{"lst":["i16",%d' % big_n,
                      b'[1,"grid",1,0,{"1":{"lst":["lst",%d,["tf",%d' % (big_n, big_n),
                      b'[1,"nosuch",1,0,{"9":{"lst":["str",%d' % big_n]
        # sizes that are not what they look like in 32 bits: negative, and 64-bit numbers whose low word is a small
        # non-negative int32 (TJSONProtocol checks the int32 and returns the int)
        for odd_n in (-1, -5000, -4294967295, -4294967296 + 5000, 4294967297, 4294967296 + 5000, -2147483648,
                      9223372036854775807, -9223372036854775808, -9223372036854775807):
            jmsgs += [b'[1,"fill",1,0,{"1":{"rec":{"1":{"lst":["str",%d' % odd_n,
                      b'[1,"fill",1,0,{"1":{"rec":{"1":{"lst":["str",%d,"a","b"]}}}}]' % odd_n,
                      b'[1,"fill",1,0,{"1":{"rec":{"2":{"map":["str","str",%d,{"a":"b"}]}}}}]' % odd_n,
                      b'[1,"fill",1,0,{"1":{"rec":{"3":{"set":["i64",%d,1,2]}}}}]' % odd_n,
                      b'[1,"fill",1,0,{"2":{"lst":["i16",%d,1]}}]' % odd_n,
                      b'[1,"nosuch",1,0,{"9":{"lst":["str",%d,"x"]}}]' % odd_n]
        whole = b'[1,"fill",1,0,{"1":{"rec":{"1":{"lst":["str",2,"a","b"]},"7":{"i32":5}}},"2":{"lst":["i16",1,3]}}]'
        jmsgs += [whole[:k] for k in range(0, len(whole) + 1, 3)]
        jmsgs += [b'[1,"walk",1,0,{"1":{"rec":' + b'{"1":{"rec":' * k for k in (10, 63, 64, 65, 500, 20000)]
        jobs_ = run_payloads(lb, skey, _J, [HEADER + m for m in jmsgs])
        for m, o in zip(jmsgs, jobs_):
            stats["json_payloads"] += 1
            payload = HEADER + m
            bound = ALLOC_BASE + ALLOC_PER_BYTE * len(payload)
            what = None
            if o.get("died"):
                what = "the process died: " + o["died"][-300:]
            elif o.get("panic"):
                what = "Process panicked: " + o["panic"][:300]
            elif o.get("hang"):
                what = "no outcome within the watchdog"
            elif o.get("alloc", 0) > bound:
                what = "allocated %d bytes for a message of %d bytes (bound %d)" % (o["alloc"], len(payload), bound)
            if what is not None:
                oracle_failures += 1
                ctx.violation("C05 thrift layer (generated processor, json): %s" % what,
                              {"proto": "json", "payload": m.decode("latin1")[:300], "payload_len": len(payload), "service": skey,
                               "observed": {k2: (v if not isinstance(v, str) else v[:300]) for k2, v in o.items()}},
                              signature={"kind": "thrift_layer_oracle", "proto": "json"})
        # ---- correspondence: the Coq model replays every payload
        CH = 400
        cases, metas = [], []
        for i in range(0, len(judge_payloads), CH):
            cases.append([P3.env, P3.services, sid, judge_payloads[i:i + CH]])
            metas.append(judge_meta[i:i + CH])
        verdicts = vlib.run_judge(ctx.rundir, "JThriftLayer", "judge", cases, shard=600000, name="jt") if cases else []
        for case, meta, v in zip(cases, metas, verdicts):
            if v >= 0:
                validated += len(meta)
                for bit in (1, 2, 4, 8, 16, 32, 64):
                    if v & bit:
                        tags_seen.add(bit)
                continue
            mism += 1
            k = -v - 1
            pname, label, payload, o = meta[min(k, len(meta) - 1)]
            validated += k
            ctx.violation("C05 thrift layer: the model (Model/ThriftLayer.v layer_class) does not reproduce what the real generated "
                          "processor did with this request",
                          {"proto": pname, "label": label, "payload_hex": payload.hex()[:4000], "service": skey,
                           "observed": {k2: (v2 if not isinstance(v2, str) else v2[:300]) for k2, v2 in o.items()},
                           "no_failing_input_found": True, "broken": "JThriftLayer / c05_thrift_layer_graceful_*"},
                          signature={"kind": "thrift_layer_judge", "proto": pname, "label": label})
    finally:
        lb.remove()
    distinct = len(hist)
    return {"evaluations": stats["payloads"] + stats["simple_payloads"], "distinct": stats["payloads"],
            "validated": validated, "mismatches": mism, "oracle_failures": oracle_failures,
            "classes": {k: v for k, v in stats.items()}, "labels": distinct, "model_branch_tags": sorted(tags_seen),
            "histogram": dict(hist), "samples": samples,
            "rule": "request payloads (Frugal header + message header + body) for a generated processor of a service with a "
                    "recursive struct, containers of every kind, a union, an enum and a oneway method, under binary and compact: "
                    "struct nesting 0..2000 (and 10^5 / 10^6, oracle only) through known fields, lists and unknown fields; every "
                    "container field announcing %d sizes incl. 2^31-1, 2^32-1, the message limit +-1, followed by nothing / a few / "
                    "exactly enough / one byte too few; string sizes; every type code at every declared field id; unknown ids of "
                    "every type code; compact pending-bool headers and long varints; union / required violations; truncation at "
                    "every byte, bit flips and splices of well-formed bodies; hostile message headers; random bytes; the same "
                    "bodies under an unknown function name (Skip). distinct by (protocol, payload)" % len(SIZES)}
