"""C19 — code generation is deterministic and location-independent.

Exploration: seeded multi-file IDL programs (many includes / scopes / services / enums, files
in sub-directories, same-named modules in different directories, vendored includes) are
compiled with the real compiler for every target / option set (java:generated_annotations=use
excepted) repeatedly in fresh processes, from different working directories, with the sources
at different absolute roots and with different -out directories, and again several times inside
one process (global state reset); sha256 of every emitted file is compared (direct oracle).
Correspondence: the harness reports, from the real parser / compiler, the scope order after
parsing, the order in which files are handed to the generator, the HTML generator's module
list, every generator's output directory and the Python __init__ chain; the Coq judge
(Judge/JMapOrder.v) replays them on Model/MapOrder.v.
"""
import hashlib
import json
import os
import shutil
import subprocess
from concurrent.futures import ThreadPoolExecutor

import vlib

HARNESS_BINS = ["vh_c19"]
NEEDS_FRUGAL = True

GENS = [
    "go", "go:package_prefix=example.com/gen/", "go:async,slim", "go:use_vendor",
    "java", "java:generated_annotations=undated", "java:async,boxed_primitives", "java:use_vendor",
    "py", "py:tornado", "py:asyncio", "py:package_prefix=pre.fix.",
    "dart", "dart:use_enums,use_int64", "dart:use_vendor",
    "html", "html:standalone", "json", "json:indent",
]
LANGCODE = {"go": 0, "py": 1, "java": 2, "html": 3, "json": 4}
BASE_TYPES = ["bool", "byte", "i16", "i32", "i64", "double", "string", "binary"]


# ----------------------------------------------------------------------------------------------
# IDL program generator

def gen_program(rng, nfiles, twins=True, vendor=True, main_dir=""):
    """Returns dict(files={relpath: text}, meta={relpath: {...}}, main=relpath).
    File 0 is the main file; file i may include files j > i (acyclic)."""
    dirs = ["", "", "sub1/", "sub2/", "sub1/deep/"]
    names, paths = [], []
    for i in range(nfiles):
        d = main_dir if i == 0 else rng.choice(dirs)
        n = "main" if i == 0 else rng.choice(["mod%d", "Mod%d", "m%d_x", "zz%d", "a%d"]) % i
        names.append(n)
        paths.append(d + n + ".frugal")
    # same-named modules in different directories (never both included by one file)
    twin_of = {}
    if twins and nfiles >= 6:
        a, b = nfiles - 1, nfiles - 2
        names[b] = names[a]
        paths[a] = "sub1/" + names[a] + ".frugal"
        paths[b] = "sub2/" + names[b] + ".frugal"
        twin_of = {a: b, b: a}
    includes = {i: [] for i in range(nfiles)}
    for i in range(nfiles):
        # the parser detects circular includes by NAME: twins must not lie on one include path
        cands = [] if i in twin_of else list(range(i + 1, nfiles))
        rng.shuffle(cands)
        want = min(len(cands), rng.randrange(8, 12) if i == 0 else rng.choice([0, 1, 2, 3, 4]))
        for j in cands:
            if len(includes[i]) >= want:
                break
            if any(names[j] == names[k] for k in includes[i]):
                continue
            includes[i].append(j)
        rng.shuffle(includes[i])
    # every file reachable from main
    reach = set()

    def visit(i):
        if i in reach:
            return
        reach.add(i)
        for j in includes[i]:
            visit(j)
    visit(0)
    for j in range(1, nfiles):
        if j not in reach:
            hosts = [i for i in sorted(reach) if i < j and all(names[k] != names[j] for k in includes[i])]
            includes[rng.choice(hosts)].append(j)
            visit(j)
    vendored_files = set()
    if vendor:
        leaves = [i for i in range(1, nfiles) if not includes[i] and i not in twin_of]
        rng.shuffle(leaves)
        vendored_files = set(leaves[:2])
    files, meta = {}, {}
    decls = {}
    for i in reversed(range(nfiles)):
        out = []
        ns = {}
        for lang in ("go", "java", "py", "dart"):
            if i in vendored_files or rng.random() < 0.6:
                v = {"go": "pk%d.%s" % (i, names[i].lower()), "java": "org.ex.p%d" % i,
                     "py": "pyns%d.inner" % i, "dart": "dartlib_%d" % i}[lang]
                if rng.random() < 0.3:
                    v = v.split(".")[0]
                ann = ""
                if i in vendored_files and lang in ("go", "java", "dart"):
                    ann = ' (vendor="%s")' % {"go": "github.com/vend/or%d" % i, "java": "vend.or%d" % i,
                                              "dart": "vend_or%d" % i}[lang]
                ns[lang] = v
                out.append("namespace %s %s%s" % (lang, v, ann))
        inc_src = []
        for j in includes[i]:
            relp = os.path.relpath(paths[j], os.path.dirname(paths[i]) or ".")
            vend = j in vendored_files
            inc_src.append((names[j], vend))
            out.append('include "%s"%s' % (relp, " (vendor)" if vend else ""))
        out.append("")
        pref = "F%d" % i
        d = {"structs": [], "enums": [], "excs": [], "services": [], "typedefs": []}

        def ref_type(depth=0):
            r = rng.random()
            pool = [(None, d)] + [(names[j], decls[j]) for j in includes[i]]
            if r < 0.35 or depth > 2:
                return rng.choice(BASE_TYPES)
            if r < 0.7:
                who, dd = rng.choice(pool)
                cands = dd["structs"] + dd["enums"] + dd["typedefs"]
                if not cands:
                    return rng.choice(BASE_TYPES)
                t = rng.choice(cands)
                return t if who is None else who + "." + t
            if r < 0.8:
                return "list<%s>" % ref_type(depth + 1)
            if r < 0.9:
                return "set<%s>" % rng.choice(["i32", "string", "i64"])
            return "map<%s, %s>" % (rng.choice(["i32", "string", "i64"]), ref_type(depth + 1))

        for k in range(rng.randrange(1, 4)):
            tn = "%sTd%d" % (pref, k)
            out.append("typedef %s %s" % (rng.choice(["i32", "i64", "string", "map<string, i32>", "list<i64>"]), tn))
            d["typedefs"].append(tn)
        for k in range(rng.randrange(2, 7)):
            en = "%sEnum%d" % (pref, k)
            vals = ["V%d_%d = %d" % (k, x, x * 3 + 1) for x in range(rng.randrange(2, 9))]
            out.append("enum %s {\n    %s\n}" % (en, ",\n    ".join(vals)))
            d["enums"].append(en)
        out.append("const i32 %s_CONST = %d" % (pref.upper(), rng.randrange(1000)))
        out.append('const map<string, i32> %s_MAPCONST = {%s}' % (
            pref.upper(), ", ".join("'k%d': %d" % (x, rng.randrange(100)) for x in range(rng.randrange(2, 12)))))
        out.append('const set<string> %s_SETCONST = [%s]' % (
            pref.upper(), ", ".join("'s%d'" % x for x in range(rng.randrange(2, 9)))))
        for k in range(rng.randrange(2, 7)):
            sn = "%sStruct%d" % (pref, k)
            flds = ["%d: %s%s fld%d" % (x + 1, rng.choice(["", "optional ", "required "]), ref_type(), x)
                    for x in range(rng.randrange(1, 8))]
            out.append("struct %s {\n    %s\n}" % (sn, ",\n    ".join(flds)))
            d["structs"].append(sn)
        for k in range(rng.randrange(1, 3)):
            xn = "%sErr%d" % (pref, k)
            out.append("exception %s {\n    1: string message,\n    2: i32 code%d\n}" % (xn, k))
            d["excs"].append(xn)
        un = "%sUnion" % pref
        out.append("union %s {\n    1: i32 a,\n    2: string b,\n    3: %s c\n}" % (un, d["structs"][0]))
        for k in range(rng.randrange(1, 5)):
            sv = "%sSvc%d" % (pref, k)
            ext = ""
            svc_pool = [(names[j], decls[j]["services"]) for j in includes[i] if decls[j]["services"]]
            if svc_pool and rng.random() < 0.4:
                who, svs = rng.choice(svc_pool)
                ext = " extends %s.%s" % (who, rng.choice(svs))
            meths = []
            for x in range(rng.randrange(1, 6)):
                args = ", ".join("%d: %s arg%d" % (y + 1, ref_type(), y) for y in range(rng.randrange(0, 4)))
                thr = ""
                if rng.random() < 0.4:
                    exc_pool = [(None, d["excs"])] + [(names[j], decls[j]["excs"]) for j in includes[i]]
                    who, ex = rng.choice(exc_pool)
                    thr = " throws (1: %s%s err)" % ("" if who is None else who + ".", rng.choice(ex))
                ret = rng.choice(["void", ref_type()])
                ow = "oneway " if ret == "void" and not thr and rng.random() < 0.2 else ""
                meths.append("    %s%s meth%d_%d(%s)%s" % (ow, ret, k, x, args, thr))
            out.append("service %s%s {\n%s\n}" % (sv, ext, ",\n".join(meths)))
            d["services"].append(sv)
        scope_names = []
        ns_scopes = rng.randrange(0, 7) if i else rng.randrange(5, 10)
        cand_names = ["%s%sScope" % (rng.choice(["Zeta", "alpha", "Beta", "gamma", "Mu", "omega", "Aa", "b"]), "%s%d" % (pref, k))
                      for k in range(ns_scopes)]
        for sc in cand_names:
            if sc[0].lower() + sc[1:] in [s[0].lower() + s[1:] for s in scope_names]:
                continue
            ops = []
            for x in range(rng.randrange(1, 5)):
                pool = [(None, d["structs"])] + [(names[j], decls[j]["structs"]) for j in includes[i]]
                who, ss = rng.choice(pool)
                ops.append("    Op%d: %s%s" % (x, "" if who is None else who + ".", rng.choice(ss)))
            prefix = rng.choice(["", " prefix foo.{user}", " prefix a.b", " prefix {xx}.{yy}.z"])
            out.append("scope %s%s {\n%s\n}" % (sc, prefix, "\n".join(ops)))
            scope_names.append(sc)
        decls[i] = d
        files[paths[i]] = "\n".join(out) + "\n"
        meta[paths[i]] = {"scopes_src": scope_names, "includes_src": inc_src, "ns": ns, "name": names[i],
                          "n_includes": len(includes[i])}
    n_inc_total = sum(len(v) for v in includes.values())
    return {"files": files, "meta": meta, "main": paths[0], "n_files": nfiles, "n_includes_main": len(includes[0]),
            "n_includes_total": n_inc_total, "twins": bool(twin_of), "vendored": len(vendored_files)}


def write_program(prog, root):
    for rel, txt in prog["files"].items():
        p = os.path.join(root, rel)
        os.makedirs(os.path.dirname(p), exist_ok=True)
        with open(p, "w") as fh:
            fh.write(txt)


def hash_tree(root):
    out = {}
    for dp, dn, fn in os.walk(root):
        for f in fn:
            p = os.path.join(dp, f)
            with open(p, "rb") as fh:
                out[os.path.relpath(p, root)] = hashlib.sha256(fh.read()).hexdigest()
    return out


FRUGAL = os.path.join(vlib.BIN, "frugal")


FRUGAL_VERIF = os.path.join(vlib.BIN, "frugal_verif")
OTHER_DAY = "2031-03-07T23:59:30Z"


def dated_by_design(gen):
    """java stamps the day into @Generated unless generated_annotations is undated or suppress"""
    return gen.split(":")[0] == "java" and "generated_annotations=undated" not in gen and "generated_annotations=suppress" not in gen


def run_frugal(cwd, file_arg, gen, out_arg, out_abs, recurse=True, keep_out=False, other_day=False):
    """One compilation in a fresh process. Returns (rc, hashes or message).  other_day: the compiler built with the verif
    tag, told (FRUGAL_VERIF_NOW) that it runs on another day, another year."""
    if not keep_out:
        shutil.rmtree(out_abs, ignore_errors=True)
    try:
        p = subprocess.run([FRUGAL_VERIF if other_day else FRUGAL] + (["-r"] if recurse else []) + ["-gen", gen, "-out", out_arg, file_arg],
                           cwd=cwd, capture_output=True, timeout=120,
                           env=dict(os.environ, FRUGAL_VERIF_NOW=OTHER_DAY) if other_day else None)
    except subprocess.TimeoutExpired:
        return 124, "timeout"
    msg = (p.stdout + p.stderr).decode("utf8", "replace")
    if p.returncode != 0 or "Failed to generate" in msg:
        return p.returncode or 1, msg[-1500:]
    return 0, hash_tree(out_abs)


def diff_hashes(a, b):
    keys = sorted(set(a) | set(b))
    return [k for k in keys if a.get(k) != b.get(k)]


# ----------------------------------------------------------------------------------------------

def _jsonable(o, path="cov"):
    if isinstance(o, (bytes, bytearray)):
        raise TypeError("bytes at " + path)
    if isinstance(o, dict):
        for k, v in o.items():
            if not isinstance(k, str):
                raise TypeError("non-string key %r at %s" % (k, path))
            _jsonable(v, path + "." + k)
    elif isinstance(o, (list, tuple)):
        for i, v in enumerate(o):
            _jsonable(v, "%s[%d]" % (path, i))
    return o


def comps(path):
    return [c.encode() for c in path.split("/") if c != ""]


def strip_root(p, root):
    root = root.rstrip("/") + "/"
    return p[len(root):] if p.startswith(root) else p


def graph_tokens(resp, root):
    """analyze response -> (nodes token list, index by file)."""
    idx = {}
    nodes = []
    for i, fi in enumerate(resp["files"]):
        idx[fi["file"]] = i
    for fi in resp["files"]:
        nodes.append([strip_root(fi["file"], root).encode(), fi["name"].encode(),
                      [[n.encode(), 1 if v == "1" else 0] for n, v in fi["includes"]],
                      [[n.encode(), idx[f]] for n, f in fi["parsed"]],
                      [s.encode() for s in fi["scopes"]]])
    return nodes, idx


def run(ctx, br):
    quick = ctx.tier == "quick"
    rng = ctx.rng
    n_prog = 3 if quick else 5
    reps = 5 if quick else 25
    gens = list(GENS)
    if quick:
        # every language every run; the option sets rotate with the seed
        must = ["go", "java", "py", "dart:use_vendor", "html", "json:indent", "go:use_vendor"]
        rest = [g for g in gens if g not in must]
        rng.shuffle(rest)
        gens = must + rest[:4]
    work = os.path.join(ctx.rundir, "c19")
    os.makedirs(work)
    programs = []
    for k in range(n_prog):
        nfiles = rng.randrange(10, 15) if quick else rng.randrange(10, 22)
        prog = gen_program(rng, nfiles, twins=(k % 2 == 0), vendor=True, main_dir=("" if k % 3 != 1 else "sub1/app/"))
        prog["id"] = k
        programs.append(prog)
    # hand-made regression program: same-named modules in different directories (html index order)
    programs.append({
        "id": n_prog, "main": "main.frugal", "n_files": 4, "n_includes_main": 2, "n_includes_total": 3,
        "twins": True, "vendored": 0,
        "files": {"main.frugal": 'include "a/x.frugal"\ninclude "y.frugal"\nstruct M { 1: x.A a, 2: y.Y y }\n',
                  "y.frugal": 'include "b/x.frugal"\nstruct Y { 1: x.B b }\n',
                  "a/x.frugal": "struct A { 1: i32 a }\nservice SA { void pingA() }\n",
                  "b/x.frugal": "struct B { 1: i32 b }\nservice SB { void pingB() }\n"},
        "meta": {"main.frugal": {"scopes_src": []}, "y.frugal": {"scopes_src": []},
                 "a/x.frugal": {"scopes_src": []}, "b/x.frugal": {"scopes_src": []}}})

    # hand-made: the main file lies in a sub-directory and a same-named module is reached through "../"
    programs.append({
        "id": n_prog + 1, "main": "proj/main.frugal", "n_files": 4, "n_includes_main": 2, "n_includes_total": 3,
        "twins": True, "vendored": 0,
        "files": {"proj/main.frugal": 'include "a/common.frugal"\ninclude "mid.frugal"\nstruct M { 1: common.A a, 2: mid.Y y }\n',
                  "proj/mid.frugal": 'include "../zlib/common.frugal"\nstruct Y { 1: common.B b }\n',
                  "proj/a/common.frugal": "struct A { 1: i32 a }\nservice SA { void pingA() }\n",
                  "zlib/common.frugal": "struct B { 1: i32 b }\nservice SB { void pingB() }\n"},
        "meta": {"proj/main.frugal": {"scopes_src": []}, "proj/mid.frugal": {"scopes_src": []},
                 "proj/a/common.frugal": {"scopes_src": []}, "zlib/common.frugal": {"scopes_src": []}}})

    # --replay <file>: only the program and target of the recorded violation
    rep = getattr(ctx, "replaying", None)
    if rep and isinstance(rep.get("replay", {}).get("program"), dict):
        rp = rep["replay"]
        files = rp["program"]
        main = "main.frugal" if "main.frugal" in files else sorted(files)[0]
        programs = [{"id": 0, "main": main, "files": files, "meta": {}, "n_files": len(files), "n_includes_main": 0,
                     "n_includes_total": sum(t.count("\ninclude ") + t.startswith("include ") for t in files.values()),
                     "twins": False, "vendored": 0}]
        n_prog = 0
        if rp.get("gen"):
            gens = [rp["gen"]]

    # ---- lay the programs out at two absolute roots ------------------------------------------
    for prog in programs:
        pid = prog["id"]
        prog["rootA"] = os.path.join(work, "p%d" % pid, "rootA", "src")
        prog["rootB"] = os.path.join(work, "p%d" % pid, "elsewhere", "much", "deeper", "tree")
        write_program(prog, prog["rootA"])
        write_program(prog, prog["rootB"])

    # ---- exploration: fresh processes ----------------------------------------------------------
    jobs = []  # (prog, gen, label, cwd, file_arg, out_arg, out_abs)
    for prog in programs:
        pid = prog["id"]
        a, b = prog["rootA"], prog["rootB"]
        outs = os.path.join(work, "p%d" % pid, "outs")
        for gi, gen in enumerate(gens):
            tag = "g%d" % gi
            for r in range(reps):
                o = os.path.join(outs, tag, "rep%d" % r)
                jobs.append((prog, gen, "rep%d" % r, a, prog["main"], o, o))
            # cwd elsewhere, absolute file path, absolute -out in another place
            o = os.path.join(outs, tag, "abs", "x", "y")
            jobs.append((prog, gen, "abs-file-other-cwd", work, os.path.join(a, prog["main"]), o, o))
            # sources at a different absolute root, relative -out below the cwd
            jobs.append((prog, gen, "other-root-rel-out", b, prog["main"], "out_%s" % tag, os.path.join(b, "out_%s" % tag)))
            # cwd is the directory of the main file (when that is not the source root): bare file name
            if os.path.dirname(prog["main"]):
                o = os.path.join(outs, tag, "maindir")
                jobs.append((prog, gen, "maindir-cwd", os.path.join(a, os.path.dirname(prog["main"])),
                             os.path.basename(prog["main"]), o, o))
            # the -out directory is not empty: it holds what another option set of the same language generated from the
            # same program just before (what this run emits must not depend on what it finds there)
            lang = gen.split(":")[0]
            others = [g for g in gens if g.split(":")[0] == lang and g != gen]
            # (not for use_vendor: the vendored packages do not exist here, goimports then drops their imports and looks for
            # a package of that name around the -out directory - third-party behaviour in a situation real users do not have)
            if others and "use_vendor" not in gen:
                o = os.path.join(outs, tag, "reused")
                jobs.append((prog, gen, "reused-out:" + others[(gi + pid) % len(others)], a, prog["main"], o, o))
            # the same compilation on another day (the clock is an input of the tagged compiler), unless the option set
            # stamps the day by design
            if os.path.exists(FRUGAL_VERIF) and not dated_by_design(gen):
                o = os.path.join(outs, tag, "otherday")
                jobs.append((prog, gen, "other-day", a, prog["main"], o, o))
            # cwd is the parent of the source root; relative file and an unclean relative -out
            par = os.path.dirname(b)
            jobs.append((prog, gen, "parent-cwd-unclean-out", par, os.path.join(os.path.basename(b), prog["main"]),
                         "./o_%s/../o2_%s/" % (tag, tag), os.path.join(par, "o2_%s" % tag)))

    def do(job):
        prog, gen, label, cwd, fa, oa, oabs = job
        os.makedirs(os.path.dirname(oabs), exist_ok=True)
        if label.startswith("reused-out:"):
            r0 = run_frugal(cwd, fa, label.split(":", 1)[1], oa, oabs)
            r = run_frugal(cwd, fa, gen, oa, oabs, keep_out=True) if r0[0] == 0 else r0
        else:
            r = run_frugal(cwd, fa, gen, oa, oabs, other_day=(label == "other-day"))
        shutil.rmtree(oabs, ignore_errors=True)      # only the hashes are kept
        return r

    with ThreadPoolExecutor(max_workers=int(os.environ.get("VERIF_JOBS", "4"))) as ex:
        results = list(ex.map(do, jobs))

    base = {}      # (pid, gen) -> hashes of rep0
    n_eval = 0
    oracle_fail = 0
    compile_errors = {}
    emitted_files = 0
    hist = {}
    for job, (rc, res) in zip(jobs, results):
        prog, gen, label, cwd, fa, oa, oabs = job
        key = (prog["id"], gen)
        n_eval += 1
        if rc != 0:
            compile_errors.setdefault(key, (label, res))
            continue
        if label == "rep0":
            base[key] = res
            emitted_files += len(res)
            hist[gen.split(":")[0]] = hist.get(gen.split(":")[0], 0) + 1
    for job, (rc, res) in zip(jobs, results):
        prog, gen, label, cwd, fa, oa, oabs = job
        key = (prog["id"], gen)
        if key in compile_errors or key not in base or label == "rep0" or rc != 0:
            continue
        if label.startswith("reused-out:"):
            # files of the other option set may lie around; every file THIS option set emits must be as in a fresh directory
            d = [k for k in sorted(base[key]) if base[key][k] != res.get(k)]
        else:
            d = diff_hashes(base[key], res)
        if d:
            oracle_fail += 1
            kind = "repeated run" if label.startswith("rep") and not label.startswith("reused") else \
                ("a non-empty -out directory (%s)" % label if label.startswith("reused") else
                 "days (the compiler told it is %s)" % OTHER_DAY if label == "other-day" else "location change (%s)" % label)
            ctx.violation("C19 oracle: output differs across %s" % kind, {
                "gen": gen, "variant": label, "differing_files": d[:10],
                "first": {"cwd": prog["rootA"], "cmd": "frugal -r -gen %s -out <out> %s" % (gen, prog["main"])},
                "second": {"cwd": cwd, "cmd": "frugal -r -gen %s -out %s %s" % (gen, oa, fa)},
                "program": prog["files"]}, signature=None)
    # a compile error on a generated program is a generator problem unless it is not deterministic
    for key, (label, msg) in compile_errors.items():
        pid, gen = key
        outcomes = {(rc != 0) for job, (rc, res) in zip(jobs, results) if (job[0]["id"], job[1]) == key}
        if len(outcomes) > 1:
            oracle_fail += 1
            ctx.violation("C19 oracle: compilation succeeds or fails depending on run / location", {
                "gen": gen, "message": msg, "program": programs[pid]["files"]})
    if compile_errors:
        first = sorted(compile_errors.items())[0]
        raise RuntimeError("generated IDL rejected by the compiler (generator bug): %r %s" % (first[0], first[1][1][-800:]))

    # ---- exploration: several compiles inside one process (global state reset) ------------------
    seq_jobs = []
    seq_keys = []
    inproc = os.path.join(work, "inproc")
    order = [(p, g) for p in programs for g in gens]
    rng.shuffle(order)
    # every language once on ONE program, back to back (and, through the reversed second half of the
    # sequence, in the opposite order too): a generator that edits the parse tree, or a parse cache
    # that outlives a compile, shows up as a difference from the fresh-process output
    forced = [(programs[0], g) for g in ("java", "go", "html", "dart:use_vendor", "py", "json:indent") if g in gens]
    order = forced + [x for x in order if x not in forced][:(8 if quick else 54)]
    # a few non-recursive compiles in between (Recurse must not leak from the compile before);
    # their reference output comes from a fresh non-recursive process
    nonrec = order[:3]
    for prog, gen in nonrec:
        o = os.path.join(inproc, "nonrec_base", "p%d_%s" % (prog["id"], hashlib.sha256(gen.encode()).hexdigest()[:6]))
        os.makedirs(os.path.dirname(o), exist_ok=True)
        rc, res = run_frugal(prog["rootA"], prog["main"], gen, o, o, recurse=False)
        n_eval += 1
        if rc != 0:
            raise RuntimeError("non-recursive compile failed: %s" % res)
        base[(prog["id"], gen, "nonrec")] = res
    full = [(p, g, True) for p, g in order]
    for i, (p, g) in enumerate(nonrec):
        full.insert(2 + 3 * i, (p, g, False))
    full = full + full[::-1]
    for n, (prog, gen, rec) in enumerate(full):
        o = os.path.join(inproc, "j%d" % n)
        seq_jobs.append({"file": os.path.join(prog["rootA"], prog["main"]), "gen": gen, "out": o, "recurse": rec,
                         "cwd": work, "cleanup": True})
        seq_keys.append((prog["id"], gen) if rec else (prog["id"], gen, "nonrec"))
    # the content of a path changes between two compiles of the same process: compile a private copy of
    # program 0, append a declaration to its main file, compile again; the reference is a fresh process
    # run on the changed content
    swap_root = os.path.join(work, "swap_src")
    write_program(programs[0], swap_root)
    swap_main = os.path.join(swap_root, programs[0]["main"])
    added = "\nstruct ZzAddedLater {\n    1: i32 a\n}\n"
    ref_root = os.path.join(work, "swap_ref")
    write_program(programs[0], ref_root)
    with open(os.path.join(ref_root, programs[0]["main"]), "a") as fh:
        fh.write(added)
    for g in ("json", "go"):
        o = os.path.join(inproc, "swapref_" + g.replace(":", "_"))
        rc_, res = run_frugal(ref_root, programs[0]["main"], g, o, o)
        n_eval += 1
        if rc_ != 0:
            raise RuntimeError("reference compile of changed content failed: %s" % res)
        base[("swap", g)] = res
        seq_jobs.append({"file": swap_main, "gen": g, "out": os.path.join(inproc, "swap1_" + g), "recurse": True,
                         "cwd": work, "cleanup": True})
        seq_keys.append(None)      # warm-up compile of the unchanged copy: not compared
    first = True
    for g in ("json", "go"):
        j = {"file": swap_main, "gen": g, "out": os.path.join(inproc, "swap2_" + g), "recurse": True, "cwd": work,
             "cleanup": True}
        if first:
            j["append_to"], j["append_text"] = swap_main, added
            first = False
        seq_jobs.append(j)
        seq_keys.append(("swap", g))
    rc, out, err = vlib.sh([os.path.join(vlib.BIN, "vh_c19")], inp=(json.dumps({"op": "compile_seq", "jobs": seq_jobs}) + "\n").encode(),
                           timeout=900)
    if rc != 0:
        raise RuntimeError("vh_c19 compile_seq failed: " + (out + err)[-2000:])
    seq = json.loads(out.strip().split("\n")[-1])
    if seq.get("code", 0) != 0:
        raise RuntimeError("vh_c19 compile_seq: %s" % seq.get("msg"))
    glob_cases = []
    def prog_of(key):
        return programs[0] if key is None or key[0] == "swap" else programs[key[0]]

    n_plain = len(full)
    for n, (key, jr, sj) in enumerate(zip(seq_keys, seq["results"], seq_jobs)):
        if n in (0, 1, n_plain // 2, n_plain - 1) and jr.get("globals"):
            ghist = [[[os.path.dirname(j["file"]).encode(), j["gen"].encode(), j["out"].encode(), b".", 1 if j["recurse"] else 0],
                     [f.encode() for f in sorted(prog_of(k)["files"])]]
                    for j, k in zip(seq_jobs[:n + 1], seq_keys[:n + 1])]
            gl = jr["globals"]
            glob_cases.append(([7, ghist, [gl[0].encode(), gl[1].encode(), gl[2].encode(), gl[3].encode(),
                                          int(gl[4]), int(gl[5]), int(gl[6]), int(gl[7])]],
                               ("globals_after_compiles", programs[key[0]], key[1], programs[key[0]]["rootA"],
                                {"globals": gl, "n_compiles_before": n})))
    for key, jr, sj in zip(seq_keys, seq["results"], seq_jobs):
        n_eval += 1
        if key is None:
            continue
        if jr.get("code", 0) != 0:
            oracle_fail += 1
            ctx.violation("C19 oracle: compile inside a long-lived process fails where a fresh process succeeds",
                          {"gen": key[1], "message": jr.get("msg"), "program": prog_of(key)["files"], "jobs_before": seq_jobs[:seq_jobs.index(sj)][-3:]})
            continue
        d = diff_hashes(base[key], jr["files"])
        if d:
            oracle_fail += 1
            ctx.violation("C19 oracle: output of a compile that follows other compiles in the same process differs "
                          "from a fresh process (global state not reset)",
                          {"gen": key[1], "differing_files": d[:10], "program": prog_of(key)["files"],
                           "content_changed_between_compiles": key[0] == "swap",
                           "sequence": [(j["gen"], j["recurse"], os.path.basename(os.path.dirname(j["file"]))) for j in seq_jobs[:seq_jobs.index(sj) + 1]][-6:]})

    # ---- correspondence: observations of the real compiler against the model --------------------
    reqs, req_info = [], []
    ana_gens = ["go", "go:use_vendor", "java", "java:use_vendor", "py", "dart:use_vendor", "html", "json"]
    for prog in programs:
        for gen in ana_gens:
            for root in (prog["rootA"], prog["rootB"]):
                out = os.path.join(work, "ana", "p%d" % prog["id"], "o")
                reqs.append({"op": "analyze", "file": os.path.join(root, prog["main"]), "gen": gen, "out": out})
                req_info.append((prog, gen, root, out))
    rc, out, err = vlib.sh([os.path.join(vlib.BIN, "vh_c19")], inp=("\n".join(json.dumps(r) for r in reqs) + "\n").encode(), timeout=600)
    if rc != 0:
        raise RuntimeError("vh_c19 analyze failed: " + (out + err)[-2000:])
    resps = [json.loads(l) for l in out.strip().split("\n")]
    assert len(resps) == len(reqs), (len(resps), len(reqs))
    cases, case_info = [], []
    plan_by = {}
    for (prog, gen, root, outdir), resp in zip(req_info, resps):
        if resp.get("code", 0) != 0:
            raise RuntimeError("vh_c19 analyze: %s" % resp.get("msg"))
        nodes, idx = graph_tokens(resp, root)
        root_idx = idx[os.path.join(root, prog["main"])]
        plan = [strip_root(f, root) for f in resp["plan"]]
        # direct oracle on the observation: the order of generation must not depend on the root
        k = (prog["id"], gen)
        if k in plan_by and plan_by[k] != plan:
            oracle_fail += 1
            ctx.violation("C19 oracle: order of generation depends on the absolute location of the sources",
                          {"gen": gen, "plan_rootA": plan_by[k], "plan_rootB": plan, "program": prog["files"]})
        plan_by.setdefault(k, plan)
        cases.append([2, nodes, 1 if resp.get("use_vendor") else 0, root_idx, [p.encode() for p in plan]])
        case_info.append(("plan", prog, gen, root, resp))
        if gen == "html":
            cases.append([3, nodes, root_idx, [[n.encode(), strip_root(f, root).encode()] for n, f in resp.get("html", [])]])
            case_info.append(("html_modules", prog, gen, root, resp))
        if gen == "json":
            cases.append([4, nodes, root_idx, [strip_root(f, root).encode() for f in resp.get("json", [])]])
            case_info.append(("json_collect", prog, gen, root, resp))
        if gen == "go":
            for fi in resp["files"]:
                src = prog["meta"].get(strip_root(fi["file"], root), {}).get("scopes_src")
                if src is not None and (len(src) > 0 or root == prog["rootA"]):
                    cases.append([1, [s.encode() for s in src], [s.encode() for s in fi["scopes"]]])
                    case_info.append(("scope_order", prog, gen, root, {"file": fi["file"], "src": src, "obs": fi["scopes"]}))
        lang = resp.get("lang")
        if lang in LANGCODE and root == prog["rootA"]:
            for fi in resp["files"]:
                ns = fi.get("namespace")
                cases.append([5, LANGCODE[lang], comps(outdir), 0 if ns is None else 1, (ns or "").encode(),
                              fi["name"].encode(), comps(fi["outdir"])])
                case_info.append(("output_dir", prog, gen, root, fi))
    # Python __init__ chain, from real single-file compilations
    for prog in programs[:n_prog]:
        for rel, m in sorted(prog["meta"].items())[:(4 if quick else 12)]:
            for root, outrel in ((prog["rootA"], "pyo"), (prog["rootB"], "nested/py/out")):
                out_abs = os.path.join(work, "pyinit", "p%d" % prog["id"], hashlib.sha256((root + rel).encode()).hexdigest()[:8], outrel)
                os.makedirs(os.path.dirname(out_abs), exist_ok=True)
                shutil.rmtree(out_abs, ignore_errors=True)
                p = subprocess.run([FRUGAL, "-gen", "py", "-out", out_abs, os.path.join(root, rel)], capture_output=True, timeout=120)
                n_eval += 1
                if p.returncode != 0:
                    raise RuntimeError("py single-file compile failed: " + (p.stdout + p.stderr).decode()[-800:])
                tree = hash_tree(out_abs)
                dirs = sorted({os.path.dirname(f) for f in tree if os.path.basename(f) == "__init__.py"},
                              key=lambda d: -len([c for c in d.split("/") if c]))
                ns = m.get("ns", {}).get("py")
                od = comps(out_abs) + ([c.encode() for c in ns.split(".")] if ns else [m["name"].encode()])
                cases.append([6, comps(out_abs), od, [comps(d) for d in dirs]])
                case_info.append(("py_init_chain", prog, "py", root, {"file": rel, "dirs": dirs}))
    for c, info in glob_cases:
        cases.append(c)
        case_info.append(info)
    verdicts = vlib.run_judge(ctx.rundir, "JMapOrder", "judge", cases)
    mism = [i for i, v in enumerate(verdicts) if v < 0]
    for i in mism[:10]:
        what, prog, gen, root, obs = case_info[i]
        rep = {"kind": what, "gen": gen, "root": root, "program": prog["files"],
               "observed": obs if what in ("scope_order", "py_init_chain", "output_dir", "globals_after_compiles") else
               {"plan": obs.get("plan"), "html": obs.get("html"), "json": obs.get("json"), "use_vendor": obs.get("use_vendor")},
               "no_failing_input_found": True,
               "broken": "correspondence JMapOrder.judge (%s): Model/MapOrder.v disagrees with the implementation" % what}
        ctx.violation("C19 correspondence: model and implementation disagree on %s" % what, rep)
    tags = sorted({v for v in verdicts if v >= 0})
    distinct = len({(prog["id"], gen) for (prog, gen) in [(j[0], j[1]) for j in jobs]
                    if prog["n_includes_total"] >= 8})
    ctx.assumptions += [
        "encoding/json, yaml.v2 and text/html template iterate maps in sorted key order (listed as trusted_sorted_libs)",
        "the classification of loop bodies (translator/mapsites.go, go/types) is trusted static analysis",
        "the text generators themselves (thousands of lines per language) are not modelled: byte equality of the "
        "generated text is established by exploration (sha256 across runs / locations), the theorems cover the "
        "ordering discipline, the generation plan and the output locations",
        "java:generated_annotations=use is excluded (dated by design)",
    ]
    for v in ctx.violations:
        _jsonable(v["replay"], "replay")
    return _jsonable({
        "evaluations": n_eval + len(cases),
        "compilations": n_eval,
        "distinct_nontrivial": distinct,
        "rule": "distinct (program, target/option set) pairs whose program has >= 8 include edges; each compiled %d times in "
                "fresh processes plus 3 location variants (other cwd + absolute paths, other source root + relative -out, "
                "parent cwd + unclean -out), in a non-empty -out directory, and ON ANOTHER DAY (the compiler built with the verif tag "
                "is told through FRUGAL_VERIF_NOW that it is 2031-03-07; not for the java option sets that stamp the day by design) "
                "plus in-process sequences; programs: %s" % (
                    reps, [(p["n_files"], p["n_includes_total"], "twins" if p["twins"] else "") for p in programs]),
        "traces_validated_against_impl": len([v for v in verdicts if v >= 0]),
        "judge_cases": len(cases),
        "judge_mismatches": len(mism),
        "oracle_failures": oracle_fail,
        "other_day_compilations": sum(1 for j in jobs if j[2] == "other-day"),
        "model_branch_tags": tags,
        "emitted_files_per_base_run_total": emitted_files,
        "input_histogram": hist,
        "gens": gens,
        "samples": [{"gen": j[1], "variant": j[2], "cwd": strip_root(j[3], work), "file": strip_root(j[4], work),
                     "out": strip_root(j[5], work), "n_files": len(r[1]) if r[0] == 0 else None}
                    for j, r in list(zip(jobs, results))[:: max(1, len(jobs) // 4)]][:4],
    })
