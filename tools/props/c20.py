"""C20 — NATS server shutdown drains: accepted requests answered, none lost or duplicated.

Generates (workers, queue length, subjects, burst, handler durations, position of Stop) cases, runs
the real FNatsServer against an embedded nats-server (harness vh_c20), applies a direct oracle on
the observations and has the Coq judge (Judge/JNatsServer.v) replay every observed trace on
Model/NatsServer.v."""
import json
import os
from concurrent.futures import ThreadPoolExecutor

import vlib

HARNESS_BINS = ["vh_c20"]

QLENS = [0, 0, 1, 1, 2, 2, 3, 4, 5, 8, 16, 64]
FLAG_NAMES = {1: "queue_full_blocked", 2: "unbuffered_handoff", 4: "undelivered_after_unsub", 8: "no_reply_discarded",
              16: "no_output", 32: "barrier_waited_for_handler", 64: "pending_at_stop", 128: "multi_subject",
              256: "published_after_stop_returned", 512: "queue_nonempty_at_close", 1024: "worker_busy_at_stop",
              2048: "judge_needed_search_over_send_order"}


# ------------------------------------------------------------------------------------------------
# generation

def gen_case(rng, idx, thorough):
    nsubs = rng.choice([1, 1, 1, 1, 2, 2, 3])
    workers = rng.choice([1, 1, 2, 2, 3, 4, 5, 8])
    qlen = rng.choice(QLENS)
    profile = rng.choice(["zero", "small", "small", "medium", "medium", "large"])
    maxn = 200 if thorough else 60
    if profile == "large":
        n = rng.randrange(1, 9)
    elif profile == "medium":
        n = rng.randrange(1, 30)
    else:
        n = rng.randrange(1, maxn + 1)
    if idx % 7 == 0:
        n = rng.randrange(qlen + workers + 1, qlen + workers + 12)  # burst longer than queue + workers

    def dur():
        if profile == "zero":
            return 0
        if profile == "small":
            return rng.randrange(0, 400)
        if profile == "medium":
            return rng.randrange(0, 3000)
        return rng.randrange(0, 20000)

    drain_timeout_us = 0
    if idx % 9 == 4:
        # the backlog at Stop takes longer than the server connection's DrainTimeout option
        profile, workers, qlen, nsubs = "slowdrain", 1, rng.choice([1, 2, 4]), 1
        n = rng.randrange(8, 16)
        drain_timeout_us = rng.choice([20000, 30000, 50000])

        def dur():  # noqa: F811
            return rng.randrange(10000, 20000)

    high_watermark_us = 0
    if idx % 9 == 7:
        # requests wait in the queue for longer than the builder's high watermark (which only warns)
        profile, workers, qlen, nsubs = "watermark", rng.choice([1, 2]), rng.choice([2, 4, 8]), 1
        n = rng.randrange(qlen + workers + 2, qlen + workers + 14)
        high_watermark_us = rng.choice([500, 2000, 5000])

        def dur():  # noqa: F811
            return rng.randrange(3000, 9000)

    stop_class = rng.choice(["before", "during", "during", "during_flushed", "after_flush", "after_flush",
                             "after_idle", "after_noflush"])
    if idx % 11 in (5, 6) and profile != "slowdrain" and workers >= 2:
        # Stop is called by the handler of one of the requests (a "shutdown" request) while the other workers go on.
        # (With ONE worker the call cannot return when the queue is full: Stop waits for the subscriptions to drain into
        # the queue and the only goroutine that empties the queue is the one waiting. The property's Stop is the server
        # owner's, concurrent with the request stream; that case is left out and described in DESIGN.md 0.8.)
        stop_class = "from_handler"
    sync_stop = rng.random() < 0.5
    if profile == "slowdrain":
        stop_class = "after_flush"
    ops = []
    nid = [0]

    def pub(k):
        for _ in range(k):
            nid[0] += 1
            ops.append({"op": "pub", "id": nid[0], "sub": rng.randrange(nsubs),
                        "reply": rng.random() >= 0.06, "out": rng.random() >= 0.1, "dur_us": dur()})
            if rng.random() < 0.04:
                ops.append({"op": "flush"})
            if rng.random() < 0.03:
                ops.append({"op": "sleep", "us": rng.randrange(0, 1500)})

    def stop():
        ops.append({"op": "stop"})
        if sync_stop:
            ops.append({"op": "stop_wait"})

    if stop_class == "from_handler":
        k = rng.randrange(0, n)
        pub(k)
        pub(1)
        for o in reversed(ops):
            if o["op"] == "pub":
                o["stop_in"], o["reply"] = True, True
                break
        pub(n - k - 1)
        ops.append({"op": "flush"})
    elif stop_class == "before":
        stop()
        pub(min(n, 10))
    elif stop_class in ("during", "during_flushed"):
        k = rng.randrange(0, n + 1)
        pub(k)
        if stop_class == "during_flushed":
            ops.append({"op": "flush"})
        stop()
        pub(n - k)
    else:
        pub(n)
        if stop_class != "after_noflush":
            ops.append({"op": "flush"})
        if stop_class == "after_idle":
            ops.append({"op": "sleep", "us": rng.choice([500, 3000, 20000])})
        stop()
    if rng.random() < 0.7:
        ops.append({"op": "flush"})
    if rng.random() < 0.6:
        ops.append({"op": "stop_wait"})
        pub(rng.randrange(1, 4))
        ops.append({"op": "flush"})
    return {"case": idx, "nsubs": nsubs, "workers": workers, "qlen": qlen, "close_conn": rng.random() < 0.5,
            "drain_timeout_us": drain_timeout_us, "high_watermark_us": high_watermark_us, "ops": ops, "_class": stop_class, "_profile": profile}


# ------------------------------------------------------------------------------------------------
# running the implementation

def run_shard(reqs):
    """Returns list of responses; a process death is an observation for the request that caused it."""
    resps = []
    pending = list(reqs)
    guard = 0
    while pending and guard < 20:
        guard += 1
        inp = ("\n".join(json.dumps({k: v for k, v in r.items() if not k.startswith("_")}) for r in pending) + "\n").encode()
        budget = 60 + sum(0.05 + sum(o.get("dur_us", 0) + o.get("us", 0) for o in r["ops"]) / 1e6 for r in pending) * 3
        rc, out, err = vlib.sh([os.path.join(vlib.BIN, "vh_c20")], inp=inp, timeout=budget)
        got = []
        for l in out.split("\n"):
            if l.strip():
                try:
                    got.append(json.loads(l))
                except ValueError:
                    got.append({"died": "unparsable harness output: " + l[:200]})
        resps.extend(got[:len(pending)])
        if len(got) >= len(pending):
            break
        resps.append({"died": "harness process died or timed out (rc %s): %s" % (rc, err[-1500:])})
        pending = pending[len(got) + 1:]
    while len(resps) < len(reqs):
        resps.append({"died": "harness gave no answer"})
    return resps


def run_impl(reqs, par=4):
    shards = [reqs[i::par] for i in range(par)]
    with ThreadPoolExecutor(max_workers=par) as ex:
        outs = list(ex.map(run_shard, shards))
    resps = [None] * len(reqs)
    for si, o in enumerate(outs):
        for k, r in enumerate(o):
            resps[si + k * par] = r
    return resps


# ------------------------------------------------------------------------------------------------
# resolving the raw trace (tokens -> request ids, delivery goroutines -> subjects)

def resolve(req, resp):
    """Returns (trace, info) or raises ValueError(reason). trace: list of tuples
    ('pub',id) ('confirm',) ('recv',sub,id) ('start',id) ('finish',id) ('stopcall',) ('stopret',err) ('serveret',err)"""
    msgs = {o["id"]: o for o in req["ops"] if o["op"] == "pub"}
    ev = resp.get("events") or []
    tok2id = {}
    for k, a, b in ev:
        if k == 5:
            if a in tok2id or b not in msgs:
                raise ValueError("processor saw token %s / id %s twice or unknown" % (a, b))
            tok2id[a] = b
    # delivery goroutine -> subject
    by_g = {}
    for k, a, b in ev:
        if k == 3:
            by_g.setdefault(b, []).append(a)
    g2sub = {}
    for gid, toks in by_g.items():
        ss = {msgs[tok2id[t]]["sub"] for t in toks if t in tok2id}
        if len(ss) > 1:
            raise ValueError("one delivery goroutine served two subjects")
        if ss:
            g2sub[gid] = ss.pop()
    pubs_by_sub = {}
    for o in req["ops"]:
        if o["op"] == "pub":
            pubs_by_sub.setdefault(o["sub"], []).append(o["id"])
    free = [s for s in range(req["nsubs"]) if s not in g2sub.values()]
    for gid in sorted(g for g in by_g if g not in g2sub):
        # only unanswerable (no reply subject) requests were seen by this goroutine
        cand = [s for s in free if len(pubs_by_sub.get(s, [])) >= len(by_g[gid])
                and all(not msgs[i]["reply"] for i in pubs_by_sub[s][:len(by_g[gid])])]
        if not cand:
            raise ValueError("cannot attribute a delivery goroutine to a subject")
        g2sub[gid] = cand[0]
        free.remove(cand[0])
    if len(set(g2sub.values())) != len(g2sub):
        raise ValueError("two delivery goroutines for one subject")
    # k-th delivery on a subject is the k-th request published on it (one publisher, FIFO)
    tok_id = {}
    for gid, toks in by_g.items():
        seq = pubs_by_sub.get(g2sub[gid], [])
        if len(toks) > len(seq):
            raise ValueError("more deliveries than requests on a subject")
        for t, i in zip(toks, seq):
            if t in tok2id and tok2id[t] != i:
                raise ValueError("delivery order on a subject differs from publish order (request %s vs %s)" % (tok2id[t], i))
            tok_id[t] = i
    trace = []
    for k, a, b in ev:
        if k == 1:
            trace.append(("pub", a))
        elif k == 2:
            trace.append(("confirm",))
        elif k == 3:
            trace.append(("recv", g2sub[b], tok_id[a]))
        elif k == 4:
            if a not in tok_id:
                raise ValueError("started a request that was never received")
            trace.append(("start", tok_id[a]))
        elif k == 6:
            if a not in tok_id:
                raise ValueError("finished a request that was never received")
            trace.append(("finish", tok_id[a]))
        elif k == 7:
            trace.append(("stopcall",))
        elif k == 8:
            trace.append(("stopret", a))
        elif k == 9:
            trace.append(("serveret", a))
    return trace, msgs


# ------------------------------------------------------------------------------------------------
# direct oracle: C20 restated on the observations alone

def oracle(req, resp):
    if resp.get("died"):
        return "process died: " + resp["died"][-600:]
    if resp.get("err"):
        return "harness error: " + resp["err"]
    if resp.get("hang"):
        return "%s did not return (deadlock)" % resp["hang"].capitalize()
    try:
        trace, msgs = resolve(req, resp)
    except ValueError as e:
        return "trace not explainable: %s" % e
    pos = {}
    for n, t in enumerate(trace):
        pos.setdefault(t[0], []).append((n, t))
    one = lambda k: pos[k][0][0] if len(pos.get(k, [])) == 1 else None
    sc, sr, sv = one("stopcall"), one("stopret"), one("serveret")
    if sc is None or sr is None or sv is None:
        return "Stop/Serve call or return not observed exactly once"
    if pos["stopret"][0][1][1] != 0 or pos["serveret"][0][1][1] != 0:
        return "Stop or Serve returned an error"
    recv = [t[2] for _, t in pos.get("recv", [])]
    if len(set(recv)) != len(recv):
        return "a request was delivered to the handler twice"
    started = [t[1] for _, t in pos.get("start", [])]
    finished = [t[1] for _, t in pos.get("finish", [])]
    for name, l in (("started", started), ("finished", finished)):
        if len(set(l)) != len(l):
            return "a request was %s twice" % name
    replies = {i: c for i, c in (resp.get("replies") or [])}
    if resp.get("bad_reply"):
        return "a malformed or misaddressed reply was received"
    recvset = set(recv)
    for i in recv:
        m = msgs[i]
        if m["reply"]:
            if i not in started or i not in finished:
                return "request %d was received but not processed before Serve returned" % i
            want = 1 if m["out"] else 0
            if replies.get(i, 0) != want:
                return "request %d: %d replies received, expected %d" % (i, replies.get(i, 0), want)
        elif i in started:
            return "request %d without reply subject was processed" % i
    for i in started:
        if i not in recvset:
            return "request %d processed but never received" % i
    for i in replies:
        if i not in recvset:
            return "reply for request %d that was never received" % i
    for n, t in pos.get("finish", []):
        if n > sv:
            return "request %d finished after Serve returned" % t[1]
    for n, t in pos.get("recv", []):
        if n > sr:
            return "request %d handed to the handler after Stop returned" % t[2]
    # confirmed at the broker before Stop was called => must have been received
    confirmed = set()
    seen = []
    for n, t in enumerate(trace):
        if n >= sc:
            break
        if t[0] == "pub":
            seen.append(t[1])
        elif t[0] == "confirm":
            confirmed.update(seen)
    for i in sorted(confirmed):
        if i not in recvset:
            return "request %d reached the broker before Stop was called but was never received" % i
    for n, t in pos.get("pub", []):
        if n > sr and t[1] in recvset:
            return "request %d published after Stop returned was accepted" % t[1]
    if resp.get("qleft", 0) != 0:
        return "work queue not empty after Serve returned"
    return None


# ------------------------------------------------------------------------------------------------
# judge encoding

def judge_case(req, resp):
    try:
        trace, msgs = resolve(req, resp)
    except ValueError:
        return [req["nsubs"], req["workers"], req["qlen"], [[0]], []]
    recvset = {t[2] for t in trace if t[0] == "recv"}
    evs = []
    for t in trace:
        if t[0] == "pub":
            m = msgs[t[1]]
            evs.append([1, m["id"], m["sub"], m["reply"], m["out"], m["id"] in recvset])
        elif t[0] == "confirm":
            evs.append([2])
        elif t[0] == "recv":
            evs.append([3, t[1], t[2]])
        elif t[0] == "start":
            evs.append([4, t[1]])
        elif t[0] == "finish":
            evs.append([6, t[1]])
        elif t[0] == "stopcall":
            evs.append([7])
        elif t[0] == "stopret":
            evs.append([8 if t[1] == 0 else 0])
        elif t[0] == "serveret":
            evs.append([9 if t[1] == 0 else 0])
    reps = []
    for i, c in sorted((resp.get("replies") or [])):
        reps.extend([i] * c)
    if resp.get("hang") or resp.get("died") or resp.get("bad_reply"):
        evs.append([0])
    return [req["nsubs"], req["workers"], req["qlen"], evs, reps]


def pub_req(req):
    return {k: v for k, v in req.items() if not k.startswith("_")}


def run(ctx, br):
    quick = ctx.tier == "quick"
    rep = getattr(ctx, "replaying", None)
    if rep and isinstance(rep.get("replay"), dict) and rep["replay"].get("request"):
        reqs = [dict(rep["replay"]["request"], _class="replay", _profile="replay") for _ in range(5)]
    else:
        n = 420 if quick else 6000
        reqs = [gen_case(ctx.rng, i, not quick) for i in range(n)]
    resps = run_impl(reqs, par=4 if quick else 6)
    oracle_fail = 0
    whys = []
    for q, r in zip(reqs, resps):
        why = oracle(q, r)
        whys.append(why)
        if why:
            oracle_fail += 1
            ctx.violation("C20 oracle: " + why, {"request": pub_req(q), "observed": r})
    jc = [judge_case(q, r) for q, r in zip(reqs, resps)]
    verdicts = vlib.run_judge(ctx.rundir, "JNatsServer", "judge", jc)
    mism = [i for i, v in enumerate(verdicts) if v < 0]
    if mism:
        diag = vlib.run_judge(ctx.rundir, "JNatsServer", "judge_diag", [jc[i] for i in mism], name="d")
    for k, i in enumerate(mism):
        if whys[i]:
            continue
        ctx.violation("C20 correspondence: the model cannot reproduce the observed execution",
                      {"request": pub_req(reqs[i]), "observed": resps[i], "no_failing_input_found": True,
                       "broken": "correspondence JNatsServer.judge (Model/NatsServer.v vs lib/go/nats_server.go)",
                       "model_stuck_at_event": diag[k], "events_for_judge": jc[i][3][:diag[k] + 1][-6:]})
    tags = {}
    flagc = {}
    for v in verdicts:
        if v >= 0:
            tags[v] = tags.get(v, 0) + 1
            for b, name in FLAG_NAMES.items():
                if v & b:
                    flagc[name] = flagc.get(name, 0) + 1
    hist = {}
    for q in reqs:
        for key in ("class:" + q["_class"], "dur:" + q["_profile"], "workers:%d" % q["workers"],
                    "qlen:%d" % q["qlen"], "nsubs:%d" % q["nsubs"]):
            hist[key] = hist.get(key, 0) + 1
    nreq = [sum(1 for o in q["ops"] if o["op"] == "pub") for q in reqs]
    distinct = len({(q["nsubs"], q["workers"], q["qlen"], v, q["_class"]) for q, v in zip(reqs, verdicts)
                    if v >= 0 and any(o["op"] == "pub" for o in q["ops"])})
    ctx.assumptions += [
        "nats.go v1.33.1 / nats-server v2.10.11 semantics as modelled (per-subscription FIFO, one callback in flight, "
        "UNSUB ordered before the PONG of Flush, Barrier marker behind pending messages, checkDrained removes a "
        "subscription only when its pending count is 0); validated on every run by trace inclusion, not proved",
        "worker count >= 1; one publisher connection; the connection stays healthy; requests carry >= 4 bytes (C05 owns short frames)",
    ]
    return {
        "evaluations": len(reqs),
        "distinct_nontrivial": distinct,
        "rule": "seeded cases: subjects 1..3, workers 1..8, queue length 0..64 (incl. shorter than the burst), burst 1..%d, "
                "handler 0..20 ms, Stop before/during/after the burst (sync or concurrent with publishing), requests after "
                "Stop returned, with/without reply subject and output; non-trivial = accepted trace with >= 1 request; "
                "distinct by (subjects, workers, queue length, model branch tag, Stop position class)" % (60 if quick else 200),
        "traces_validated_against_impl": len([v for v in verdicts if v >= 0]),
        "judge_mismatches": len(mism),
        "oracle_failures": oracle_fail,
        "model_branch_tags": len(tags),
        "model_branch_flags": flagc,
        "requests_total": sum(nreq),
        "max_burst": max(nreq) if nreq else 0,
        "input_histogram": hist,
        "samples": [{"request": pub_req(reqs[i]), "events": (resps[i].get("events") or [])[:40],
                     "replies": (resps[i].get("replies") or [])[:10], "tag": verdicts[i]}
                    for i in (0, 1, 2) if i < len(reqs)],
    }
