"""C17 — op ids are unique and FContexts are safe to share and clone."""
import json
import os

import vlib
from props import ctx_common as cc

HARNESS_BINS = ["vh_ctx"]


def opid(c):
    for k, v in c["req"]:
        if bytes.fromhex(k) == b"_opid":
            return bytes.fromhex(v)
    return None


def oracle(ops, resp):
    """Direct statement on the observations: (a) op ids handed out at creation are pairwise distinct,
    (b) a clone starts equal except _opid, (c) an op on one context / user map changes nothing else."""
    dumps = resp["dumps"]
    prev = {"ctxs": [], "umaps": []}
    born = []
    for step, (o, d) in enumerate(zip(ops, dumps)):
        cs, us = d.get("ctxs") or [], d.get("umaps") or []
        pcs, pus = prev.get("ctxs") or [], prev.get("umaps") or []
        if len(cs) > len(pcs):
            new = cs[-1]
            nid = opid(new)
            if nid in born:
                return "step %d: new context received an op id already handed out" % step
            born.append(nid)
            if o["k"] == 6:
                src = pcs[o["i"]]
                strip = lambda m: [p for p in m if bytes.fromhex(p[0]) != b"_opid"]
                if strip(new["req"]) != strip(src["req"]) or new["resp"] != src["resp"] or \
                        (new.get("eph") or []) != (src.get("eph") or []) or new["timeout_ns"] != src["timeout_ns"]:
                    return "step %d: clone does not start equal to its original" % step
                if opid(new) == opid(src):
                    return "step %d: clone kept the op id" % step
        # frame condition
        target = None
        if o["k"] in (2, 3, 9):
            target = o["i"]
        for j, (a, b) in enumerate(zip(pcs, cs)):
            if j == target:
                continue
            if a["req"] != b["req"] or a["resp"] != b["resp"]:
                return "step %d: op %s changed the headers of another context (%d)" % (step, json.dumps(o), j)
            if (a.get("eph") or []) != (b.get("eph") or []) and o["k"] != 2:
                return "step %d: op %s changed ephemeral properties of context %d" % (step, json.dumps(o), j)
        for j, (a, b) in enumerate(zip(pus, us)):
            if a != b and not (o["k"] == 5 and o["u"] == j):
                return "step %d: a map returned by a getter changed behind the user's back" % step
        prev = d
    return None


def run(ctx, br):
    rng = ctx.rng
    quick = ctx.tier == "quick"
    nseq, maxlen = (120, 26) if quick else (5000, 60)
    seqs = [cc.gen_seq(rng, rng.randrange(3, maxlen)) for _ in range(nseq)]
    # reserved-name-free sequences too (the hypothesis of c17_opids_distinct)
    seqs += [cc.gen_seq(rng, rng.randrange(3, maxlen), reserved_p=0.0) for _ in range(nseq // 5)]
    resps = cc.run_ctx([{"ops": s} for s in seqs])
    bad = 0
    for s, r in zip(seqs, resps):
        if r.get("panic"):
            bad += 1
            ctx.violation("C17: context operations crashed: %s" % r["panic"], {"ops": s})
            continue
        why = oracle(s, r)
        if why:
            bad += 1
            ctx.violation("C17 oracle: " + why, {"ops": s, "observed_tail": r["dumps"][-1]})
    ok = [(s, r) for s, r in zip(seqs, resps) if not r.get("panic")]
    verdicts = vlib.run_judge(ctx.rundir, "JContext", "judge", [cc.tok_case(s, r) for s, r in ok])
    mism = 0
    for (s, r), v in zip(ok, verdicts):
        if v < 0:
            mism += 1
            rep = {"ops": s, "observed": r["dumps"][-1], "start": r["start"]}
            if not oracle(s, r):
                rep["no_failing_input_found"] = True
                rep["broken"] = "correspondence JContext.judge (Model/Context.v disagrees with context.go/protocol.go on this op sequence)"
            ctx.violation("C17 correspondence: model and implementation disagree on an operation sequence", rep)
    # concurrency stress (supporting evidence for the atomic-counter / mutex assumptions; a test, not a proof)
    g, n = (32, 2000) if quick else (64, 50000)
    rc, out, err = vlib.sh([os.path.join(vlib.BIN, "vh_ctx"), "stress", str(g), str(n)], timeout=900)
    stress = {}
    try:
        stress = json.loads(out.strip().split("\n")[-1])
    except ValueError:
        ctx.violation("C17: concurrent stress run crashed", {"stderr_head": err[:800], "stderr_tail": err[-800:], "goroutines": g, "per_goroutine": n})
    if stress and (stress.get("duplicates", 0) != 0 or stress.get("total") != g * n):
        ctx.violation("C17: duplicate op ids under concurrent creation/cloning/receiving",
                      {"stress": stress, "goroutines": g, "per_goroutine": n})
    kinds = {}
    for s in seqs:
        for o in s:
            kinds[o["k"]] = kinds.get(o["k"], 0) + 1
    distinct = len({json.dumps(s) for s in seqs if len({o["k"] for o in s}) >= 3})
    ctx.assumptions += ["atomic.AddUint64 is atomic and sync.RWMutex gives mutual exclusion: each FContext method is one atomic "
                        "step of the model (lock discipline of context.go checked by reading; race detector not available offline "
                        "without cgo)", "fewer than 2^64 contexts per process"]
    return {
        "evaluations": len(seqs),
        "distinct_nontrivial": distinct,
        "rule": "seeded operation sequences (create, add request/response/ephemeral entries incl. reserved names, set timeout, "
                "take map copies, mutate the copies, clone, receive from a protocol, merge response headers) on real FContexts; "
                "after EVERY operation all maps of all contexts and user-held copies are compared with the heap model; "
                "non-trivial = at least 3 different operation kinds; distinct by sequence",
        "traces_validated_against_impl": sum(1 for v in verdicts if v >= 0),
        "trace_steps_validated": sum(v for v in verdicts if v >= 0),
        "judge_mismatches": mism,
        "oracle_failures": bad,
        "op_kind_histogram": {str(k): v for k, v in sorted(kinds.items())},
        "stress": stress,
        "samples": [{"ops": s[:8]} for s in seqs[:2]],
    }
