"""C12 — size limits are enforced exactly and reported, never silently."""
import json
import os

import vlib

HARNESS_BINS = ["vh_c12"]

MIB = 1024 * 1024
PROTOS = ["binary", "compact", "json"]
BIG_KINDS = ["str", "bin", "list_str", "list_bin", "list_i32", "map", "struct", "set_str"]
POSITIONS = ["first", "middle", "last"]
KNUM = {"bool": 0, "byte": 1, "i16": 2, "i32": 3, "i64": 4, "double": 5, "str": 6, "bin": 7}
OPNUM = {"W": 0, "S": 1, "B": 2, "R": 3, "H": 4, "Y": 5}
CODE_NAMES = {0: "ok", 2: "NOT_OPEN", 3: "TIMED_OUT", 6: "EOF", 7: "other error", 11: "REQUEST_TOO_LARGE",
              12: "RESPONSE_TOO_LARGE", 20: "other transport exception", 30: "application exception",
              40: "protocol exception", 100: "panic / process died", 102: "hang", 103: "harness failure"}


# ------------------------------------------------------------------------------------------------
# harness I/O

def run_harness(reqs, timeout=1500):
    """Run requests through vh_c12; a request that kills the process (fatal error) yields code 100."""
    resps = []
    pending = list(reqs)
    guard = 0
    while pending and guard < 40:
        guard += 1
        inp = ("\n".join(json.dumps(r) for r in pending) + "\n").encode()
        rc, out, err = vlib.sh([os.path.join(vlib.BIN, "vh_c12")], inp=inp, timeout=timeout)
        got = []
        for l in out.split("\n"):
            if l.strip():
                try:
                    got.append(json.loads(l))
                except ValueError:
                    got.append({"code": 103, "msg": "unparsable harness output: " + l[:200]})
        resps.extend(got[:len(pending)])
        if len(got) >= len(pending):
            break
        resps.append({"code": 100, "panic": "harness process died on this request: " + err[:300] + " ... " + err[-200:]})
        pending = pending[len(got) + 1:]
    while len(resps) < len(reqs):
        resps.append({"code": 103, "msg": "no response"})
    return resps


# ------------------------------------------------------------------------------------------------
# message values

def small_value(rng):
    k = rng.choice(["i32", "bool", "str", "double", "i64", "byte", "i16", "bin"])
    if k in ("str", "bin"):
        return [k, rng.randrange(0, 6)]
    if k == "bool":
        return [k, rng.randrange(0, 2)]
    return [k, rng.randrange(0, 100)]


def split_sizes(rng, n, parts):
    """parts non-negative sizes adding up to n"""
    parts = max(1, parts)
    cuts = sorted(rng.randrange(0, n + 1) for _ in range(parts - 1))
    out, prev = [], 0
    for c in cuts + [n]:
        out.append(c - prev)
        prev = c
    return out


def big_value(rng, kind, n, parts):
    """a value whose variable part carries about n payload bytes"""
    if kind in ("str", "bin"):
        return [kind, n]
    if kind in ("list_str", "list_bin", "set_str"):
        k = "bin" if kind == "list_bin" else "str"
        sizes = split_sizes(rng, n, parts)
        if kind == "set_str":
            return ["set", "str", [["str", s] for s in sizes]]
        return ["list", k, [[k, s] for s in sizes]]
    if kind == "list_i32":
        return ["list", "i32", [["i32", i] for i in range(min(1500, max(0, n // 4)))]]
    if kind == "map":
        sizes = split_sizes(rng, n, 2 * max(1, parts // 2))
        return ["map", "str", "bin", [[["str", sizes[2 * i]], ["bin", sizes[2 * i + 1]]] for i in range(len(sizes) // 2)]]
    if kind == "struct":
        sizes = split_sizes(rng, n, 2)
        return ["struct", [[1, ["i32", 1]], [2, ["str", sizes[0]]], [3, ["struct", [[1, ["bin", sizes[1]]]]]]]]
    raise ValueError(kind)


def shaped_struct(rng, kind, pos, n, parts, result=False):
    """a struct with the large part first, in the middle or last"""
    big = big_value(rng, kind, n, parts)
    smalls = [small_value(rng) for _ in range(2)]
    order = {"first": [big] + smalls, "middle": [smalls[0], big, smalls[1]], "last": smalls + [big]}[pos]
    ids = [0, 1, 2] if result else [1, 2, 3]
    return ["struct", [[i, v] for i, v in zip(ids, order)]]


def with_big(v, n):
    """the same shape with its (first) str/bin payload resized to n; returns (value, done)"""
    k = v[0]
    if k in ("str", "bin"):
        return [k, max(0, n)], True
    if k in ("list", "set"):
        out, done = [], False
        for e in v[2]:
            if not done:
                e, done = with_big(e, n)
            out.append(e)
        return [k, v[1], out], done
    if k == "map":
        out, done = [], False
        for kk, vv in v[3]:
            if not done:
                vv, done = with_big(vv, n)
            out.append([kk, vv])
        return [k, v[1], v[2], out], done
    if k == "struct":
        out, done = [], False
        for i, e in v[1]:
            if not done and e[0] not in ("i32", "bool", "double", "i64", "byte", "i16"):
                e2, d = with_big(e, n)
                if d:
                    e, done = e2, True
            out.append([i, e])
        return [k, out], done
    return v, False


def first_big(v):
    k = v[0]
    if k in ("str", "bin"):
        return v[1]
    if k in ("list", "set"):
        for e in v[2]:
            r = first_big(e)
            if r is not None:
                return r
    if k == "map":
        for _, vv in v[3]:
            r = first_big(vv)
            if r is not None:
                return r
    if k == "struct":
        for _, e in v[1]:
            r = first_big(e)
            if r is not None:
                return r
    return None


def val_tok(v):
    k = v[0]
    if k in KNUM and k not in ("str", "bin"):
        return [KNUM[k]]
    if k in ("str", "bin"):
        return [KNUM[k], v[1]]
    if k in ("list", "set"):
        return [8, [val_tok(e) for e in v[2]]]
    if k == "map":
        return [9, [[val_tok(a), val_tok(b)] for a, b in v[3]]]
    if k == "struct":
        return [10, [val_tok(e) for _, e in v[1]]]
    raise ValueError(k)


def ops_tok(ops):
    return [[OPNUM[k], n] for k, n in (ops or [])]


def ops_total(ops):
    return sum(n for _, n in (ops or []))


# ------------------------------------------------------------------------------------------------
# buffer traces

def gen_buf_cases(rng, n):
    cases = []
    limits = [0, 1, 2, 3, 4, 5, 8, 16, 64, 1000, 65536, MIB]
    for i in range(n):
        lim = limits[i % len(limits)] if i % 3 else rng.choice([rng.randrange(0, 40), rng.randrange(0, 5000)])
        ops, cur = [], 4
        for _ in range(rng.randrange(1, 30)):
            r = rng.random()
            if r < 0.70:
                k = rng.choice("WSB") if rng.random() < 0.8 else rng.choice("WS")
                if k == "B":
                    sz = rng.randrange(0, 256)  # the byte value
                    add = 1
                else:
                    room = lim - cur if lim else rng.randrange(0, 50)
                    c = rng.random()
                    if c < 0.45:
                        sz = max(0, room + rng.choice([-2, -1, 0, 0, 1, 2]))
                    elif c < 0.8:
                        sz = rng.randrange(0, max(1, min(max(room, 1), 40)))
                    else:
                        sz = rng.choice([0, 0, 1, 7, 4096, 70000])
                    add = sz
                ops.append([k, sz])
                if lim and cur + add > lim:
                    cur = 4
                else:
                    cur += add
            elif r < 0.8:
                ops.append(["R", 0])
                cur = 4
            elif r < 0.9:
                ops.append(["H", 0])
            else:
                ops.append(["Y", 0])
        cases.append({"kind": "buf", "req": {"op": "buf", "limit": lim, "ops": ops}})
    return cases


def oracle_buf(case, resp):
    """direct statement on the observations: after every step Len() never exceeds a positive limit
    (beyond the 4-byte placeholder), a write is rejected iff it would exceed it, a rejected write
    leaves Len() = 4, an accepted one adds exactly its bytes"""
    if resp.get("code", 0) != 0:
        return "buffer operation sequence crashed: %s %s" % (resp.get("panic", ""), resp.get("msg", ""))
    lim = case["req"]["limit"]
    steps = resp.get("steps") or []
    ops = case["req"]["ops"]
    if len(steps) != len(ops) + 1:
        return "wrong number of observations"
    cur = steps[0][1]
    if cur != 4:
        return "new buffer does not hold the 4-byte frame placeholder"
    for (k, n), (code, l, extra) in zip(ops, steps[1:]):
        if k in "WSB":
            add = 1 if k == "B" else n
            too = lim > 0 and cur + add > lim
            if too and (code != 11 or l != 4):
                return "write of %d bytes (%s) at Len %d past limit %d: code %d, Len %d (want REQUEST_TOO_LARGE, Len 4)" % (add, k, cur, lim, code, l)
            if not too and (code != 0 or l != cur + add):
                return "write of %d bytes (%s) at Len %d within limit %d: code %d, Len %d" % (add, k, cur, lim, code, l)
            cur = l
        elif k == "R":
            if l != 4:
                return "Reset does not restore the initial state"
            cur = 4
        elif k == "H":
            if extra != (1 if cur > 4 else 0) or l != cur:
                return "HasWriteData wrong"
        elif k == "Y":
            if extra != cur - 4 or l != cur:
                return "Bytes() frame prefix wrong"
    return None


def judge_buf(case, resp):
    return [1, case["req"]["limit"], ops_tok(case["req"]["ops"]), [list(s) for s in (resp.get("steps") or [])]]


# ------------------------------------------------------------------------------------------------
# calls

def framed_of(resp):
    return 4 + resp.get("req_hdr", 0) + ops_total(resp.get("req_ops"))


def oracle_call(case, resp):
    q = case["req"]
    code = resp.get("code")
    if code in (100, 102, 103):
        return "call crashed / hung: %s %s" % (resp.get("panic", ""), resp.get("msg", ""))
    framed = framed_of(resp)
    lim = MIB if q["transport"] == "nats" else q.get("reqlimit", 0)
    sent = resp.get("sent") or []
    why = None
    if lim > 0 and framed > lim:
        if code != 11:
            why = "request of %d framed bytes over the limit %d: caller got %s, want REQUEST_TOO_LARGE" % (framed, lim, CODE_NAMES.get(code, code))
        elif sent or resp.get("server_got"):
            why = "oversize request (%d > %d) was transmitted (%s)" % (framed, lim, sent)
    else:
        if code == 11:
            why = "request of %d framed bytes within the limit %d rejected with REQUEST_TOO_LARGE" % (framed, lim)
        elif sent != [framed] or not resp.get("sent_ok"):
            why = "request within the limit: transport was handed %s (sent_ok=%s), want one intact frame of %d bytes" % (sent, resp.get("sent_ok"), framed)
        elif resp.get("server_got") != 1 or not resp.get("args_ok"):
            why = "server did not receive the arguments intact"
        else:
            unframed = resp.get("rep_hdr", 0) + ops_total(resp.get("rep_ops"))
            if q["transport"] == "nats":
                over = 4 + unframed > MIB
                rl = MIB
            else:
                rl = q.get("resplimit", 0)
                over = rl > 0 and unframed > rl
            if q.get("oneway") and q["transport"] == "nats":
                # nobody waits for the answer
                if code != 0:
                    why = "oneway request within the limit failed: %s %s" % (CODE_NAMES.get(code, code), resp.get("msg"))
            elif over:
                if code != 12:
                    why = "reply of %d bytes over the limit %d: caller got %s (%s), want RESPONSE_TOO_LARGE" % (
                        unframed + 4, rl, CODE_NAMES.get(code, code), resp.get("msg"))
            else:
                if q.get("oneway"):
                    if code != 0:
                        why = "oneway request within the limits failed: %s %s" % (CODE_NAMES.get(code, code), resp.get("msg"))
                elif code != 0 or not resp.get("result_ok"):
                    why = "reply of %d bytes within the limit %d: caller got %s (%s) result_ok=%s" % (
                        unframed + 4, rl, CODE_NAMES.get(code, code), resp.get("msg"), resp.get("result_ok"))
                elif (resp.get("replies") or []) != [unframed + 4]:
                    why = "reply frames %s, want one of %d bytes" % (resp.get("replies"), unframed + 4)
    if why is None and q.get("followup"):
        for name, what in (("follow", "follow-up call on the same client and server"),
                           ("follow2", "follow-up call re-using the same FContext")):
            fr, un = resp.get(name + "_sizes") or [0, 0]
            rl = MIB if q["transport"] == "nats" else q.get("resplimit", 0)
            if lim > 0 and fr > lim:
                want = 11
            elif (q["transport"] == "nats" and 4 + un > MIB) or (q["transport"] != "nats" and rl > 0 and un > rl):
                want = 12
            else:
                want = 0
            got = resp.get(name + "_code")
            if got != want or (want == 0 and not resp.get(name + "_ok")):
                why = "%s (request %d bytes, reply %d) after outcome %s: got %s %s, want %s" % (
                    what, fr, un + 4, CODE_NAMES.get(code, code), CODE_NAMES.get(got, got), resp.get(name + "_msg"),
                    CODE_NAMES.get(want))
                break
    return why


def judge_call(case, resp):
    q = case["req"]
    ran = 1 if resp.get("server_got") else 0
    binp = 1 if q["proto"] == "binary" else 0
    return [2, 0 if q["transport"] == "nats" else 1, q.get("reqlimit", 0), q.get("resplimit", 0),
            resp.get("req_hdr", 0), ops_tok(resp.get("req_ops")), ran,
            resp.get("rep_hdr", 0), resp.get("min_hdr", 0), ops_tok(resp.get("rep_ops")), ops_tok(resp.get("err_ops")),
            resp.get("code", -5), list(resp.get("sent") or []), list(resp.get("replies") or []),
            binp, len(q.get("method", "echo")), val_tok(q["args"]) if binp else [0], val_tok(q["reply"]) if binp else [0],
            resp.get("errmsg_len", 0), 1 if q.get("oneway") else 0]


def call_req(transport, proto, args, reply, reqlimit=0, resplimit=0, method="echo", hdrs=None, rhdrs=None, oneway=False):
    q = {"op": "call", "transport": transport, "proto": proto, "args": args, "reply": reply, "method": method,
         "followup": True, "timeout_ms": 4000}
    if reqlimit:
        q["reqlimit"] = reqlimit
    if resplimit:
        q["resplimit"] = resplimit
    if hdrs:
        q["hdrs"] = hdrs
    if rhdrs:
        q["rhdrs"] = rhdrs
    if oneway:
        q["oneway"] = True
    return q


SMALL_ARGS = ["struct", [[1, ["i32", 5]]]]
SMALL_REPLY = ["struct", [[0, ["str", 7]]]]


# ------------------------------------------------------------------------------------------------
# publishes

def oracle_pub(case, resp):
    q = case["req"]
    code = resp.get("code")
    if code in (100, 102, 103):
        return "publish crashed / hung: %s %s" % (resp.get("panic", ""), resp.get("msg", ""))
    framed = framed_of(resp)
    lim = MIB if q["transport"] == "nats" else q.get("publimit", 0)
    sent = resp.get("sent") or []
    if lim > 0 and framed > lim:
        if code != 11:
            return "publish of %d framed bytes over the limit %d: got %s, want REQUEST_TOO_LARGE" % (framed, lim, CODE_NAMES.get(code, code))
        if sent:
            return "oversize publish (%d > %d) reached the broker (%s)" % (framed, lim, sent)
    else:
        if code != 0:
            return "publish of %d framed bytes within the limit %d failed: %s %s" % (framed, lim, CODE_NAMES.get(code, code), resp.get("msg"))
        if sent != [framed] or not resp.get("sent_ok"):
            return "publish within the limit: broker received %s (intact=%s), want one frame of %d bytes" % (sent, resp.get("sent_ok"), framed)
    if q.get("followup"):
        fr = (resp.get("follow_sizes") or [0, 0])[0]
        want = 11 if (lim > 0 and fr > lim) else 0
        got = resp.get("follow_code")
        if got != want or (want == 0 and not resp.get("follow_ok")):
            return "follow-up publish (%d bytes) on the same publisher: got %s %s, want %s" % (
                fr, CODE_NAMES.get(got, got), resp.get("follow_msg"), CODE_NAMES.get(want))
    return None


def judge_pub(case, resp):
    q = case["req"]
    binp = 1 if q["proto"] == "binary" else 0
    return [3, 0 if q["transport"] == "nats" else 1, q.get("publimit", 0), resp.get("req_hdr", 0), ops_tok(resp.get("req_ops")),
            resp.get("code", -5), list(resp.get("sent") or []), binp, len(q.get("method", "Op")),
            val_tok(q["args"]) if binp else [0]]


def pub_req(transport, proto, value, publimit=0, hdrs=None):
    q = {"op": "pub", "transport": transport, "proto": proto, "args": value, "method": "Op", "followup": True}
    if publimit:
        q["publimit"] = publimit
    if hdrs:
        q["hdrs"] = hdrs
    return q


# ------------------------------------------------------------------------------------------------

DELTAS = [-2, -1, 0, 1, 2]


def plan(ctx):
    """Two rounds.  Round 1 (probes, themselves checked): every chosen message once without a limit
    (HTTP / STOMP) or well below 1 MiB (NATS) to learn its exact framed size under its protocol.
    Round 2: the same message with the limit placed around that size (HTTP, STOMP: any limit), or
    with its large part resized so that the frame lands around 1 MiB (NATS)."""
    rng = ctx.rng
    quick = ctx.tier == "quick"
    shapes = []
    targets = [16, 64, 1000, 65536] if quick else [16, 64, 300, 1000, 5000, 65536, 300000]
    n_shapes = 48 if quick else 420
    for i in range(n_shapes):
        kind = BIG_KINDS[i % len(BIG_KINDS)]
        pos = POSITIONS[(i // len(BIG_KINDS) + i) % 3]
        proto = PROTOS[(i + i // 3) % 3]
        tgt = targets[i % len(targets)]
        parts = rng.choice([1, 2, 3, 8]) if tgt < 5000 else rng.choice([1, 3, 17])
        if kind == "list_i32" and tgt > 70000:
            tgt = 5000
        shapes.append({"kind": kind, "pos": pos, "proto": proto, "n": tgt, "parts": parts})
    return shapes


def evaluate(ctx, all_cases, all_resps):
    """oracle + judge on (case, observation) pairs; records violations; returns (whys, verdicts, mism)"""
    whys = []
    for c, r in zip(all_cases, all_resps):
        if c["kind"] == "buf":
            why = oracle_buf(c, r)
        elif c["kind"] == "call":
            why = oracle_call(c, r)
        elif c["kind"] == "pub":
            why = oracle_pub(c, r)
        else:
            why = None if r.get("consts") else "constants not reported: %s" % r.get("msg")
        whys.append(why)
        if why:
            ctx.violation("C12 oracle: " + why, replay_of(c, r))
    jc = []
    for c, r in zip(all_cases, all_resps):
        if c["kind"] == "buf":
            jc.append(judge_buf(c, r))
        elif c["kind"] == "call":
            jc.append(judge_call(c, r))
        elif c["kind"] == "pub":
            jc.append(judge_pub(c, r))
        else:
            jc.append([4] + list(r.get("consts") or [0] * 8))
    verdicts = vlib.run_judge(ctx.rundir, "JSizeLimit", "judge", jc)
    mism = [i for i, v in enumerate(verdicts) if v < 0]
    for i in mism:
        if not whys[i]:
            rep = replay_of(all_cases[i], all_resps[i])
            rep["no_failing_input_found"] = True
            rep["broken"] = ("correspondence JSizeLimit.judge: Model/SizeLimit.v (theorems of Props/C12.v) does not reproduce "
                             "what the implementation did on this input")
            ctx.violation("C12 correspondence: model and implementation disagree", rep)
    return whys, verdicts, mism


def run_replay(ctx, rep):
    """python3 tools/check.py C12 --replay <file>: run the recorded request again on the current tree"""
    r = rep.get("replay", rep)
    req = r.get("request")
    if not isinstance(req, dict) or "op" not in req:
        raise RuntimeError("replay file holds no harness request (broken: %s)" % r.get("broken"))
    case = {"kind": r.get("kind") or {"buf": "buf", "call": "call", "pub": "pub"}.get(req["op"], "consts"),
            "req": req, "meta": r.get("meta") or {}}
    resps = run_harness([req])
    whys, verdicts, mism = evaluate(ctx, [case], resps)
    return {"evaluations": 1, "distinct_nontrivial": 1, "rule": "replay of one recorded request",
            "traces_validated_against_impl": len([v for v in verdicts if v >= 0]),
            "oracle_failures": len([w for w in whys if w]), "judge_mismatches": len(mism),
            "samples": [replay_of(case, resps[0], brief=True)]}


def run(ctx, br):
    if getattr(ctx, "replaying", None):
        return run_replay(ctx, ctx.replaying)
    rng = ctx.rng
    quick = ctx.tier == "quick"
    cases = []          # dicts {kind, req, meta}
    # --- constants
    cases.append({"kind": "consts", "req": {"op": "consts"}})
    # --- buffer traces
    cases += gen_buf_cases(rng, 400 if quick else 6000)

    # --- round 1: probes
    shapes = plan(ctx)
    probes = []
    for s in shapes:
        args = shaped_struct(rng, s["kind"], s["pos"], s["n"], s["parts"])
        reply = shaped_struct(rng, s["kind"], s["pos"], s["n"], s["parts"], result=True)
        s["args"], s["reply"] = args, reply
        s["method"] = rng.choice(["echo", "e", "aMethodWithAMuchLongerName_%d" % rng.randrange(10)])
        probes.append({"kind": "call", "meta": dict(s, role="probe-http"),
                       "req": call_req("http", s["proto"], args, reply, method=s["method"])})
        probes.append({"kind": "pub", "meta": dict(s, role="probe-stomp"),
                       "req": pub_req("stomp", s["proto"], args)})
    # NATS probes: large part just under 1 MiB so that varint / digit counts are already right
    nats_shapes = []
    n_nats = 12 if quick else 100
    for i in range(n_nats):
        kind = ["str", "bin", "list_str", "map", "struct", "list_bin", "set_str"][i % 7]
        pos = POSITIONS[i % 3]
        proto = PROTOS[(i // 3 + i) % 3]
        parts = rng.choice([1, 2, 5])
        # JSON writes binaries as base64: 4 output bytes per 3
        n0 = (MIB - 4000) * 3 // 4 - 100 if (proto == "json" and kind in ("bin", "list_bin")) else \
            (MIB - 4000) * 6 // 7 - 100 if (proto == "json" and kind in ("map", "struct")) else MIB - 4000
        s = {"kind": kind, "pos": pos, "proto": proto, "n": n0, "parts": parts}
        s["args"] = shaped_struct(rng, kind, pos, s["n"], parts)
        s["reply"] = shaped_struct(rng, kind, pos, s["n"], parts, result=True)
        nats_shapes.append(s)
        probes.append({"kind": "call", "meta": dict(s, role="probe-nats-req"),
                       "req": call_req("nats", proto, s["args"], SMALL_REPLY)})
        probes.append({"kind": "call", "meta": dict(s, role="probe-nats-resp"),
                       "req": call_req("nats", proto, SMALL_ARGS, s["reply"])})
        probes.append({"kind": "pub", "meta": dict(s, role="probe-nats-pub"),
                       "req": pub_req("nats", proto, s["args"])})
    presps = run_harness([p["req"] for p in probes])

    # --- round 2: around the limits
    main = []
    it = iter(zip(probes, presps))
    for s in shapes:
        (pc, pr), (pp, ppr) = next(it), next(it)
        if pr.get("code") == 0 and pr.get("sent") and pr.get("replies"):
            S, R = pr["sent"][0], pr["replies"][0] - 4
            for d in (DELTAS if quick else DELTAS + [-40, 17]):
                # op ids grow (header length may change by a digit): the oracle uses the actual size of each call
                main.append({"kind": "call", "meta": dict(s, role="http-req", delta=d),
                             "req": call_req("http", s["proto"], s["args"], s["reply"], reqlimit=max(1, S + d), method=s["method"])})
                main.append({"kind": "call", "meta": dict(s, role="http-resp", delta=d),
                             "req": call_req("http", s["proto"], s["args"], s["reply"], resplimit=max(1, R + d), method=s["method"])})
            for d in (-1, 0, 1):
                main.append({"kind": "call", "meta": dict(s, role="http-oneway", delta=d),
                             "req": call_req("http", s["proto"], s["args"], s["reply"], reqlimit=max(1, S + d),
                                             method=s["method"], oneway=True)})
            main.append({"kind": "call", "meta": dict(s, role="http-both", delta=0),
                         "req": call_req("http", s["proto"], s["args"], s["reply"], reqlimit=S + rng.choice([-1, 0, 1]),
                                         resplimit=max(1, R + rng.choice([-1, 0, 1])), method=s["method"])})
        if ppr.get("code") == 0 and ppr.get("sent"):
            S = ppr["sent"][0]
            for d in DELTAS:
                main.append({"kind": "pub", "meta": dict(s, role="stomp", delta=d),
                             "req": pub_req("stomp", s["proto"], s["args"], publimit=max(1, S + d))})
    for s in nats_shapes:
        (c1, r1), (c2, r2), (c3, r3) = next(it), next(it), next(it)
        n0 = s["n"]
        if r1.get("code") == 0 and r1.get("sent"):
            base = first_big(s["args"])
            for d in DELTAS:
                v, _ = with_big(s["args"], base + (MIB + d - r1["sent"][0]))
                main.append({"kind": "call", "meta": dict(s, role="nats-req", delta=d, args=None, reply=None),
                             "req": call_req("nats", s["proto"], v, SMALL_REPLY)})
            for d in (0, 1):
                v, _ = with_big(s["args"], base + (MIB + d - r1["sent"][0]))
                main.append({"kind": "call", "meta": dict(s, role="nats-oneway", delta=d, args=None, reply=None),
                             "req": call_req("nats", s["proto"], v, SMALL_REPLY, oneway=True)})
        if r2.get("code") == 0 and r2.get("replies"):
            base = first_big(s["reply"])
            for d in DELTAS:
                v, _ = with_big(s["reply"], base + (MIB + d - r2["replies"][0]))
                main.append({"kind": "call", "meta": dict(s, role="nats-resp", delta=d, args=None, reply=None),
                             "req": call_req("nats", s["proto"], SMALL_ARGS, v)})
        if r3.get("code") == 0 and r3.get("sent"):
            base = first_big(s["args"])
            for d in DELTAS:
                v, _ = with_big(s["args"], base + (MIB + d - r3["sent"][0]))
                main.append({"kind": "pub", "meta": dict(s, role="nats-pub", delta=d, args=None, reply=None),
                             "req": pub_req("nats", s["proto"], v)})
    # --- special cases
    for proto in PROTOS:
        # tiny and degenerate limits (every message is over a limit of 1..8 bytes)
        for lim in [1, 2, 3, 4, 5, 8]:
            main.append({"kind": "call", "meta": {"role": "http-tiny", "proto": proto, "limit": lim},
                         "req": call_req("http", proto, SMALL_ARGS, SMALL_REPLY, reqlimit=lim)})
            main.append({"kind": "call", "meta": {"role": "http-tiny-resp", "proto": proto, "limit": lim},
                         "req": call_req("http", proto, SMALL_ARGS, SMALL_REPLY, resplimit=lim)})
            main.append({"kind": "pub", "meta": {"role": "stomp-tiny", "proto": proto, "limit": lim},
                         "req": pub_req("stomp", proto, ["str", 3], publimit=lim)})
        # the headers alone exceed / nearly reach the limit
        for big in [MIB, MIB - 30, MIB - 80, MIB - 130, MIB - 200]:
            main.append({"kind": "call", "meta": {"role": "nats-req-headers", "proto": proto, "hdr": big},
                         "req": call_req("nats", proto, SMALL_ARGS, SMALL_REPLY, hdrs={"big": big})})
            main.append({"kind": "call", "meta": {"role": "nats-resp-headers", "proto": proto, "hdr": big},
                         "req": call_req("nats", proto, SMALL_ARGS, SMALL_REPLY, rhdrs={"big": big})})
        main.append({"kind": "call", "meta": {"role": "http-req-headers", "proto": proto},
                     "req": call_req("http", proto, SMALL_ARGS, SMALL_REPLY, reqlimit=300, hdrs={"big": 280})})
        main.append({"kind": "call", "meta": {"role": "http-resp-headers", "proto": proto},
                     "req": call_req("http", proto, SMALL_ARGS, SMALL_REPLY, resplimit=300, rhdrs={"big": 290})})
        # bare (non-struct) published values: a string alone is written by WriteString only
        for v in (["str", 200], ["bin", 200], ["list", "str", [["str", 100], ["str", 100]]], ["double", 3]):
            for lim in (0, -5, 150, 2000):
                main.append({"kind": "pub", "meta": {"role": "stomp-bare", "proto": proto, "limit": lim},
                             "req": pub_req("stomp", proto, v, publimit=lim)})
        main.append({"kind": "pub", "meta": {"role": "nats-bare", "proto": proto},
                     "req": pub_req("nats", proto, ["str", MIB])})
        main.append({"kind": "pub", "meta": {"role": "nats-bare", "proto": proto},
                     "req": pub_req("nats", proto, ["str", 1000])})
    # random limits far from the message size (both sides), random shapes
    for i in range(20 if quick else 800):
        proto = rng.choice(PROTOS)
        a = shaped_struct(rng, rng.choice(BIG_KINDS), rng.choice(POSITIONS), rng.choice([0, 1, 10, 200, 3000]), rng.choice([1, 2, 4]))
        b = shaped_struct(rng, rng.choice(BIG_KINDS), rng.choice(POSITIONS), rng.choice([0, 1, 10, 200, 3000]), rng.choice([1, 2, 4]), result=True)
        main.append({"kind": "call", "meta": {"role": "http-random", "proto": proto},
                     "req": call_req("http", proto, a, b, reqlimit=rng.choice([0, 50, 100, 150, 400, 4000]),
                                     resplimit=rng.choice([0, 40, 90, 150, 400, 4000]))})
    rng.shuffle(main)
    resps = run_harness([c["req"] for c in cases + main])
    all_cases = probes + cases + main
    all_resps = presps + resps

    whys, verdicts, mism = evaluate(ctx, all_cases, all_resps)
    oracle_fail = len([w for w in whys if w])

    # --- coverage
    hist, tags, near = {}, {}, set()
    for c, r, v in zip(all_cases, all_resps, verdicts):
        role = (c.get("meta") or {}).get("role", c["kind"])
        key = "%s/%s" % (role, c["req"].get("proto", "-"))
        hist[key] = hist.get(key, 0) + 1
        if v >= 0:
            tags[v] = tags.get(v, 0) + 1
        m = c.get("meta") or {}
        if c["kind"] == "buf":
            if c["req"]["limit"] > 0 and any(s[0] == 11 for s in (r.get("steps") or [])):
                near.add(("buf", json.dumps(c["req"], sort_keys=True)))
        elif c["kind"] in ("call", "pub") and ("delta" in m or r.get("code") in (11, 12)):
            near.add((c["kind"], role, c["req"].get("proto"), m.get("kind"), m.get("pos"), m.get("delta"),
                      c["req"].get("reqlimit"), c["req"].get("resplimit"), c["req"].get("publimit"), r.get("code")))
    outcomes = {}
    for c, r in zip(all_cases, all_resps):
        if c["kind"] in ("call", "pub"):
            k = "%s:%s" % (c["kind"], CODE_NAMES.get(r.get("code"), r.get("code")))
            outcomes[k] = outcomes.get(k, 0) + 1
    ctx.assumptions += [
        "messages are modelled as sequences of transport writes (method + byte count); contents never enter a size decision",
        "Thrift's binary protocol is modelled value -> writes and compared with the real protocol on every binary case; "
        "compact and JSON writes are taken from a recording transport driven by the real protocol",
        "NATS broker max_payload >= 1 MiB (default), brokers deliver what they accept; net/http, nats.go, go-stomp not modelled",
        "the RESPONSE_TOO_LARGE error reply with the op-id-only header block fits 1 MiB (fails only for a method name of about 1 MiB)",
    ]
    samples = []
    for role in ("nats-resp", "http-req", "stomp", "nats-resp-headers"):
        for c, r in zip(all_cases, all_resps):
            if (c.get("meta") or {}).get("role") == role and r.get("code") in (11, 12):
                samples.append(replay_of(c, r, brief=True))
                break
    return {
        "evaluations": len(all_cases),
        "distinct_nontrivial": len(near),
        "rule": "non-trivial = a buffer trace with a positive limit in which at least one write was rejected, or a call / "
                "publish placed within +-2 (thorough: also -40, +17) bytes of a limit or rejected for size; distinct by "
                "(kind, role, protocol, large-part kind and position, delta, limits, outcome) resp. by the whole trace",
        "traces_validated_against_impl": len([v for v in verdicts if v >= 0]),
        "judge_mismatches": len(mism),
        "oracle_failures": oracle_fail,
        "model_branch_tags": {str(k): v for k, v in sorted(tags.items())},
        "input_histogram": hist,
        "outcome_histogram": outcomes,
        "samples": samples[:4],
    }


def replay_of(case, resp, brief=False):
    req = case["req"]
    r = dict(resp)
    for k in ("req_ops", "rep_ops", "err_ops", "steps"):
        if k in r and r[k] and len(r[k]) > 40:
            r[k] = r[k][:40] + ["... %d more" % (len(r[k]) - 40)]
    if brief:
        req = json.loads(json.dumps(req))
        s = json.dumps(req)
        if len(s) > 600:
            req = {"truncated": s[:600]}
    return {"kind": case["kind"], "meta": {k: v for k, v in (case.get("meta") or {}).items() if k not in ("args", "reply")},
            "request": req, "observed": r,
            "how_to_replay": "echo '<request json>' | .cache/bin/vh_c12   (built by tools/check.py with -tags verif)"}
