// Parse-only check of generated Java sources (C11): javax.tools parser, no symbol resolution.
// usage: java -cp <dir> C11JavaParse <root>...   prints one line per file with syntax errors:
//   ERR <path>:<line>: <message>      and a final line  FILES <n>
import java.io.File;
import java.nio.file.*;
import java.util.*;
import javax.tools.*;
import com.sun.source.util.JavacTask;

public class C11JavaParse {
    public static void main(String[] args) throws Exception {
        JavaCompiler jc = ToolProvider.getSystemJavaCompiler();
        List<File> files = new ArrayList<>();
        for (String root : args) {
            try (java.util.stream.Stream<Path> s = Files.walk(Paths.get(root))) {
                s.filter(p -> p.toString().endsWith(".java")).forEach(p -> files.add(p.toFile()));
            }
        }
        int n = 0;
        // in chunks, so that one diagnostic listener sees a bounded number of files
        for (int i = 0; i < files.size(); i += 200) {
            List<File> chunk = files.subList(i, Math.min(files.size(), i + 200));
            DiagnosticCollector<JavaFileObject> diags = new DiagnosticCollector<>();
            StandardJavaFileManager fm = jc.getStandardFileManager(diags, null, null);
            JavacTask task = (JavacTask) jc.getTask(null, fm, diags, Arrays.asList("-proc:none"), null,
                    fm.getJavaFileObjectsFromFiles(chunk));
            task.parse();
            for (Diagnostic<? extends JavaFileObject> d : diags.getDiagnostics()) {
                if (d.getKind() == Diagnostic.Kind.ERROR) {
                    String src = d.getSource() == null ? "?" : d.getSource().toUri().getPath();
                    System.out.println("ERR " + src + ":" + d.getLineNumber() + ": " + d.getMessage(null).replace('\n', ' '));
                }
            }
            n += chunk.size();
            fm.close();
        }
        System.out.println("FILES " + n);
    }
}
