"""C05 — no received byte sequence can crash or wedge a Frugal process."""
import itertools
import os
import struct

import vlib
from props import headers_common as hc
from props import c05_framing
from props import c05_http
from props import c05_thrift

HARNESS_BINS = ["vh", "vh_c05"]
NEEDS_FRUGAL = True          # the generated-code laboratory (props/c05_thrift.py)

SIZES = [0, 1, 3, 4, 5, 7, 8, 9, 0x7fffffff, 0x80000000, 0xffffffff]
ALPHA = [0x00, 0x01, 0x04, 0x05, 0x7f, 0x80, 0xff]


def structured(rng, n):
    """header blocks whose size fields are drawn from boundary values at every position"""
    out = []
    for _ in range(n):
        npairs = rng.randrange(0, 4)
        pairs = [(hc.rand_bytes(rng, rng.randrange(0, 6), 1), hc.rand_bytes(rng, rng.randrange(0, 6), 1))
                 for _ in range(npairs)]
        if rng.random() < 0.5:
            pairs.append((b"_opid", str(rng.randrange(0, 1000)).encode()))
        good = bytearray(hc.ref_marshal(pairs) + hc.rand_bytes(rng, rng.randrange(0, 8), 0))
        # positions of the size fields: total, then each name/value size
        pos = [1]
        i = 5
        for k, v in pairs:
            pos.append(i)
            i += 4 + len(k)
            pos.append(i)
            i += 4 + len(v)
        p = rng.choice(pos)
        body_len = len(good) - 5
        val = rng.choice(SIZES + [body_len - 1, body_len, body_len + 1, len(good)])
        good[p:p + 4] = struct.pack(">I", val % (1 << 32))
        if rng.random() < 0.3:
            good = good[:rng.randrange(0, len(good) + 1)]
        out.append(bytes(good))
    return out


def exhaustive(maxlen):
    out = []
    for n in range(0, maxlen + 1):
        for t in itertools.product(ALPHA, repeat=n):
            out.append(bytes(t))
    return out


def mutated(rng, n):
    out = []
    for _ in range(n):
        m = hc.rand_map(rng, maxn=4)
        m[b"_opid"] = str(rng.randrange(0, 10 ** rng.randrange(1, 22))).encode()
        b = bytearray(hc.ref_marshal(list(m.items())) + hc.rand_bytes(rng, rng.randrange(0, 20), 0))
        r = rng.random()
        if r < 0.25:
            b = b[:rng.randrange(0, len(b) + 1)]
        elif r < 0.6:
            for _ in range(rng.randrange(1, 4)):
                b[rng.randrange(0, len(b))] ^= 1 << rng.randrange(0, 8)
        elif r < 0.75:
            cut = rng.randrange(0, len(b))
            b = b[:cut] + b[cut:cut + 9] + b[cut:]
        # else: left valid
        out.append(bytes(b))
    return out


def prefixed(b, rng):
    """put a 4-byte size prefix in front (mostly correct, sometimes wrong or truncated)"""
    r = rng.random()
    if r < 0.7:
        return struct.pack(">I", len(b)) + b
    if r < 0.85:
        return struct.pack(">I", rng.choice(SIZES)) + b
    return (struct.pack(">I", len(b)) + b)[:rng.randrange(0, 4)]


RX = {"nats_client": 1, "nats_server": 2, "nats_scope": 3, "stomp": 4, "http": 5}


def whole_frames(b):
    """the byte stream is a sequence of complete frames (4-byte size within the limit, that many bytes)"""
    i = 0
    while i < len(b):
        if len(b) - i < 4:
            return False
        n = struct.unpack(">I", b[i:i + 4])[0]
        if n > 16384000 or len(b) - i - 4 < n:
            return False
        i += 4 + n
    return True


def run(ctx, br):
    rng = ctx.rng
    quick = ctx.tier == "quick"
    blocks = structured(rng, 500 if quick else 6000) + exhaustive(4 if quick else 6) + \
        mutated(rng, 300 if quick else 6000)
    # corpus: inputs that crashed the pinned tree
    corpus = [bytes.fromhex(x) for x in ("0000000008ffffffff00000000", "000000000107", "00ffffffff", "00", "",
                                         "00000000047fffffff", "000000000c0000000161ffffffff")]
    blocks = corpus + blocks
    # 1. parsers and function-level entry points
    reqs, meta = [], []
    for b in blocks:
        for op in ("read_stream", "read_frame"):
            reqs.append({"op": op, "bytes": b.hex(), "cap": rng.choice([0, 0, 3, 64])})
            meta.append((op, b))
    resps = hc.run_go_headers(reqs)
    assert len(resps) == len(reqs)
    c5reqs, c5meta = [], []
    for b in blocks:
        c5reqs.append({"rx": "rrh", "bad": b.hex()})
        c5meta.append(("rrh", b))
        pb = prefixed(b, rng)
        c5reqs.append({"rx": "exec", "bad": pb.hex()})
        c5meta.append(("exec", pb))
    # 2. end-to-end receivers (fewer: each is a broker round trip)
    e2e_n = 50 if quick else 1500
    pool = corpus + structured(rng, e2e_n) + mutated(rng, e2e_n) + exhaustive(2)
    for rxname in ("nats_client", "nats_server", "nats_scope", "stomp", "http"):
        for b in rng.sample(pool, min(len(pool), e2e_n)):
            pb = prefixed(b, rng)
            c5reqs.append({"rx": rxname, "bad": pb.hex()})
            c5meta.append((rxname, pb))
    # large but legal messages: a request whose REPLY cannot fit the server's bounded output (an unknown method
    # with a name of several hundred KB is echoed twice in the UNKNOWN_METHOD exception), very long header values
    def thrift_call(name):
        return struct.pack(">I", 0x80010001) + struct.pack(">I", len(name)) + name + struct.pack(">I", 0) + b"\x00"
    for size in ([600000] if quick else [300000, 520000, 600000, 900000]):
        hdr = hc.ref_marshal([(b"_opid", b"7"), (b"_cid", b"big")])
        body = hdr + thrift_call(b"m" * size)
        for rxname in ("nats_server", "http"):
            c5reqs.append({"rx": rxname, "bad": (struct.pack(">I", len(body)) + body).hex()})
            c5meta.append((rxname, struct.pack(">I", len(body)) + body))
        body = hc.ref_marshal([(b"_opid", b"7"), (b"big", b"v" * size)]) + thrift_call(b"ping")
        for rxname in ("nats_server", "nats_client", "nats_scope"):
            c5reqs.append({"rx": rxname, "bad": (struct.pack(">I", len(body)) + body).hex()})
            c5meta.append((rxname, struct.pack(">I", len(body)) + body))
    for _ in range(20 if quick else 300):
        b = hc.rand_bytes(rng, rng.randrange(0, 40), 0)
        c5reqs.append({"rx": "http_raw", "bad": b.hex()})
        c5meta.append(("http_raw", b))
    # adapter: a stream of 0..3 valid frames (unregistered op ids are dropped) then a bad tail
    for i in range(60 if quick else 1500):
        stream = b""
        for _ in range(rng.randrange(0, 4)):
            body = hc.ref_marshal([(b"_opid", str(rng.randrange(1, 10 ** 6)).encode())]) + b"xy"
            stream += struct.pack(">I", len(body)) + body
        tail = rng.choice(pool)
        r = rng.random()
        if r < 0.6:
            stream += prefixed(tail, rng)
        elif r < 0.8:
            stream += struct.pack(">I", rng.choice([16384000, 16384001, 0x7fffffff, 0xffffffff])) + tail
        c5reqs.append({"rx": "adapter", "bad": stream.hex()})
        c5meta.append(("adapter", stream))
    rc, c5resps, err = hc.run_lines([os.path.join(vlib.BIN, "vh_c05")], c5reqs, timeout=1500)
    died_at = None
    if len(c5resps) < len(c5reqs):
        died_at = len(c5resps)
        ctx.violation("C05: process died (unrecovered panic / fatal error) while receiving",
                      {"request": c5reqs[died_at], "stderr_tail": err[-1500:]})
        c5reqs, c5meta = c5reqs[:died_at], c5meta[:died_at]
    # direct oracle
    viol = 0
    for (op, b), r in zip(meta, resps):
        if r.get("code", 0) >= 100:
            viol += 1
            ctx.violation("C05: header parser %s crashed: %s" % (op, r.get("panic")),
                          {"entry": op, "bytes": b.hex(), "observed": r})
    for (rx, b), r in zip(c5meta, c5resps):
        bad = None
        if r.get("code", 0) in (100, 102) or r.get("panic"):
            bad = "crash/hang: %s" % r.get("panic")
        elif rx in RX or rx == "http_raw":
            if not r.get("good"):
                bad = "a well-formed message sent after this one was not served"
        elif rx == "adapter" and r.get("closed") == -1:
            bad = "connection neither closed nor reported after the stream ended"
        elif rx == "adapter" and r.get("closed") == 0 and not whole_frames(b):
            bad = "the stream ended inside a frame and the connection was closed cleanly (nil cause)"
        if bad:
            viol += 1
            ctx.violation("C05: receiver %s: %s" % (rx, bad), {"entry": rx, "bytes": b.hex(), "observed": r})
    # judges
    hcases = []
    for (op, b), r in zip(meta, resps):
        kn = 2 if op == "read_stream" else 3
        hcases.append([kn, b, r.get("code", 0), [[a, c] for a, c in hc.unhexpairs(r.get("map"))],
                       bytes.fromhex(r.get("rest", "") or "")])
    v1 = vlib.run_judge(ctx.rundir, "JHeaders", "judge", hcases, name="jh")
    rcases, rmeta = [], []
    for (rx, b), r in zip(c5meta, c5resps):
        if rx == "exec":
            rcases.append([8, b, r.get("code", 0)])
        elif rx == "rrh":
            rcases.append([9, b, r.get("code", 0)])
        elif rx in RX:
            rcases.append([10, RX[rx], b, 1 if r.get("good") else 0, 1 if r.get("code") == 400 else 0])
        elif rx == "adapter":
            rcases.append([11, b, r.get("closed", -1)])
        else:
            continue
        rmeta.append((rx, b, r))
    v2 = vlib.run_judge(ctx.rundir, "JReceivers", "judge", rcases, name="jr")
    mism = 0
    for ((op, b), r), v in zip(zip(meta, resps), v1):
        if v < 0:
            mism += 1
            ctx.violation("C05 correspondence: header parser model and implementation disagree",
                          {"entry": op, "bytes": b.hex(), "observed": r, "no_failing_input_found": True,
                           "broken": "correspondence JHeaders.judge / theorems c05_*_parser_total"})
    for (rx, b, r), v in zip(rmeta, v2):
        if v < 0:
            mism += 1
            ctx.violation("C05 correspondence: receiver model and implementation disagree",
                          {"entry": rx, "bytes": b.hex(), "observed": r, "no_failing_input_found": True,
                           "broken": "correspondence JReceivers.judge / Model/Receivers.v"})
    tags = set(v for v in v1 + v2 if v >= 0)
    hist = {}
    for (op, b) in meta:
        hist[op] = hist.get(op, 0) + 1
    for (rx, b) in c5meta:
        hist[rx] = hist.get(rx, 0) + 1
    rejected = sum(1 for r in resps if 0 < r.get("code", 0) < 100)
    accepted = sum(1 for r in resps if r.get("code", 0) == 0)
    distinct = len({(op, b) for (op, b), r in zip(meta, resps) if 0 < r.get("code", 0) < 100} |
                   {(rx, b) for (rx, b) in c5meta})
    framing = c05_framing.run(ctx)
    http = c05_http.run(ctx)
    thrift = c05_thrift.run(ctx)
    ctx.assumptions += [
        "framing layer: a Read on the connection returns at least one byte or an error; the connection reports "
        "errors as TTransportException (as TSocket does); bufio.Reader as in Go 1.23 (transcribed)",
        "HTTP: net/http is outside the model (it starts from status, body as read, body-read failure); "
        "encoding/base64 StdEncoding is transcribed and compared with the implementation on every run",
        "messages shorter than 2^31 bytes",
        "Thrift layer under the Frugal header (Model/ThriftLayer.v): TBinaryProtocol / TCompactProtocol readers, thrift.Skip, "
        "the generated Read through FProtocol, FBaseProcessor.Process are transcribed and proved graceful for every environment, "
        "processor map and handler whose results can be written without a nil dereference; TJSONProtocol is not modelled; "
        "sizes above Thrift's 100 MB message limit are not modelled (frames are at most 16 MB); the model has no stack: the "
        "recursion of the generated Read is bounded by 64 structs times the depth of the declared types",
        "a header block announcing up to 2 GiB makes the stream reader allocate that much before failing: a resource "
        "issue, not modelled",
    ]
    return {
        "evaluations": len(meta) + len(c5meta) + framing["evaluations"] + http["evaluations"] + thrift["evaluations"],
        "distinct_nontrivial": distinct + framing["distinct"] + http["distinct"] + thrift["distinct"],
        "framing": framing,
        "http_io": http,
        "thrift_layer": thrift,
        "rule": "three streams per entry point: boundary values at every size-field position of 0..3 pairs; all byte strings "
                "of length <= %d over {00,01,04,05,7f,80,ff}; mutations (truncate, bit flips, splice) of valid frames; "
                "plus the inputs that crashed the pinned tree. Entry points: readHeader, getHeadersFromFrame, "
                "ReadRequestHeader, ExecuteFrame, NATS client inbox, NATS server, NATS scope subscriber, STOMP subscriber, "
                "HTTP handler (base64 and raw bodies), adapter read loop over a pipe. Non-trivial = rejected input or "
                "end-to-end delivery; distinct by (entry, bytes)" % (4 if quick else 6),
        "traces_validated_against_impl": sum(1 for v in v1 + v2 if v >= 0) + framing["validated"] + http["validated"]
                                         + thrift["validated"],
        "judge_mismatches": mism + framing["mismatches"] + http["mismatches"] + thrift["mismatches"],
        "oracle_failures": viol + framing["oracle_failures"] + http["oracle_failures"] + thrift["oracle_failures"],
        "model_branch_tags": len(tags),
        "input_histogram": hist,
        "parser_inputs_rejected": rejected,
        "parser_inputs_accepted": accepted,
        "process_died": died_at is not None,
        "samples": [{"entry": m[0], "bytes": m[1].hex()[:120], "observed": r} for m, r in
                    list(zip(c5meta, c5resps))[::max(1, len(c5meta) // 5)][:6]],
    }
