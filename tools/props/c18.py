"""C18 — the IDL audit flags every breaking change and nothing else.

Seeded IDL projects (root file + included files, typedef chains through includes, containers,
all declaration kinds) x single and combined edits from the documented catalogue (props/c18_idl.py),
run through the real parser.Auditor (harness vh_c18, capturing logger) and the real `frugal -audit`
binary.  Direct oracle: the edit labels (breaking / compatible) against exit status and ERROR
lines.  Correspondence: Judge/JAudit.v replays every pair on Model/Audit.v and compares the
multiset of (level, message) and the verdict."""
import json
import os
import re

import vlib
from props import c18_idl as idl

HARNESS_BINS = ["vh_c18"]
NEEDS_FRUGAL = True


# ---------------------------------------------------------------------------------------------
# harness

def run_harness(reqs):
    resps = []
    pending = list(reqs)
    guard = 0
    while pending and guard < 50:
        guard += 1
        inp = ("\n".join(json.dumps(r) for r in pending) + "\n").encode()
        rc, out, err = vlib.sh([os.path.join(vlib.BIN, "vh_c18")], inp=inp, timeout=1500)
        got = []
        for l in out.split("\n"):
            if l.strip():
                try:
                    got.append(json.loads(l))
                except ValueError:
                    got.append({"crash": "unparsable harness output: " + l[:200], "diags": []})
        resps.extend(got)
        if len(got) >= len(pending):
            break
        resps.append({"crash": "harness process died: " + err[-600:], "diags": []})
        pending = pending[len(got) + 1:]
    return resps


def write_project(base, proj):
    os.makedirs(base, exist_ok=True)
    for name, fa in proj.items():
        with open(os.path.join(base, name + ".frugal"), "w") as fh:
            fh.write(idl.render(fa))
    return os.path.join(base, "main.frugal")


def write_texts(base, texts):
    os.makedirs(base, exist_ok=True)
    for name, txt in texts.items():
        with open(os.path.join(base, name + ".frugal"), "w") as fh:
            fh.write(txt)
    return os.path.join(base, "main.frugal")


# ---------------------------------------------------------------------------------------------
# observation -> judge tokens

def b(s):
    return s.encode("utf8")


def tok_ty(t):
    if t is None:
        return []
    return [b(t[0]), tok_ty(t[1]), tok_ty(t[2])]


def tok_fields(fs):
    return [[f["id"], b(f["name"]), f["mod"], tok_ty(f["type"]), b(f["default"])] for f in fs]


def tok_structs(ss):
    return [[b(s["name"]), tok_fields(s["fields"])] for s in ss]


def tok_program(p):
    return [
        [[b(f["name"]), [[b(t["name"]), tok_ty(t["type"])] for t in f["typedefs"]],
          [[b(i["name"]), i["file"]] for i in f["includes"]]] for f in p["files"]],
        [[b(s["name"]), b(s["prefix"]), [[b(o["name"]), tok_ty(o["type"])] for o in s["ops"]]] for s in p["scopes"]],
        [[b(n["scope"]), b(n["value"])] for n in p["namespaces"]],
        [[b(c["name"]), tok_ty(c["type"]), b(c["value"])] for c in p["constants"]],
        [[b(e["name"]), [[b(v["name"]), v["value"]] for v in e["values"]]] for e in p["enums"]],
        tok_structs(p["structs"]), tok_structs(p["exceptions"]), tok_structs(p["unions"]),
        [[b(s["name"]), b(s["extends"]),
          [[b(m["name"]), 1 if m["oneway"] else 0, tok_ty(m["ret"]), tok_fields(m["args"]), tok_fields(m["excs"])]
           for m in s["methods"]]] for s in p["services"]],
    ]


def ints_ok(o):
    if isinstance(o, bool):
        return True
    if isinstance(o, int):
        return abs(o) < (1 << 62)
    if isinstance(o, list):
        return all(ints_ok(x) for x in o)
    return True


def judge_case(resp):
    return [tok_program(resp["old"]), tok_program(resp["new"]),
            [[d["level"], b(d["msg"])] for d in resp["diags"]], 1 if resp["failed"] else 0]


# ---------------------------------------------------------------------------------------------
# direct oracle: the property on the observation, from the labels of the edits alone

def oracle(case, resp):
    """returns a list of failure strings"""
    if resp.get("crash"):
        return ["the auditor crashed or hung: " + resp["crash"][:300]]
    if resp.get("parse_err"):
        return []
    errors = [d["msg"] for d in resp["diags"] if d["level"] == 1]
    fails = []
    if resp["failed"] != bool(errors):
        fails.append("Audit returned %s but %d ERROR lines were logged" % ("an error" if resp["failed"] else "nil", len(errors)))
    if case.get("wild"):
        return fails
    edits = case["edits"]
    breaking = [e for e in edits if e["breaking"]]
    if breaking and not resp["failed"]:
        fails.append("audit passed although breaking changes were made: " + ", ".join(e["name"] for e in breaking))
    if not breaking and resp["failed"]:
        fails.append("audit failed although only compatible edits were made (%s): %s" % (
            ", ".join(e["name"] for e in edits) or "identical programs", errors[:3]))
    for e in breaking:
        if not any(re.search(p, m) for p in e["errors"] for m in errors):
            fails.append("breaking change not flagged: %s (expected an ERROR matching %s)" % (e["name"], e["errors"]))
    pats = [p for e in breaking for p in e["errors"]]
    for m in errors:
        if not any(re.search(p, m) for p in pats):
            fails.append("ERROR that corresponds to no breaking change made: %r" % m)
    return fails


# ---------------------------------------------------------------------------------------------
# case generation

def plan_for(rng, i):
    r = i % 20
    nb, nc = 0, 0
    if r == 0:
        return []
    if r < 7:
        nb = 1
    elif r < 11:
        nc = rng.randrange(1, 5)
    else:
        nb = rng.randrange(1, 4)
        nc = rng.randrange(0, 4)
    plan = [rng.choice(idl.BREAKING_EDITS) for _ in range(nb)] + [rng.choice(idl.COMPATIBLE_EDITS) for _ in range(nc)]
    rng.shuffle(plan)
    return plan


def wild_mutation(rng, gen, old):
    """unlabelled: several edits without site discipline plus declarations that repeat a name, an
    enum number (the parser accepts those) or add an exception; judged by the model only"""
    plan = [rng.choice(idl.BREAKING_EDITS + idl.COMPATIBLE_EDITS) for _ in range(rng.randrange(2, 7))]
    new, applied = idl.apply_edits(rng, gen, old, plan)
    for side in (old, new) if rng.random() < 0.5 else (new,):
        m = side["main"]
        r = rng.random()
        if r < 0.3 and m["structs"]:
            name, fs = rng.choice(m["structs"])
            m["structs"].insert(rng.randrange(len(m["structs"]) + 1), (name, gen.fields(side, "main", rng.randrange(0, 4))))
        elif r < 0.5 and m["enums"]:
            i = rng.randrange(len(m["enums"]))
            name, vals = m["enums"][i]
            if all(v is not None for _, v in vals):
                m["enums"][i] = (name, vals + [(gen.fresh("DV"), rng.choice(vals)[1])])
        elif r < 0.7:
            for _, _, ms in m["services"]:
                for me in ms:
                    if me["excs"] and gen.visible(side, "main")["exception"]:
                        e = dict(rng.choice(me["excs"]))
                        e["name"] = gen.fresh("de")
                        # a repeated exception id is rejected by validation since the C11 repair f1aae0f
                        e["id"] = max(x["id"] for x in me["excs"]) + 1
                        e["type"] = rng.choice(gen.visible(side, "main")["exception"])
                        me["excs"].insert(rng.randrange(len(me["excs"]) + 1), e)
                        break
        elif m["typedefs"]:
            name, t = rng.choice(m["typedefs"])
            pos = [n for n, _ in m["typedefs"]].index(name)
            # repeat the typedef name later with another base type (acyclic)
            m["typedefs"].insert(rng.randrange(pos + 1, len(m["typedefs"]) + 1), (name, ("b", rng.choice(idl.BASE))))
    return new, applied


def gen_cases(ctx, n_labelled, n_wild, per_base):
    rng = ctx.rng
    gen = idl.Gen(rng)
    cases = []
    base = None
    for i in range(n_labelled + n_wild):
        if base is None or i % per_base == 0:
            base = gen.project()
        if i < n_labelled:
            new, applied = idl.apply_edits(rng, gen, base, plan_for(rng, i))
            cases.append({"old": base, "new": new, "edits": applied})
        else:
            import copy
            old = copy.deepcopy(base)
            new, applied = wild_mutation(rng, gen, old)
            cases.append({"old": old, "new": new, "edits": applied, "wild": True})
    return cases


def texts_of(case):
    return ({n: idl.render(fa) for n, fa in case["old"].items()}, {n: idl.render(fa) for n, fa in case["new"].items()})


def replay_of(case, resp, extra=None):
    r = {"old_files": case["texts"][0], "new_files": case["texts"][1],
         "edits": [{k: v for k, v in e.items() if k != "claims"} for e in case.get("edits", [])],
         "wild": bool(case.get("wild")),
         "observed": {"failed": resp.get("failed"), "diags": resp.get("diags"), "crash": resp.get("crash"),
                      "parse_err": resp.get("parse_err")},
         "how": "write old_files/new_files as <name>.frugal into two directories, run "
                "`frugal -audit old/main.frugal new/main.frugal`"}
    if extra:
        r.update(extra)
    return r


def run_binary(old, new):
    """the real command line: exit status and ERROR/WARNING line counts"""
    rc, out, err = vlib.sh([os.path.join(vlib.BIN, "frugal"), "-audit", old, new], timeout=60)
    ne = len(re.findall(r"^ERROR: ", out, re.M))
    nw = len(re.findall(r"^WARNING: ", out, re.M))
    return rc, ne, nw, out


def run(ctx, br):
    quick = ctx.tier == "quick"
    rep = getattr(ctx, "replaying", None)
    if rep is not None:
        r = rep.get("replay", {})
        cases = [{"texts": (r["old_files"], r["new_files"]), "edits": [dict(e, claims=[]) for e in r.get("edits", [])],
                  "wild": r.get("wild", False)}]
    else:
        n_lab, n_wild, per_base = (340, 60, 10) if quick else (8000, 1500, 20)
        cases = gen_cases(ctx, n_lab, n_wild, per_base)
        for c in cases:
            c["texts"] = texts_of(c)
    reqs = []
    for i, c in enumerate(cases):
        d = os.path.join(ctx.rundir, "cases", str(i))
        c["paths"] = (write_texts(os.path.join(d, "old"), c["texts"][0]), write_texts(os.path.join(d, "new"), c["texts"][1]))
        reqs.append({"old": c["paths"][0], "new": c["paths"][1]})
    resps = run_harness(reqs)
    if len(resps) != len(cases):
        raise RuntimeError("harness answered %d of %d requests" % (len(resps), len(cases)))
    parse_errs = [(c, r) for c, r in zip(cases, resps) if r.get("parse_err")]
    if len(parse_errs) > max(2, len(cases) // 50):
        raise RuntimeError("generator produced %d unparsable programs, e.g. %s" % (len(parse_errs), parse_errs[0][1]["parse_err"]))
    oracle_fail = 0
    for c, r in zip(cases, resps):
        for why in oracle(c, r):
            oracle_fail += 1
            ctx.violation("C18 oracle: " + why, replay_of(c, r))
            break
    # the command line itself: exit status and number of ERROR/WARNING lines agree with the library run
    cli_checked = 0
    step = 1 if quick else 8
    for i in range(0, len(cases), step):
        c, r = cases[i], resps[i]
        if r.get("parse_err") or r.get("crash"):
            continue
        rc, ne, nw, out = run_binary(*c["paths"])
        cli_checked += 1
        want_e = len([d for d in r["diags"] if d["level"] == 1])
        want_w = len([d for d in r["diags"] if d["level"] == 2])
        if (rc != 0) != r["failed"] or ne != want_e or nw != want_w or (rc not in (0, 1)):
            ctx.violation("C18: `frugal -audit` exit status / ERROR lines disagree with the auditor's log "
                          "(exit %d, %d ERROR, %d WARNING lines; log has %d errors, %d warnings)" % (rc, ne, nw, want_e, want_w),
                          replay_of(c, r, {"cli_output": out[-1500:]}))
    # correspondence with the Coq model
    live = [(c, r) for c, r in zip(cases, resps) if not r.get("parse_err") and not r.get("crash")]
    jcases = [judge_case(r) for _, r in live]
    for jc in jcases:
        assert ints_ok(jc)
    verdicts = vlib.run_judge(ctx.rundir, "JAudit", "judge", jcases, shard=1200000)
    mism = [i for i, v in enumerate(verdicts) if v < 0]
    for i in mism:
        c, r = live[i]
        if not oracle(c, r) and verdicts[i] in (-2, -3):
            # the model's verdict IS the specification (theorem c18_fails_iff_breaking): a different verdict of
            # the real auditor on this pair is a concrete failing input
            what = ("the auditor PASSES a pair with a breaking change (Breaking holds by c18_fails_iff_breaking)"
                    if verdicts[i] == -2 else
                    "the auditor FAILS a pair without any breaking change (Breaking does not hold)")
            ctx.violation("C18: " + what, replay_of(c, r, {"decided_by": "model verdict + theorem c18_fails_iff_breaking"}))
        elif not oracle(c, r):
            ctx.violation("C18 correspondence: Model/Audit.v does not reproduce the auditor's diagnostics on this pair",
                          replay_of(c, r, {"no_failing_input_found": True,
                                           "broken": "correspondence JAudit.judge (model Model/Audit.v, theorems c18_*)"}))
    # coverage
    hist = {}
    for c in cases:
        for e in c.get("edits", []):
            k = e["name"] + ("/wild" if c.get("wild") else "")
            hist[k] = hist.get(k, 0) + 1
        if not c.get("edits"):
            hist["identical"] = hist.get("identical", 0) + 1
    rules = {}
    for v in verdicts:
        if v >= 0:
            for bit in range(1, 26):
                if v >> bit & 1:
                    rules[bit] = rules.get(bit, 0) + 1
    distinct = len({json.dumps(c["texts"], sort_keys=True) for c in cases if c.get("edits")})
    nfiles = [len(r["old"]["files"]) for _, r in live]
    ctx.assumptions += [
        "typedef graphs acyclic (cyclic typedefs make the real auditor loop; the parser's cycle check is C11's subject)",
        "constant/default values compared through the harness's rendering (equal renderings iff reflect.DeepEqual)",
        "diagnostics compared as multisets (Go map iteration order), message texts compared exactly",
    ]
    samples = []
    for c, r in list(zip(cases, resps))[1:40:13]:
        samples.append({"edits": [e["name"] for e in c.get("edits", [])], "failed": r.get("failed"),
                        "diags": [d["msg"][:120] for d in r.get("diags", [])][:4],
                        "new_main": c["texts"][1]["main"][:300]})
    return {
        "evaluations": len(cases),
        "distinct_nontrivial": distinct,
        "rule": "seeded projects (root + 0..3 included files, nested includes, typedef chains through includes, "
                "containers to depth 3, all declaration kinds, shuffled declaration order, odd field ids) x edit plans "
                "(identity / single breaking / compatible only / combined; 23 breaking and 21 compatible edit kinds, each at a "
                "random applicable site) + unlabelled 'wild' pairs with repeated names/ids; non-trivial = at least one edit "
                "applied; distinct by rendered text of both projects",
        "traces_validated_against_impl": len([v for v in verdicts if v >= 0]),
        "judge_mismatches": len(mism),
        "oracle_failures": oracle_fail,
        "cli_runs_compared": cli_checked,
        "parse_errors_skipped": len(parse_errs),
        "model_rules_fired": {str(k): v for k, v in sorted(rules.items())},
        "distinct_rule_masks": len({v for v in verdicts if v >= 0}),
        "input_histogram": hist,
        "files_per_project_max": max(nfiles) if nfiles else 0,
        "audits_failed": len([1 for r in resps if r.get("failed")]),
        "audits_passed": len([1 for r in resps if r.get("failed") is False and not r.get("parse_err")]),
        "samples": samples,
    }
