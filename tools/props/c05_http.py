"""C05, HTTP: response path of fHTTPTransport.Request/Oneway on arbitrary status/body (httptest
server), base64 transcription check, and the handler's x-frugal-payload-limit / Content-Length
parsing. Called from props/c05.py."""
import base64
import itertools
import os
import re
import struct

import vlib
from props import headers_common as hc

STATUSES = [200, 200, 200, 201, 202, 204, 206, 299, 300, 301, 302, 303, 304, 307, 308, 399, 400, 401, 404, 413, 413,
            429, 500, 502, 503, 599, 600, 999]
SUFFIXES = [b"net/http: request canceled", b"net/http: timeout awaiting response headers",
            b"net/http: request canceled while waiting for connection", b"connect: connection refused",
            b"no such host", b"net/http: request cancele", b"no such host ", b"NO SUCH HOST"]
B64_ALPHA = [0x41, 0x51, 0x3d, 0x0a, 0x2d, 0x2f]           # A Q = \n - /
STRICT_B64 = re.compile(rb"(?:[A-Za-z0-9+/]{4})*(?:[A-Za-z0-9+/]{2}==|[A-Za-z0-9+/]{3}=)?\Z")
STRICT_INT = re.compile(rb"[+-]?[0-9]+\Z")


def rand_bytes(rng, n):
    return bytes(rng.randrange(256) for _ in range(n))


def gen_body(rng):
    """base64 text: valid encodings (frames, one-ways, short) and mutations of them"""
    r = rng.random()
    if r < 0.25:
        raw = struct.pack(">I", rng.choice([0, 1, 5, 0xffffffff])) + rand_bytes(rng, rng.randrange(0, 10))
    elif r < 0.35:
        raw = struct.pack(">I", rng.choice([0, 0, 1, 7, 0x80000000]))           # exactly 4 bytes
    elif r < 0.45:
        raw = rand_bytes(rng, rng.randrange(0, 4))                              # fewer than 4
    else:
        raw = rand_bytes(rng, rng.randrange(0, 14))
    b = bytearray(base64.b64encode(raw))
    m = rng.random()
    if m < 0.35:
        return bytes(b)
    for _ in range(rng.randrange(1, 3)):
        k = rng.random()
        pos = rng.randrange(0, len(b) + 1)
        if k < 0.25:
            b[pos:pos] = rng.choice([b"\n", b"\r\n", b"\r", b"\n\n"])
        elif k < 0.4:
            b = b[:pos]                                                          # truncate
        elif k < 0.55 and b:
            b[min(pos, len(b) - 1)] = rng.choice([0x2d, 0x5f, 0x20, 0x80, 0xff, 0x00, 0x3d, 0x2e])
        elif k < 0.7:
            b += rng.choice([b"=", b"==", b"A", b"AA", b" ", b"\n", b"\n=", b"=\n", b"x\n"])
        elif k < 0.8:
            while b.endswith(b"="):
                b = b[:-1]                                                       # padding stripped
            b += rng.choice([b"", b"=", b"\n=", b"=\r\n="])
        elif k < 0.9:
            b[pos:pos] = b"="
        else:
            b[pos:pos] = bytes([rng.randrange(256)])
    return bytes(b)


def exhaustive_b64(maxlen):
    out = []
    for n in range(0, maxlen + 1):
        for t in itertools.product(B64_ALPHA, repeat=n):
            out.append(bytes(t))
    return out


def strict_int64(b):
    if not STRICT_INT.match(b):
        return None
    v = int(b)
    return v if -(1 << 63) <= v < (1 << 63) else None


LIMITS = [None, None, b"", b"0", b"1", b"5", b"69", b"70", b"71", b"72", b"73", b"100", b"1000000", b"-1", b"-0", b"+5",
          b"+71", b"+", b"-", b"abc", b"12abc", b" 12", b"12 ", b"1_0", b"0x10", b"1e3", b"1.0",
          b"9223372036854775807", b"9223372036854775808", b"-9223372036854775808", b"-9223372036854775809",
          b"18446744073709551615", b"18446744073709551616", b"00000000000000000000000071", b"\xe0\xa5\xad",
          b"\xef\xbc\x97\xef\xbc\x91", b"7\x00", b"\x0071"]


def generate(rng, quick):
    items = []
    # 1. base64 transcription
    for b in exhaustive_b64(4 if quick else 5):
        items.append(({"rx": "hc_b64", "body": b.hex()}, {"kind": "b64", "body": b}))
    for _ in range(600 if quick else 8000):
        b = gen_body(rng)
        items.append(({"rx": "hc_b64", "body": b.hex()}, {"kind": "b64", "body": b}))
    # 2. client response path
    n = 350 if quick else 4000
    for i in range(n):
        status = rng.choice(STATUSES)
        r = rng.random()
        if status >= 300 and r < 0.35:
            body = rand_bytes(rng, rng.randrange(0, 6)) + rng.choice(SUFFIXES)
            if rng.random() < 0.2:
                body += b"\n"
        else:
            body = gen_body(rng)
        trunc = rng.random() < 0.12 and status not in (204, 304)
        oneway = 1 if rng.random() < 0.1 else 0
        q = {"rx": "hc_resp", "status": status, "body": body.hex(), "trunc": trunc, "n": oneway}
        if trunc and rng.random() < 0.6:
            # the announced Content-Length is far beyond what is delivered (and beyond any buffer one could allocate)
            q["over"] = str(rng.choice([1 << 20, 1 << 31, (1 << 32) + 5, 1 << 40, 1 << 62, (1 << 63) - 1 - len(body)]))
        items.append((q, {"kind": "resp", "status": status, "body": body, "trunc": trunc, "oneway": oneway}))
        if oneway:      # the same response through Request, to compare
            q2 = dict(q, n=0)
            items.append((q2, {"kind": "resp", "status": status, "body": body, "trunc": trunc, "oneway": 0,
                               "pair_of_previous": True}))
        if rng.random() < 0.5 or body in (b"AAAAAA==", b"AAAAAA==\n"):
            # the same response met by a two-way FStandardClient.Call: an error or a result, never a crash
            items.append((dict(q, n=2), {"kind": "call", "status": status, "body": body, "trunc": trunc}))
    # 3. server handler size header
    for i in range(250 if quick else 3000):
        limit = rng.choice(LIMITS)
        if rng.random() < 0.08:
            limit = rand_bytes(rng, rng.randrange(1, 5))
        if rng.random() < 0.15:
            limit = str(rng.randrange(40, 110)).encode()
        clen = rng.choice([None, None, None, None, -1, 0, 3, 4, 5, 1000])
        bk = rng.random()
        q = {"rx": "hs_req"}
        if bk < 0.7:
            q["bad"], body = "good", None
        elif bk < 0.8:
            body = base64.b64encode(b"\x00\x00\x00\x05\xff" + rand_bytes(rng, rng.randrange(0, 8)))  # bad version byte
            q["bad"], q["body"] = "raw", body.hex()
        else:
            body = gen_body(rng)[:rng.randrange(0, 9)]
            q["bad"], q["body"] = "raw", body.hex()
        if limit is not None:
            q["limit"] = limit.hex()
        if clen is not None:
            q["clen"] = clen
        items.append((q, {"kind": "srv", "limit": limit, "clen": clen, "body": body}))
    return items


def run(ctx):
    rng = ctx.rng
    quick = ctx.tier == "quick"
    items = generate(rng, quick)
    reqs = [q for q, _ in items]
    metas = [m for _, m in items]
    rc, resps, err = hc.run_lines([os.path.join(vlib.BIN, "vh_c05")], reqs, timeout=1500)
    viol = 0
    if len(resps) < len(reqs):
        ctx.violation("C05 http: process died (unrecovered panic / fatal error) while receiving",
                      {"request": reqs[len(resps)], "stderr_tail": err[-1500:]})
        viol += 1
        reqs, metas = reqs[:len(resps)], metas[:len(resps)]

    def bad(what, q, m, r, **extra):
        nonlocal viol
        viol += 1
        d = {"entry": q["rx"], "request": q, "observed": r}
        d.update(extra)
        ctx.violation("C05 http: " + what, d)

    cases, cmeta = [], []
    prev = None
    for q, m, r in zip(reqs, metas, resps):
        if r.get("panic") or (r.get("code") in (100, 102) and m["kind"] != "srv"):
            bad("crash/hang: %s" % r.get("panic"), q, m, r)
            continue
        if r.get("code") == 103:
            raise RuntimeError("harness refused an http request: %r -> %r" % (q, r))
        if m["kind"] == "b64":
            body = m["body"]
            dec = bytes.fromhex(r["payload"]) if r.get("payload") is not None else b""
            if STRICT_B64.match(body):
                want = base64.b64decode(body, validate=True)
                if not r.get("good") or dec != want:
                    bad("base64 decoder rejects or mangles a well-formed encoding", q, m, r)
            cases.append([33, body, 1 if r.get("good") else 0, dec])
            cmeta.append((q, m, r))
        elif m["kind"] == "resp":
            code = r.get("code")
            status, body = m["status"], m["body"]
            eff_body = b"" if status in (204, 304) else body
            if status >= 300 and code < 1000:
                bad("an error status was not reported as an error", q, m, r)
            elif status == 413 and code != 1101:
                bad("413 not reported as RESPONSE_TOO_LARGE", q, m, r)
            elif code == 3000:
                bad("error that is neither a TTransportException nor a TProtocolException", q, m, r)
            elif status < 300 and not m["trunc"] and STRICT_B64.match(eff_body):
                want = base64.b64decode(eff_body, validate=True)
                if len(want) > 4:
                    ok = (code == 1) if m["oneway"] else (code == 0 and bytes.fromhex(r.get("payload") or "") == want[4:])
                    if not ok:
                        bad("a well-formed reply did not reach the caller intact", q, m, r)
                elif len(want) == 4 and want == b"\0\0\0\0":
                    if code != 1:
                        bad("an empty (one-way) reply was not accepted", q, m, r)
                elif code != 2001:
                    bad("a reply shorter than a frame was not rejected as invalid data", q, m, r)
            if m.get("pair_of_previous") and prev is not None:
                pq, pm, pr = prev
                pc, c = pr.get("code"), code
                if (pc >= 1000) != (c >= 1000) or (pc >= 1000 and pc != c):
                    bad("Oneway and Request disagree on the same response", q, m, r, oneway_observed=pr)
            if not m["oneway"]:
                cases.append([30, status, eff_body, 1 if m["trunc"] else 0, code,
                              bytes.fromhex(r.get("payload") or "")])
                cmeta.append((q, m, r))
        elif m["kind"] == "call":
            # (a crash was reported above) a two-way call answered by an empty frame must fail, not return nil
            status, body = m["status"], m["body"]
            eff_body = b"" if status in (204, 304) else body
            if status < 300 and not m["trunc"] and STRICT_B64.match(eff_body) and \
                    base64.b64decode(eff_body, validate=True) == b"\0\0\0\0" and r.get("code") < 1000:
                bad("a two-way call answered by an empty frame returned without an error", q, m, r)
        else:
            st, ref, outlen = r.get("code"), r.get("end"), r.get("outlen")
            limit, clen = m["limit"], m["clen"]
            if st not in (200, 400, 413, 500):
                bad("handler answered with an unexpected status", q, m, r)
            lim = 0 if limit in (None, b"") else strict_int64(limit)
            eff_clen = clen if clen is not None else (1000 if m["body"] is None else len(m["body"]))
            if lim is None:
                if st != 400:
                    bad("a payload-limit header that is not an integer was not rejected with 400", q, m, r)
            elif eff_clen >= 4 and ref == 200:
                want = 413 if (lim > 0 and outlen > lim) else 200
                if st != want:
                    bad("payload limit not enforced exactly (expected %d)" % want, q, m, r)
                elif st == 200 and r.get("calls") != outlen:
                    bad("reply under a limit differs from the reply without one", q, m, r)
            honest = 1000 if m["body"] is None else len(m["body"])
            prefix_ok = 1 if (ref != 400 and honest >= 4) else 0
            cases.append([31, 0 if limit is None else 1, limit or b"", eff_clen, prefix_ok, 1 if ref == 200 else 0,
                          max(outlen, 0), st])
            cmeta.append((q, m, r))
        prev = (q, m, r)
    verdicts = vlib.run_judge(ctx.rundir, "JReceiversHttp", "judge", cases, name="jhttp")
    mism = 0
    for (q, m, r), v in zip(cmeta, verdicts):
        if v < 0:
            mism += 1
            ctx.violation("C05 correspondence: HTTP model and implementation disagree",
                          {"entry": q["rx"], "request": q, "observed": r, "no_failing_input_found": True,
                           "broken": "correspondence JReceiversHttp.judge / Model/ReceiversHttp.v "
                                     "(theorems c05_http_client_*, c05_http_server_*, c05_base64_roundtrip)"})
    hist = {}
    for m in metas:
        hist[m["kind"]] = hist.get(m["kind"], 0) + 1
    return {
        "evaluations": len(metas),
        "distinct": len({(m["kind"], m.get("status"), m.get("body"), m.get("trunc"), m.get("limit"), m.get("clen"),
                          m.get("oneway")) for m in metas}),
        "validated": sum(1 for v in verdicts if v >= 0),
        "mismatches": mism,
        "oracle_failures": viol,
        "tags": sorted(set(v for v in verdicts if v >= 0)),
        "hist": hist,
        "b64_rejected": sum(1 for m, r in zip(metas, resps) if m["kind"] == "b64" and not r.get("good")),
        "samples": [{"request": q, "observed": r} for q, r in
                    [(q, r) for q, m, r in zip(reqs, metas, resps) if m["kind"] != "b64"][::97][:4]],
    }
