"""C14 — the server answers every two-way request exactly once with a well-formed reply.

Generated processors of lab services (tools/lab.py + harness/lab/ext_c14) are driven with request
frames of every kind (known / unknown method, well-formed / malformed arguments, every handler
outcome, undecodable headers and envelopes) through processor.Process directly, through N goroutines
sharing ONE output protocol, and through the real FSimpleServer, FNatsServer and HTTP handler.
Replies are captured at the transport byte for byte and
  * parsed by the reader in this file (independent of the implementation and of the Coq model) for the
    direct oracle: exactly one reply, right op id / name / type / exception kind / body, nothing else on
    the wire, the same reply whatever server and whatever neighbours (isolation);
  * replayed on Model/Processor.v by Judge/JProcessor.v (same definitions the theorems of Props/C14.v
    are about).
"""
import collections
import struct

import lab
import lab_idl as L
import vlib
from props import c02
from props import headers_common as hc

HARNESS_BINS = ["vh_lab"]
NEEDS_FRUGAL = True

KEY = b"x-c14"
MODES = ["direct", "direct_reset", "concurrent", "simple", "nats", "http"]
MODE_NUM = {"direct": 0, "direct_reset": 1, "concurrent": 2, "simple": 3, "nats": 4, "http": 5}
BRANCHES = {1: "undecodable header / no op id", 2: "undecodable envelope", 4: "unknown method",
            8: "undecodable arguments", 16: "REPLY", 32: "oneway, nothing written", 64: "result not writable",
            128: "TApplicationException", 256: "other error"}


# ------------------------------------------------------------------------------------------------
# the fixed program (every method shape on purpose); random ones come from lab_idl.gen_program

def _F(i, name, t, mod="default"):
    return {"id": i, "name": name, "mod": mod, "type": t, "default": None}


def fixed_program(pid):
    fn = pid + "a"
    R = lambda n: ["ref", fn, n]  # noqa: E731
    f = {"name": fn, "includes": [], "typedefs": [{"name": "Ident", "type": ["i32"]}],
         "enums": [{"name": "Color", "values": [["RED", 1], ["GREEN", 2], ["BLUE", 5]]}],
         "consts": [], "scopes": [], "decl_order": "natural",
         "structs": [
             {"name": "Item", "kind": "struct", "fields": [
                 _F(1, "id", ["i32"], "required"), _F(2, "label", ["string"], "optional"),
                 _F(3, "nums", ["list", ["i64"]]), _F(4, "tags", ["map", ["string"], R("Color")])]},
             {"name": "Pick", "kind": "union", "fields": [
                 _F(1, "n", ["i32"], "optional"), _F(2, "s", ["string"], "optional"), _F(3, "item", R("Item"), "optional")]},
             {"name": "NotFound", "kind": "exception", "fields": [_F(1, "what", ["string"])]},
             {"name": "Denied", "kind": "exception", "fields": [_F(1, "code", ["i32"]), _F(2, "why", ["string"], "optional")]},
         ],
         "services": [
             {"name": "Base", "extends": None, "methods": [
                 {"name": "ping", "oneway": False, "ret": ["i32"], "args": [], "throws": []},
                 {"name": "reset", "oneway": False, "ret": None, "args": [_F(1, "gen", R("Ident"))],
                  "throws": [_F(1, "d", R("Denied"))]},
             ]},
             {"name": "Store", "extends": [fn, "Base"], "methods": [
                 {"name": "get", "oneway": False, "ret": R("Item"), "args": [_F(1, "id", ["i32"]), _F(2, "hint", ["string"])],
                  "throws": [_F(1, "nf", R("NotFound")), _F(2, "d", R("Denied"))]},
                 {"name": "choose", "oneway": False, "ret": R("Pick"),
                  "args": [_F(1, "p", R("Pick")), _F(2, "items", ["list", R("Item")])],
                  "throws": [_F(1, "nf", R("NotFound"))]},
                 {"name": "name", "oneway": False, "ret": ["string"], "args": [_F(1, "blob", ["binary"]), _F(2, "c", R("Color"))],
                  "throws": []},
                 {"name": "all", "oneway": False, "ret": ["list", R("Item")], "args": [], "throws": []},
                 {"name": "note", "oneway": True, "ret": None, "args": [_F(1, "msg", ["string"]), _F(2, "item", R("Item"))],
                  "throws": []},
                 {"name": "touch", "oneway": False, "ret": None, "args": [_F(1, "m", ["map", ["i32"], ["string"]])], "throws": []},
                 {"name": "ratio", "oneway": False, "ret": ["double"],
                  "args": [_F(1, "a", ["double"]), _F(2, "b", ["i64"]), _F(3, "flag", ["bool"]), _F(4, "sh", ["i16"]),
                           _F(5, "y", ["byte"])],
                  "throws": [_F(1, "d", R("Denied"))]},
             ]},
         ]}
    return {"id": pid, "root": fn, "order": [fn], "files": {fn: f}}


# ------------------------------------------------------------------------------------------------
# reference reader / writer of this file (independent of implementation and model)

def lower1(s):
    return s[:1].lower() + s[1:]


def envelope(name, mtype=1, seq=0, old_style=False):
    nb = name if isinstance(name, bytes) else name.encode()
    if old_style:
        return struct.pack(">i", len(nb)) + nb + struct.pack(">bi", mtype, seq)
    return struct.pack(">I", 0x80010000 | mtype) + struct.pack(">i", len(nb)) + nb + struct.pack(">i", seq)


def parse_envelope(b):
    """-> (name, type, seqid, rest) or None"""
    if len(b) < 4:
        return None
    size = struct.unpack(">i", b[:4])[0]
    if size < 0:
        u = size & 0xffffffff
        if u & 0xffff0000 != 0x80010000:
            return None
        if len(b) < 8:
            return None
        n = struct.unpack(">i", b[4:8])[0]
        if n < 0 or len(b) < 8 + n + 4:
            return None
        return b[8:8 + n], u & 0xff, struct.unpack(">i", b[8 + n:12 + n])[0], b[12 + n:]
    if len(b) < 4 + size + 5:
        return None
    t, seq = struct.unpack(">bi", b[4 + size:9 + size])
    return b[4:4 + size], t, seq, b[9 + size:]


def parse_app_exception(b):
    """-> (message, type) if b is exactly a TApplicationException struct as thrift writes it, else None"""
    msg, kind = b"", None
    i = 0
    if b[i:i + 3] == b"\x0b\x00\x01":
        if len(b) < i + 7:
            return None
        n = struct.unpack(">i", b[i + 3:i + 7])[0]
        if n <= 0 or len(b) < i + 7 + n:
            return None
        msg = b[i + 7:i + 7 + n]
        i += 7 + n
    if b[i:i + 3] != b"\x08\x00\x02" or len(b) != i + 8 or b[i + 7:] != b"\x00":
        return None
    kind = struct.unpack(">i", b[i + 3:i + 7])[0]
    return msg, kind


def parse_request(frame):
    """What a request frame says, by this file's own reader: None if headers or envelope are not decodable
    or the op id is missing; else dict(opid, cid, key, name, rest)."""
    p = hc.ref_parse(frame)
    if p is None:
        return None
    pairs, rest = p
    m = {}
    for k, v in pairs:
        m[k] = v
    if b"_opid" not in m:
        return None
    env = parse_envelope(rest)
    if env is None:
        return None
    return {"opid": m[b"_opid"], "cid": m.get(b"_cid", b""), "key": m.get(KEY), "name": env[0], "rest": env[3]}


def parse_reply(frame):
    """-> dict(headers, name, type, seq, body) or a string describing why the frame is not a well-formed reply"""
    p = hc.ref_parse(frame)
    if p is None:
        return "header block not decodable"
    pairs, rest = p
    if len(dict(pairs)) != len(pairs):
        return "duplicate header in the reply"
    env = parse_envelope(rest)
    if env is None:
        return "message envelope not decodable"
    return {"headers": dict(pairs), "name": env[0], "type": env[1], "seq": env[2], "body": env[3]}


def canon(frame):
    """a reply up to the order of its header pairs and up to the text of a PROTOCOL_ERROR (the text of the
    Go read error depends on the kind of input transport: "EOF" / "unexpected EOF")"""
    p = hc.ref_parse(frame)
    if p is None:
        return ("raw", frame)
    pairs, rest = p
    env = parse_envelope(rest)
    if env is not None and env[1] == 3:
        ex = parse_app_exception(env[3])
        if ex is not None and ex[1] == 7:
            return (tuple(sorted(pairs)), env[0], 3, env[2], "PROTOCOL_ERROR")
    return (tuple(sorted(pairs)), rest)


# ------------------------------------------------------------------------------------------------
# services of a program

class Svc:
    def __init__(self, prog, lb, fn, svc):
        self.prog, self.lb, self.fn, self.svc = prog, lb, fn, svc
        self.key = "%s.%s" % (L.go_pkg(fn), L.title(svc["name"]))
        self.methods = []       # dicts: wire, go, oneway, m, dfn, dsvc, args_sdef, result_key, result_sdef
        for dfn, dsvc, m in L.service_methods(prog, fn, svc["name"]):
            ms = {x["role"]: x for x in L.method_structs(prog, dfn, dsvc) if x["method"] == m["name"]}
            a = ms["args"]
            a["raw_args"] = m["args"]
            r = ms.get("result")
            self.methods.append({
                "wire": lower1(m["name"]).encode(), "go": L.snake_to_camel(m["name"]), "oneway": m["oneway"], "m": m,
                "dfn": dfn, "dsvc": dsvc, "args_sdef": a, "args_key": lb.struct_key(dfn, a["go_name"]),
                "result_sdef": r, "result_key": lb.struct_key(dfn, r["go_name"]) if r else ""})
        names = {}
        for f in prog["order"]:
            ff = prog["files"][f]
            for d in ff["typedefs"] + ff["enums"] + ff["structs"]:
                names[(f, d["name"])] = len(names) + 1
        self.names = names

    def method_toks(self):
        out = []
        for i, m in enumerate(self.methods):
            self_name = 100000 + i
            env = c02.env_tok(self.prog, self.names, m["args_sdef"], m["dfn"], self_name)
            out.append([m["wire"], 1 if m["oneway"] else 0, env, [11, self_name]])
        return out

    def results_map(self):
        return {m["go"]: m["result_key"] for m in self.methods}


# ------------------------------------------------------------------------------------------------
# generation of one batch of frames for a service

APP_KINDS = [-1, 0, 1, 3, 6, 7, 11, 12, 42, 100, 2147483647, -2147483648]


def rand_text(rng, allow_empty=True):
    r = rng.random()
    if r < 0.12 and allow_empty:
        return b""
    if r < 0.2:
        return bytes(rng.randrange(256) for _ in range(rng.randrange(1, 40)))
    return "".join(rng.choice("abcdefghij klmnop:_-XYZ09é") for _ in range(rng.randrange(1, 30))).encode()


def gen_outcome(rng, sv, m):
    """-> (spec for the harness, description)"""
    mm = m["m"]
    choices = ["ret"] * 4 + ["appexc"] * 2 + ["other"] * 2
    if mm["throws"]:
        choices += ["declared"] * 3
    if not m["oneway"] and mm["ret"] is not None and L.head_kind(sv.prog, mm["ret"]) == "struct":
        rr = L.resolve(sv.prog, mm["ret"])
        if L.lookup(sv.prog, rr[1], rr[2])[1]["kind"] == "union":
            choices += ["unwritable"] * 6
    k = rng.choice(choices)
    spec = {"method": m["go"], "result": m["result_key"]}
    extra = []
    if rng.random() < 0.25:
        for _ in range(rng.randrange(1, 3)):
            extra.append([("x-r%d" % rng.randrange(5)).encode().hex(), rand_text(rng).hex()])
    spec["extra"] = extra
    if k == "appexc":
        spec.update(k="appexc", type=rng.choice(APP_KINDS), msg=rand_text(rng).hex())
    elif k == "other":
        spec.update(k="other", msg=rand_text(rng).hex())
    elif k == "declared":
        e = rng.choice(mm["throws"])
        v = det_value(sv.prog, e["type"], L.gen_value(rng, sv.prog, e["type"]))
        if v is None:
            v = {}
        spec.update(k="declared", field=e["id"], value={str(e["id"]): L.to_wire(sv.prog, e["type"], v)})
    elif k == "unwritable":
        # a union with nothing set (or a struct whose nested union has nothing set): Write returns an error
        spec.update(k="ret", value={"0": {}})
    else:
        if m["oneway"] or mm["ret"] is None:
            spec.update(k="ret", value={})
        else:
            v = det_value(sv.prog, mm["ret"], L.gen_value(rng, sv.prog, mm["ret"]))
            spec.update(k="ret", value={"0": L.to_wire(sv.prog, mm["ret"], v)} if v is not None else {})
    return spec, k


def det_value(prog, t, v):
    """keep at most one element of every set / map: Go writes them in its map iteration order, so that two
    Writes of one value differ otherwise (the reply is compared with a serialisation made on the side)"""
    if v is None:
        return None
    r = L.resolve(prog, t)
    if r[0] == "ref":
        k, d = L.lookup(prog, r[1], r[2])
        if k != "struct" or not isinstance(v, dict):
            return v
        return {f["id"]: det_value(prog, f["type"], v.get(f["id"])) for f in d["fields"] if f["id"] in v}
    if r[0] == "list":
        return [det_value(prog, r[1], x) for x in v]
    if r[0] == "set":
        return [det_value(prog, r[1], x) for x in v[:1]]
    if r[0] == "map":
        return [[det_value(prog, r[1], k), det_value(prog, r[2], x)] for k, x in v[:1]]
    return v


def mutate(rng, b):
    b = bytearray(b)
    r = rng.random()
    if r < 0.3 and len(b) > 0:
        return bytes(b[:rng.randrange(0, len(b))])                      # truncated (also exactly the stop byte)
    if r < 0.45:
        return bytes(b) + bytes(rng.randrange(256) for _ in range(rng.randrange(1, 9)))   # surplus bytes
    if r < 0.6:
        return bytes([rng.choice([0x63, 0x10, 0x7f, 0xff, 1, 5])]) + struct.pack(">h", rng.randrange(1, 4)) + bytes(b)
    if r < 0.7:
        return b"\x0b" + struct.pack(">hi", rng.randrange(1, 4), rng.choice([-1, -2**31, 2**31 - 1, 1 << 20])) + bytes(b)
    if r < 0.8:
        # nesting deeper than thrift's skip limit
        return (b"\x0c\x00\x63" * 70) + b"\x00" * 70 + bytes(b)
    if len(b) == 0:
        return b"\x0f"
    for _ in range(rng.randrange(1, 4)):
        pos = rng.randrange(len(b))
        b[pos] = rng.choice([0, 1, 0x0b, 0x0c, 0x0f, 0x7f, 0x80, 0xff, rng.randrange(256)])
    return bytes(b)


def gen_batch(ctx, sv, n, args_pool, tagbase):
    """-> frames (list of dict: frame bytes, kind, ...), outcomes table"""
    rng = ctx.rng
    frames, outcomes = [], {}
    kinds = (["ok"] * 10 + ["unknown"] * 2 + ["unknown_badargs"] * 2 + ["badargs"] * 4 + ["nokey"] * 1 + ["badhdr"] * 1 +
             ["badenv"] * 1 + ["oldstyle"] * 1 + ["wrongkey"] * 1)
    for i in range(n):
        kind = rng.choice(kinds)
        if i >= n - 2 and kind in ("badhdr", "badenv"):
            pass
        elif kind in ("badhdr", "badenv") and rng.random() < 0.6:
            kind = "ok"           # frames that end a simple-server connection are kept rare away from the end
        m = rng.choice(sv.methods)
        args = rng.choice(args_pool[m["go"]])
        opid = str(tagbase + i).encode() if rng.random() < 0.9 else ("op-%d-\xff" % (tagbase + i)).encode("latin1")
        key = ("k%d" % (tagbase + i)).encode()
        hdrs = [(b"_opid", opid)]
        if rng.random() < 0.6:
            hdrs.append((b"_cid", rand_text(rng)))
        if rng.random() < 0.3:
            hdrs.append((b"_timeout", rng.choice([b"5000", b"0", b"-1", b"x", b"99999999999999999999"])))
        for _ in range(rng.randrange(0, 3)):
            hdrs.append((("h%d" % rng.randrange(4)).encode(), rand_text(rng)))
        if rng.random() < 0.1:
            hdrs.insert(0, (b"_opid", b"stale"))      # duplicate key: the last one wins
        name = m["wire"]
        mtype = rng.choice([1, 1, 1, 1, 4, 2, 3, 0, 77])
        seq = rng.choice([0, 0, 1, -1, 2**31 - 1])
        desc = {"kind": kind, "method": name.decode(), "opid": opid}
        if kind in ("ok", "badargs", "oldstyle", "wrongkey"):
            spec, ok = gen_outcome(rng, sv, m)
            if kind == "wrongkey":
                # an outcome scripted for another method: the handler falls back to its default
                other = rng.choice(sv.methods)
                spec["method"] = other["go"]
            outcomes[key.decode()] = spec
            desc["outcome"] = ok
            hdrs.append((KEY, key))
        rng.shuffle(hdrs)
        if kind in ("unknown", "unknown_badargs"):
            name = rng.choice([b"nosuch", b"", name.upper() if name.upper() != name else b"x" + name, name + b"2",
                               bytes([0xff, 0xfe]), b"a" * 300])
        if kind in ("badargs", "unknown_badargs"):
            args = mutate(rng, args)
        body = envelope(name, mtype, seq, old_style=(kind == "oldstyle")) + args
        frame = hc.ref_marshal(hdrs) + body
        if kind == "badhdr":
            r = rng.random()
            if r < 0.35:
                frame = hc.ref_marshal([(k, v) for k, v in hdrs if k != b"_opid"]) + body
            elif r < 0.55:
                frame = bytes([rng.choice([1, 2, 0xff])]) + frame[1:]
            elif r < 0.75:
                frame = frame[:rng.randrange(0, 9)]
            else:
                frame = frame[:1] + struct.pack(">I", rng.choice([2**31, 2**32 - 1, len(frame) * 2, 3])) + frame[5:]
        if kind == "badenv":
            hb = hc.ref_marshal(hdrs)
            r = rng.random()
            if r < 0.3:
                frame = hb + struct.pack(">I", 0x80020001) + body[4:]
            elif r < 0.5:
                frame = hb + body[:rng.randrange(0, 8)]
            elif r < 0.7:
                frame = hb + struct.pack(">Ii", 0x80010001, rng.choice([-1, 2**31 - 1, 10**6])) + body[8:]
            else:
                frame = hb + struct.pack(">i", rng.choice([10**6, 2**31 - 1])) + body[4:]
        desc["frame"] = frame
        frames.append(desc)
    return frames, outcomes


# ------------------------------------------------------------------------------------------------
# running a batch and judging it

def run_mode(sv, mode, frames, outcomes, conns=None, workers=1, proto="binary"):
    rq = {"op": "c14", "service": sv.key, "proto": proto, "mode": mode, "outcomes": outcomes,
          "results": sv.results_map(), "frames": [f["frame"].hex() for f in frames], "workers": workers, "quiet_ms": 120}
    if conns is not None:
        rq["conns"] = [{"frames": c, "chunk": ch} for c, ch in conns]
    return sv.lb.run([rq], timeout=900)[0]


def expected_of(sv, fr, call, base_replies):
    """The property's table evaluated on the request as this file's reader sees it plus the record of what
    the handler was asked to do.  -> None (no statement: headers/envelope undecodable) or
    dict(n=(min,max) replies, type, kind, body, msg)"""
    rq = parse_request(fr["frame"])
    if rq is None:
        return None
    m = [x for x in sv.methods if x["wire"] == rq["name"]]
    exp = {"opid": rq["opid"], "cid": rq["cid"], "name": rq["name"]}
    if not m:
        exp.update(n=(1, 1), type=3, kind=1, msg=b"Unknown function " + rq["name"])
        return exp
    m = m[0]
    if call is None:
        # the handler was not invoked: the arguments were not decodable
        exp.update(n=(1, 1), type=3, kind=7)
        return exp
    spec = call.get("spec")
    k = "ret" if (spec is None or call.get("default")) else spec["k"]
    if k in ("ret", "declared"):
        if m["oneway"]:
            exp.update(n=(0, 0))
        elif call.get("wok"):
            exp.update(n=(1, 1), type=2, body=bytes.fromhex(call.get("rb", "")))
        else:
            exp.update(n=(1, 1), type=3, kind=6)
    elif k == "appexc":
        msg = bytes.fromhex(spec["msg"])
        exp.update(n=(1, 1), type=3, kind=spec["type"])
        if msg:
            exp["msg"] = msg
    else:
        exp.update(n=(1, 1), type=3, kind=6,
                   msg=b"Internal error processing " + rq["name"] + b": " + bytes.fromhex(spec["msg"]))
    if spec is not None and not call.get("default"):
        exp["extra"] = {bytes.fromhex(a): bytes.fromhex(b) for a, b in spec.get("extra", [])}
    return exp


def check_reply(exp, rep):
    """rep: a reply frame (bytes); -> None or what is wrong with it"""
    r = parse_reply(rep)
    if isinstance(r, str):
        return r
    if r["headers"].get(b"_opid") != exp["opid"]:
        return "reply carries op id %r, the request's is %r" % (r["headers"].get(b"_opid"), exp["opid"])
    want = {b"_opid": exp["opid"]}
    if exp["cid"]:
        want[b"_cid"] = exp["cid"]
    for k, v in (exp.get("extra") or {}).items():
        want[k] = v
    if r["headers"] != want:
        return "reply headers %r, expected %r" % (r["headers"], want)
    if r["name"] != exp["name"]:
        return "reply names method %r, the request %r" % (r["name"], exp["name"])
    if r["seq"] != 0:
        return "reply sequence id %d" % r["seq"]
    if r["type"] != exp["type"]:
        return "reply message type %d, expected %d" % (r["type"], exp["type"])
    if exp["type"] == 2:
        if r["body"] != exp["body"]:
            return "REPLY body differs from the serialised result"
        return None
    ex = parse_app_exception(r["body"])
    if ex is None:
        return "EXCEPTION body is not a well-formed TApplicationException"
    if ex[1] != exp["kind"]:
        return "exception type %d, expected %d" % (ex[1], exp["kind"])
    if "msg" in exp and ex[0] != exp["msg"]:
        return "exception message %r, expected %r" % (ex[0], exp["msg"])
    return None


def etext_of(replies):
    for rep in replies:
        r = parse_reply(rep)
        if not isinstance(r, str) and r["type"] == 3:
            ex = parse_app_exception(r["body"])
            if ex is not None:
                return ex[0]
    return b""


def outcome_toks(sv, outcomes, calls_by_key):
    wire_of = {m["go"]: m["wire"] for m in sv.methods}
    out = []
    for key, spec in sorted(outcomes.items()):
        c = calls_by_key.get(key)
        k = spec["k"]
        if c is not None and c.get("default"):
            # the harness fell back (value not buildable / Write panics): the script entry is void
            continue
        if k in ("ret", "declared"):
            if c is None:
                continue          # never invoked: the entry cannot matter
            out.append([key.encode(), wire_of[spec["method"]], 0, bytes.fromhex(c.get("rb", "")), 1 if c.get("wok") else 0, 0, b"",
                        [[bytes.fromhex(a), bytes.fromhex(b)] for a, b in spec.get("extra", [])]])
        elif k == "appexc":
            t = spec["type"]
            out.append([key.encode(), wire_of[spec["method"]], 1, b"", 0, t, bytes.fromhex(spec["msg"]),
                        [[bytes.fromhex(a), bytes.fromhex(b)] for a, b in spec.get("extra", [])]])
        else:
            out.append([key.encode(), wire_of[spec["method"]], 2, b"", 0, 0, bytes.fromhex(spec["msg"]),
                        [[bytes.fromhex(a), bytes.fromhex(b)] for a, b in spec.get("extra", [])]])
    return out


class Stats:
    def __init__(self):
        self.c = collections.Counter()
        self.evals = 0
        self.distinct = set()
        self.samples = []
        self.judge_cases = []
        self.judge_meta = []


def run_service(ctx, sv, nframes, st, nbatches):
    rng = ctx.rng
    # a pool of argument encodings per method, written by the generated code itself
    reqs, meta = [], []
    for m in sv.methods:
        for _ in range(4):
            v = L.gen_struct_value(rng, sv.prog, m["args_sdef"])
            reqs.append({"op": "write", "type": m["args_key"], "proto": "binary",
                         "value": L.struct_to_wire(sv.prog, m["args_sdef"], v)})
            meta.append(m["go"])
    pool = collections.defaultdict(list)
    for g, r in zip(meta, sv.lb.run(reqs)):
        if r.get("code") == 0:
            pool[g].append(bytes.fromhex(r["out"]))
    for m in sv.methods:
        if not pool[m["go"]]:
            pool[m["go"]].append(b"\x00")
    d = sv.lb.run([{"op": "c14_defaults", "proto": "binary", "results": sv.results_map()}])[0]
    if d.get("code") != 0:
        raise RuntimeError("c14_defaults failed: %r" % d)
    defaults = d["defaults"]
    wire_of = {m["go"]: m["wire"] for m in sv.methods}
    default_toks = [[wire_of[g], bytes.fromhex(x["rb"]), 1 if x["wok"] else 0] for g, x in sorted(defaults.items())]
    mtoks = sv.method_toks()

    for bi in range(nbatches):
        frames, outcomes = gen_batch(ctx, sv, nframes, pool, 1000 * (bi + 1))
        n = len(frames)
        # connections of the simple server: a partition of the frames, each connection in order
        ncon = rng.randrange(1, 4)
        conns = [[] for _ in range(ncon)]
        for i in range(n):
            conns[rng.randrange(ncon)].append(i)
        # frames that end the connection (undecodable header / envelope) go last on it; in some batches one
        # of them stays where it is, so that what follows a dead connection (nothing) is observed too
        enders = [i for i in range(n) if parse_request(frames[i]["frame"]) is None]
        keep_inside = set(enders[:1]) if rng.random() < 0.3 else set()
        conns = [[i for i in c if i not in enders or i in keep_inside] + [i for i in c if i in enders and i not in keep_inside]
                 for c in conns]
        conns = [(c, rng.choice([0, 0, 1, 7])) for c in conns if c]
        results = {}
        for mode in MODES:
            r = run_mode(sv, mode, frames, outcomes, conns=conns if mode == "simple" else None,
                         workers=rng.choice([2, 4, 8]) if mode == "concurrent" else rng.choice([1, 3]))
            if r.get("code") != 0:
                ctx.violation("C14: the %s run crashed or hung: %s" % (mode, r.get("panic") or r.get("err")),
                              replay_of(sv, frames, outcomes, mode, None, r), signature=None)
                r = None
            results[mode] = r
        base = results.get("direct_reset")
        if base is None:
            continue
        # what the handler was asked and did, per key (identical in every mode or the oracle says so)
        calls_by_key = {}
        for c in base["calls"]:
            calls_by_key.setdefault(c["key"], c)
        for key, c in calls_by_key.items():
            c["spec"] = outcomes.get(key)
        base_replies = []
        for i in range(n):
            o = base["obs"][i]
            w = bytes.fromhex(o.get("written", ""))
            # with a resettable recording transport everything left in it was flushed as one message
            base_replies.append([w] if w else [])
        etexts = [etext_of(base_replies[i]) for i in range(n)]

        for mode in MODES:
            r = results[mode]
            if r is None:
                continue
            per_frame = oracle_mode(ctx, sv, mode, frames, outcomes, r, calls_by_key, base_replies, conns, st)
            if per_frame is not None:
                etm = [etext_of(per_frame[i]) or etexts[i] for i in range(n)]
            else:
                etm = etexts
            # ---- judge cases
            otoks = outcome_toks(sv, outcomes, calls_by_key)
            if mode == "simple":
                for ci, (c, _) in enumerate(conns):
                    ftoks = [[frames[i]["frame"], etm[i], 0, b"", 0, []] for i in c]
                    stream = [bytes.fromhex(x) for i in c for x in r["obs"][i]["replies"]]
                    st.judge_cases.append([3, mtoks, otoks, default_toks, ftoks, stream])
                    st.judge_meta.append((sv, mode, [frames[i] for i in c], outcomes, c))
                continue
            ftoks = []
            for i in range(n):
                o = r["obs"][i]
                if mode in ("direct", "direct_reset"):
                    ftoks.append([frames[i]["frame"], etm[i],
                                  1 if o["err"] else 0, bytes.fromhex(o.get("written", "")), o["flushes"], []])
                elif mode == "concurrent":
                    ftoks.append([frames[i]["frame"], etexts[i], 1 if o["err"] else 0, b"", 0, []])
                elif mode == "nats":
                    ftoks.append([frames[i]["frame"], etm[i], 0, b"", 0, [bytes.fromhex(x) for x in o["replies"]]])
                else:
                    ftoks.append([frames[i]["frame"], etm[i], 1 if o.get("status") == 500 else 0,
                                  bytes.fromhex(o.get("raw", ""))[4:], 0, []])
            stream = [bytes.fromhex(x) for x in r.get("stream_frames", [])] if mode == "concurrent" else []
            st.judge_cases.append([MODE_NUM[mode], mtoks, otoks, default_toks, ftoks, stream])
            st.judge_meta.append((sv, mode, frames, outcomes, list(range(n))))
        st.evals += n * len(MODES)
        for f in frames:
            st.c["kind/" + f["kind"]] += 1
            if "outcome" in f:
                st.c["outcome/" + f["outcome"]] += 1
        if len(st.samples) < 4:
            f = frames[0]
            st.samples.append({"service": sv.key, "kind": f["kind"], "method": f["method"], "frame": f["frame"].hex()[:160],
                               "reply_direct": (base_replies[0][0].hex()[:160] if base_replies[0] else "")})


def replay_of(sv, frames, outcomes, mode, idx, obs):
    rep = {"service": sv.key, "mode": mode, "idl": L.render(sv.prog),
           "frames": [{"kind": f["kind"], "method": f["method"], "frame": f["frame"].hex()} for f in frames],
           "outcomes": outcomes}
    if idx is not None:
        rep["failing_frame_index"] = idx
        rep["failing_frame"] = frames[idx]["frame"].hex()
        rep["failing_kind"] = frames[idx]["kind"]
    if obs is not None:
        rep["observed"] = str(obs)[:1500]
    return rep


def oracle_mode(ctx, sv, mode, frames, outcomes, r, calls_by_key, base_replies, conns, st):
    """The property on the observations of one mode, no model."""
    n = len(frames)
    calls = collections.defaultdict(list)
    for c in r["calls"]:
        calls[c["key"]].append(c)

    def bad(i, what):
        ctx.violation("C14 (%s): %s" % (mode, what), replay_of(sv, frames, outcomes, mode, i, r["obs"][i] if i is not None else None),
                      signature={"mode": mode, "kind": frames[i]["kind"] if i is not None else "stream"})

    # replies attributed to frames
    per_frame = [[] for _ in range(n)]
    dead_after = set()
    if mode in ("direct", "direct_reset"):
        for i in range(n):
            w = bytes.fromhex(r["obs"][i].get("written", ""))
            if w:
                per_frame[i] = [w]
    elif mode == "concurrent":
        stream = [bytes.fromhex(x) for x in r.get("stream_frames", [])]
        if r.get("stream_rest"):
            bad(None, "bytes that are not a whole frame at the end of the shared output: %s" % r["stream_rest"][:80])
        # isolation / no interleaving: the shared output is exactly the replies the same requests get alone
        want = collections.Counter(canon(x) for i in range(n) for x in base_replies[i])
        got = collections.Counter(canon(x) for x in stream)
        if want != got:
            extra = list((got - want).elements())[:2]
            missing = list((want - got).elements())[:2]
            bad(None, "shared output is not the set of whole replies: unexpected %r, missing %r" % (extra, missing))
        st.c["concurrent_frames"] += len(stream)
        return None
    elif mode == "simple":
        for c, _ in conns:
            stream = [bytes.fromhex(x) for i in c for x in r["obs"][i]["replies"]]
            # in order: each reply belongs to the first later request of the connection it matches
            want = []
            alive = True
            for i in c:
                if not alive:
                    dead_after.add(i)
                    continue
                want.extend((i, x) for x in base_replies[i])
                if parse_request(frames[i]["frame"]) is None:
                    alive = False      # Process returns an error: FSimpleServer stops serving this connection
            if [canon(x) for _, x in want] != [canon(x) for x in stream]:
                j = 0
                while j < min(len(want), len(stream)) and canon(want[j][1]) == canon(stream[j]):
                    j += 1
                idx = want[j][0] if j < len(want) else c[-1]
                bad(idx, "connection output differs from the replies the same requests get on their own, at reply %d: got %s" %
                    (j, stream[j].hex()[:120] if j < len(stream) else "nothing"))
            for i, x in want:
                per_frame[i].append(x)
    else:
        for i in range(n):
            per_frame[i] = [bytes.fromhex(x) for x in r["obs"][i]["replies"]]
            if r["obs"][i].get("errtext") and mode == "nats":
                bad(i, "reply message malformed: " + r["obs"][i]["errtext"])
            if mode == "http" and r["obs"][i].get("status") == 200 and r["obs"][i].get("errtext"):
                bad(i, "response body malformed: " + r["obs"][i]["errtext"])

    for i in range(n):
        if i in dead_after:
            st.c["after_connection_end"] += 1
            continue
        fr = frames[i]
        rq = parse_request(fr["frame"])
        got = per_frame[i]
        if rq is None:
            # no statement of the property; still: nothing may come back, nothing may crash
            if got:
                bad(i, "a frame without decodable headers / envelope got %d replies" % len(got))
            if mode == "http" and r["obs"][i].get("status") not in (500, 400):
                bad(i, "HTTP status %s for an undecodable request" % r["obs"][i].get("status"))
            continue
        known = [m for m in sv.methods if m["wire"] == rq["name"]]
        if known and rq["key"] is None:
            # unscripted request to a known method: the handler runs with its default iff the arguments decode;
            # at most one reply, the request's op id, and exactly the answer the request gets on its own
            if len(got) > 1:
                bad(i, "%d replies to one request" % len(got))
            for g in got:
                pr = parse_reply(g)
                if isinstance(pr, str):
                    bad(i, pr)
                elif pr["headers"].get(b"_opid") != rq["opid"]:
                    bad(i, "reply carries op id %r, the request's is %r" % (pr["headers"].get(b"_opid"), rq["opid"]))
            if not known[0]["oneway"] and len(got) != 1:
                bad(i, "%d replies to a two-way request" % len(got))
            if mode != "direct_reset" and [canon(x) for x in got] != [canon(x) for x in base_replies[i]]:
                bad(i, "reply differs from the one the same request gets on its own (isolation)")
            st.distinct.add((sv.key, fr["kind"], None, fr["method"], mode, len(got)))
            continue
        call = None
        if known:
            key = rq["key"].decode("latin1")
            cl = calls.get(key, [])
            if len(cl) > 1:
                bad(i, "the handler was invoked %d times for one request" % len(cl))
            if cl:
                call = dict(cl[0])
                call["spec"] = outcomes.get(key)
        exp = expected_of(sv, fr, call, base_replies)
        lo, hi = exp["n"]
        if known and known[0]["oneway"] and exp.get("type") == 3:
            lo = 0          # a oneway caller does not wait; the generated code still writes the exception
        if mode == "direct" and exp.get("kind") == 6 and call is not None and not call.get("wok", True) and \
                (call.get("default") or (call.get("spec") or {}).get("k") in ("ret", "declared")):
            # an output transport without Reset cannot take the abandoned reply back (all transports of the
            # library's servers can); the model covers this case (can_reset = false), the property does not
            st.c["unwritable_on_transport_without_reset"] += 1
            continue
        if not (lo <= len(got) <= hi):
            bad(i, "%d replies to a request that must get %s" % (len(got), "exactly one" if lo == 1 else "none"))
            continue
        for g in got:
            w = check_reply(exp, g)
            if w:
                bad(i, w)
            elif mode not in ("direct", "direct_reset") and [canon(g)] != [canon(x) for x in base_replies[i]]:
                bad(i, "reply differs from the one the same request gets on its own (isolation)")
        st.distinct.add((sv.key, fr["kind"], fr.get("outcome"), fr["method"], mode, len(got)))
    return per_frame


# ------------------------------------------------------------------------------------------------

def run(ctx, br):
    quick = ctx.tier == "quick"
    st = Stats()
    tag = "c14x%d" % (ctx.seed % 100000)
    plan = [("fixed", 2 if quick else 6, 48 if quick else 64)]
    nrand = 1 if quick else 8
    for i in range(nrand):
        plan.append(("random", 1 if quick else 3, 40 if quick else 56))
    nprog = 0
    for pi, (what, nb, nf) in enumerate(plan):
        pid = "%sp%d" % (tag, pi)
        if what == "fixed":
            prog = fixed_program(pid)
        else:
            prog = L.gen_program(ctx.rng, pid, "small", {"scopes": False})
        lb = lab.Lab(prog, lab_id="%s_%d" % (tag, pi), extra_imports=["verifharness/lab/ext_c14"])
        try:
            lb.build()
        except lab.LabError as e:
            if what == "fixed" or "ext_c14" in e.log:
                raise RuntimeError("lab build failed (%s): %s" % (e.stage, e.log[-2000:]))
            st.c["random_program_not_built"] += 1      # C02 / C11 own what the generator cannot compile
            lb.remove()
            continue
        try:
            svcs = [(fn, s) for fn in prog["order"] for s in prog["files"][fn]["services"]]
            if what == "fixed":
                svcs = [x for x in svcs if x[1]["name"] == "Store"]
            else:
                ctx.rng.shuffle(svcs)
                svcs = svcs[:2]
            for fn, s in svcs:
                sv = Svc(prog, lb, fn, s)
                run_service(ctx, sv, nf, st, nb)
                st.c["services"] += 1
            nprog += 1
        finally:
            lb.remove()

    # ---- correspondence: the Coq model replays every batch
    verdicts = vlib.run_judge(ctx.rundir, "JProcessor", "judge", st.judge_cases, shard=900000) if st.judge_cases else []
    mism = 0
    branch_hits = collections.Counter()
    validated = 0
    for case, meta, v in zip(st.judge_cases, st.judge_meta, verdicts):
        sv, mode, frames, outcomes, idxs = meta
        if v < 0:
            mism += 1
            j = -v - 1
            rep = replay_of(sv, frames, outcomes, mode, j if j < len(frames) else None, None)
            rep["no_failing_input_found"] = True
            rep["broken"] = ("correspondence JProcessor.judge: Model/Processor.v (process / simple_conn / nats_frame / http_frame / "
                             "sections_of) does not reproduce what the implementation did" +
                             (" with this frame" if j < len(frames) else " with the stream of this batch"))
            ctx.violation("C14 correspondence (%s): model and implementation disagree" % mode, rep,
                          signature={"mode": mode, "judge": True})
        else:
            validated += len(frames)
            for b, name in BRANCHES.items():
                if v & b:
                    branch_hits["%s/%s" % (mode, name)] += 1
    ctx.assumptions += [
        "replies fit the output buffer (size limits are C12's); handlers do not panic and do not block",
        "texts of Go errors (args.Read error, result.Write error) are inputs of the model, taken from the observed reply",
        "compact and JSON protocols are not modelled (the envelope and TApplicationException codecs are Apache Thrift's)",
        "a frame whose headers or envelope cannot be decoded ends the FSimpleServer connection it arrived on (kept behaviour)",
    ]
    return {
        "evaluations": st.evals,
        "distinct_nontrivial": len(st.distinct),
        "rule": "request frames for generated processors (one fixed program with every method shape, seeded random programs with "
                "inheritance): known/unknown method x well-formed/mutated arguments x handler outcome (value, declared exception, "
                "TApplicationException, other error, unwritable result, default) x header/envelope variants, run through Process "
                "directly (transport with and without Reset), 2-8 goroutines on one shared output, FSimpleServer connections, "
                "FNatsServer (1 and 3 workers), HTTP handler; non-trivial = distinct (service, frame kind, outcome, method, mode, replies)",
        "programs": nprog,
        "traces_validated_against_impl": validated,
        "judge_cases": len(st.judge_cases),
        "judge_mismatches": mism,
        "model_branch_hits": dict(sorted(branch_hits.items())),
        "input_histogram": dict(st.c),
        "samples": st.samples,
    }
