"""C14 — the server answers every two-way request exactly once with a well-formed reply.

Generated processors of lab services (tools/lab.py + harness/lab/ext_c14) are driven with request
frames of every kind (known / unknown method, well-formed / malformed arguments, every handler
outcome, undecodable headers and envelopes) through processor.Process directly, through N goroutines
sharing ONE output protocol, and through the real FSimpleServer, FNatsServer and HTTP handler.
Replies are captured at the transport byte for byte and
  * parsed by the reader in this file (independent of the implementation and of the Coq model) for the
    direct oracle: exactly one reply, right op id / name / type / exception kind / body, nothing else on
    the wire, the same reply whatever server and whatever neighbours (isolation);
  * replayed on Model/Processor.v by Judge/JProcessor.v (same definitions the theorems of Props/C14.v
    are about).

Bounded outputs (second half of this file): the same processors over outputs that reject what does not fit —
Process over frugal.NewTMemoryOutputBuffer(limit) for many small limits around the sizes involved (every
transport call recorded with its fate), the real FNatsServer with its 1 MiB buffer (results, response headers,
correlation ids and error texts of more than 1 MiB, a reply that fits to the byte), the HTTP handler with
x-frugal-payload-limit.  Direct oracle: at most one reply, the request's op id, the normal reply iff it
fits, otherwise the right exception kind under all response headers or under the op id only, nothing only
when even that cannot fit.  Judge/JProcessorBounded.v replays Model/ProcessorBounded.v on every observation.
"""
import collections
import struct

import lab
import lab_idl as L
import vlib
from props import c02
from props import headers_common as hc

HARNESS_BINS = ["vh_lab"]
NEEDS_FRUGAL = True

KEY = b"x-c14"
MODES = ["direct", "direct_reset", "concurrent", "simple", "nats", "http"]
MODE_NUM = {"direct": 0, "direct_reset": 1, "concurrent": 2, "simple": 3, "nats": 4, "http": 5}
BRANCHES = {1: "undecodable header / no op id", 2: "undecodable envelope", 4: "unknown method",
            8: "undecodable arguments", 16: "REPLY", 32: "oneway, nothing written", 64: "result not writable",
            128: "TApplicationException", 256: "other error"}


# ------------------------------------------------------------------------------------------------
# the fixed program (every method shape on purpose); random ones come from lab_idl.gen_program

def _F(i, name, t, mod="default"):
    return {"id": i, "name": name, "mod": mod, "type": t, "default": None}


def fixed_program(pid):
    fn = pid + "a"
    R = lambda n: ["ref", fn, n]  # noqa: E731
    f = {"name": fn, "includes": [], "typedefs": [{"name": "Ident", "type": ["i32"]}],
         "enums": [{"name": "Color", "values": [["RED", 1], ["GREEN", 2], ["BLUE", 5]]}],
         "consts": [], "scopes": [], "decl_order": "natural",
         "structs": [
             {"name": "Item", "kind": "struct", "fields": [
                 _F(1, "id", ["i32"], "required"), _F(2, "label", ["string"], "optional"),
                 _F(3, "nums", ["list", ["i64"]]), _F(4, "tags", ["map", ["string"], R("Color")])]},
             {"name": "Pick", "kind": "union", "fields": [
                 _F(1, "n", ["i32"], "optional"), _F(2, "s", ["string"], "optional"), _F(3, "item", R("Item"), "optional")]},
             {"name": "NotFound", "kind": "exception", "fields": [_F(1, "what", ["string"])]},
             {"name": "Denied", "kind": "exception", "fields": [_F(1, "code", ["i32"]), _F(2, "why", ["string"], "optional")]},
         ],
         "services": [
             {"name": "Base", "extends": None, "methods": [
                 {"name": "ping", "oneway": False, "ret": ["i32"], "args": [], "throws": []},
                 {"name": "reset", "oneway": False, "ret": None, "args": [_F(1, "gen", R("Ident"))],
                  "throws": [_F(1, "d", R("Denied"))]},
             ]},
             {"name": "Store", "extends": [fn, "Base"], "methods": [
                 {"name": "get", "oneway": False, "ret": R("Item"), "args": [_F(1, "id", ["i32"]), _F(2, "hint", ["string"])],
                  "throws": [_F(1, "nf", R("NotFound")), _F(2, "d", R("Denied"))]},
                 {"name": "choose", "oneway": False, "ret": R("Pick"),
                  "args": [_F(1, "p", R("Pick")), _F(2, "items", ["list", R("Item")])],
                  "throws": [_F(1, "nf", R("NotFound"))]},
                 {"name": "name", "oneway": False, "ret": ["string"], "args": [_F(1, "blob", ["binary"]), _F(2, "c", R("Color"))],
                  "throws": []},
                 {"name": "all", "oneway": False, "ret": ["list", R("Item")], "args": [], "throws": []},
                 {"name": "note", "oneway": True, "ret": None, "args": [_F(1, "msg", ["string"]), _F(2, "item", R("Item"))],
                  "throws": []},
                 {"name": "touch", "oneway": False, "ret": None, "args": [_F(1, "m", ["map", ["i32"], ["string"]])], "throws": []},
                 {"name": "ratio", "oneway": False, "ret": ["double"],
                  "args": [_F(1, "a", ["double"]), _F(2, "b", ["i64"]), _F(3, "flag", ["bool"]), _F(4, "sh", ["i16"]),
                           _F(5, "y", ["byte"])],
                  "throws": [_F(1, "d", R("Denied"))]},
             ]},
         ]}
    return {"id": pid, "root": fn, "order": [fn], "files": {fn: f}}


# ------------------------------------------------------------------------------------------------
# reference reader / writer of this file (independent of implementation and model)

def lower1(s):
    return s[:1].lower() + s[1:]


def envelope(name, mtype=1, seq=0, old_style=False):
    nb = name if isinstance(name, bytes) else name.encode()
    if old_style:
        return struct.pack(">i", len(nb)) + nb + struct.pack(">bi", mtype, seq)
    return struct.pack(">I", 0x80010000 | mtype) + struct.pack(">i", len(nb)) + nb + struct.pack(">i", seq)


def parse_envelope(b):
    """-> (name, type, seqid, rest) or None"""
    if len(b) < 4:
        return None
    size = struct.unpack(">i", b[:4])[0]
    if size < 0:
        u = size & 0xffffffff
        if u & 0xffff0000 != 0x80010000:
            return None
        if len(b) < 8:
            return None
        n = struct.unpack(">i", b[4:8])[0]
        if n < 0 or len(b) < 8 + n + 4:
            return None
        return b[8:8 + n], u & 0xff, struct.unpack(">i", b[8 + n:12 + n])[0], b[12 + n:]
    if len(b) < 4 + size + 5:
        return None
    t, seq = struct.unpack(">bi", b[4 + size:9 + size])
    return b[4:4 + size], t, seq, b[9 + size:]


def parse_app_exception(b):
    """-> (message, type) if b is exactly a TApplicationException struct as thrift writes it, else None"""
    msg, kind = b"", None
    i = 0
    if b[i:i + 3] == b"\x0b\x00\x01":
        if len(b) < i + 7:
            return None
        n = struct.unpack(">i", b[i + 3:i + 7])[0]
        if n <= 0 or len(b) < i + 7 + n:
            return None
        msg = b[i + 7:i + 7 + n]
        i += 7 + n
    if b[i:i + 3] != b"\x08\x00\x02" or len(b) != i + 8 or b[i + 7:] != b"\x00":
        return None
    kind = struct.unpack(">i", b[i + 3:i + 7])[0]
    return msg, kind


def parse_request(frame):
    """What a request frame says, by this file's own reader: None if headers or envelope are not decodable
    or the op id is missing; else dict(opid, cid, key, name, rest)."""
    p = hc.ref_parse(frame)
    if p is None:
        return None
    pairs, rest = p
    m = {}
    for k, v in pairs:
        m[k] = v
    if b"_opid" not in m:
        return None
    env = parse_envelope(rest)
    if env is None:
        return None
    return {"opid": m[b"_opid"], "cid": m.get(b"_cid", b""), "key": m.get(KEY), "name": env[0], "rest": env[3]}


def parse_reply(frame):
    """-> dict(headers, name, type, seq, body) or a string describing why the frame is not a well-formed reply"""
    p = hc.ref_parse(frame)
    if p is None:
        return "header block not decodable"
    pairs, rest = p
    if len(dict(pairs)) != len(pairs):
        return "duplicate header in the reply"
    env = parse_envelope(rest)
    if env is None:
        return "message envelope not decodable"
    return {"headers": dict(pairs), "name": env[0], "type": env[1], "seq": env[2], "body": env[3]}


def canon(frame):
    """a reply up to the order of its header pairs and up to the text of a PROTOCOL_ERROR (the text of the
    Go read error depends on the kind of input transport: "EOF" / "unexpected EOF")"""
    p = hc.ref_parse(frame)
    if p is None:
        return ("raw", frame)
    pairs, rest = p
    env = parse_envelope(rest)
    if env is not None and env[1] == 3:
        ex = parse_app_exception(env[3])
        if ex is not None and ex[1] == 7:
            return (tuple(sorted(pairs)), env[0], 3, env[2], "PROTOCOL_ERROR")
    return (tuple(sorted(pairs)), rest)


# ------------------------------------------------------------------------------------------------
# services of a program

class Svc:
    def __init__(self, prog, lb, fn, svc):
        self.prog, self.lb, self.fn, self.svc = prog, lb, fn, svc
        self.key = "%s.%s" % (L.go_pkg(fn), L.title(svc["name"]))
        self.methods = []       # dicts: wire, go, oneway, m, dfn, dsvc, args_sdef, result_key, result_sdef
        for dfn, dsvc, m in L.service_methods(prog, fn, svc["name"]):
            ms = {x["role"]: x for x in L.method_structs(prog, dfn, dsvc) if x["method"] == m["name"]}
            a = ms["args"]
            a["raw_args"] = m["args"]
            r = ms.get("result")
            self.methods.append({
                "wire": lower1(m["name"]).encode(), "go": L.snake_to_camel(m["name"]), "oneway": m["oneway"], "m": m,
                "dfn": dfn, "dsvc": dsvc, "args_sdef": a, "args_key": lb.struct_key(dfn, a["go_name"]),
                "result_sdef": r, "result_key": lb.struct_key(dfn, r["go_name"]) if r else ""})
        names = {}
        for f in prog["order"]:
            ff = prog["files"][f]
            for d in ff["typedefs"] + ff["enums"] + ff["structs"]:
                names[(f, d["name"])] = len(names) + 1
        self.names = names

    def method_toks(self):
        out = []
        for i, m in enumerate(self.methods):
            self_name = 100000 + i
            env = c02.env_tok(self.prog, self.names, m["args_sdef"], m["dfn"], self_name)
            out.append([m["wire"], 1 if m["oneway"] else 0, env, [11, self_name]])
        return out

    def results_map(self):
        return {m["go"]: m["result_key"] for m in self.methods}


# ------------------------------------------------------------------------------------------------
# generation of one batch of frames for a service

APP_KINDS = [-1, 0, 1, 3, 6, 7, 11, 12, 42, 100, 2147483647, -2147483648]


def rand_text(rng, allow_empty=True):
    r = rng.random()
    if r < 0.12 and allow_empty:
        return b""
    if r < 0.2:
        return bytes(rng.randrange(256) for _ in range(rng.randrange(1, 40)))
    return "".join(rng.choice("abcdefghij klmnop:_-XYZ09é") for _ in range(rng.randrange(1, 30))).encode()


def gen_outcome(rng, sv, m):
    """-> (spec for the harness, description)"""
    mm = m["m"]
    choices = ["ret"] * 4 + ["appexc"] * 2 + ["other"] * 2
    if mm["throws"]:
        choices += ["declared"] * 3
    if not m["oneway"] and mm["ret"] is not None and L.head_kind(sv.prog, mm["ret"]) == "struct":
        rr = L.resolve(sv.prog, mm["ret"])
        if L.lookup(sv.prog, rr[1], rr[2])[1]["kind"] == "union":
            choices += ["unwritable"] * 6
    k = rng.choice(choices)
    spec = {"method": m["go"], "result": m["result_key"]}
    extra = []
    if rng.random() < 0.25:
        for _ in range(rng.randrange(1, 3)):
            extra.append([("x-r%d" % rng.randrange(5)).encode().hex(), rand_text(rng).hex()])
    spec["extra"] = extra
    if k == "appexc":
        spec.update(k="appexc", type=rng.choice(APP_KINDS), msg=rand_text(rng).hex())
    elif k == "other":
        spec.update(k="other", msg=rand_text(rng).hex())
    elif k == "declared":
        e = rng.choice(mm["throws"])
        v = det_value(sv.prog, e["type"], L.gen_value(rng, sv.prog, e["type"]))
        if v is None:
            v = {}
        spec.update(k="declared", field=e["id"], value={str(e["id"]): L.to_wire(sv.prog, e["type"], v)})
    elif k == "unwritable":
        # a union with nothing set (or a struct whose nested union has nothing set): Write returns an error
        spec.update(k="ret", value={"0": {}})
    else:
        if m["oneway"] or mm["ret"] is None:
            spec.update(k="ret", value={})
        else:
            v = det_value(sv.prog, mm["ret"], L.gen_value(rng, sv.prog, mm["ret"]))
            spec.update(k="ret", value={"0": L.to_wire(sv.prog, mm["ret"], v)} if v is not None else {})
    return spec, k


def det_value(prog, t, v):
    """keep at most one element of every set / map: Go writes them in its map iteration order, so that two
    Writes of one value differ otherwise (the reply is compared with a serialisation made on the side)"""
    if v is None:
        return None
    r = L.resolve(prog, t)
    if r[0] == "ref":
        k, d = L.lookup(prog, r[1], r[2])
        if k != "struct" or not isinstance(v, dict):
            return v
        return {f["id"]: det_value(prog, f["type"], v.get(f["id"])) for f in d["fields"] if f["id"] in v}
    if r[0] == "list":
        return [det_value(prog, r[1], x) for x in v]
    if r[0] == "set":
        return [det_value(prog, r[1], x) for x in v[:1]]
    if r[0] == "map":
        return [[det_value(prog, r[1], k), det_value(prog, r[2], x)] for k, x in v[:1]]
    return v


def mutate(rng, b):
    b = bytearray(b)
    r = rng.random()
    if r < 0.3 and len(b) > 0:
        return bytes(b[:rng.randrange(0, len(b))])                      # truncated (also exactly the stop byte)
    if r < 0.45:
        return bytes(b) + bytes(rng.randrange(256) for _ in range(rng.randrange(1, 9)))   # surplus bytes
    if r < 0.6:
        return bytes([rng.choice([0x63, 0x10, 0x7f, 0xff, 1, 5])]) + struct.pack(">h", rng.randrange(1, 4)) + bytes(b)
    if r < 0.7:
        return b"\x0b" + struct.pack(">hi", rng.randrange(1, 4), rng.choice([-1, -2**31, 2**31 - 1, 1 << 20])) + bytes(b)
    if r < 0.8:
        # nesting deeper than thrift's skip limit
        return (b"\x0c\x00\x63" * 70) + b"\x00" * 70 + bytes(b)
    if len(b) == 0:
        return b"\x0f"
    for _ in range(rng.randrange(1, 4)):
        pos = rng.randrange(len(b))
        b[pos] = rng.choice([0, 1, 0x0b, 0x0c, 0x0f, 0x7f, 0x80, 0xff, rng.randrange(256)])
    return bytes(b)


def gen_batch(ctx, sv, n, args_pool, tagbase):
    """-> frames (list of dict: frame bytes, kind, ...), outcomes table"""
    rng = ctx.rng
    frames, outcomes = [], {}
    kinds = (["ok"] * 10 + ["unknown"] * 2 + ["unknown_badargs"] * 2 + ["badargs"] * 4 + ["nokey"] * 1 + ["badhdr"] * 1 +
             ["badenv"] * 1 + ["oldstyle"] * 1 + ["wrongkey"] * 1)
    for i in range(n):
        kind = rng.choice(kinds)
        if i >= n - 2 and kind in ("badhdr", "badenv"):
            pass
        elif kind in ("badhdr", "badenv") and rng.random() < 0.6:
            kind = "ok"           # frames that end a simple-server connection are kept rare away from the end
        m = rng.choice(sv.methods)
        args = rng.choice(args_pool[m["go"]])
        opid = str(tagbase + i).encode() if rng.random() < 0.9 else ("op-%d-\xff" % (tagbase + i)).encode("latin1")
        key = ("k%d" % (tagbase + i)).encode()
        hdrs = [(b"_opid", opid)]
        if rng.random() < 0.6:
            hdrs.append((b"_cid", rand_text(rng)))
        if rng.random() < 0.3:
            hdrs.append((b"_timeout", rng.choice([b"5000", b"0", b"-1", b"x", b"99999999999999999999"])))
        for _ in range(rng.randrange(0, 3)):
            hdrs.append((("h%d" % rng.randrange(4)).encode(), rand_text(rng)))
        if rng.random() < 0.1:
            hdrs.insert(0, (b"_opid", b"stale"))      # duplicate key: the last one wins
        name = m["wire"]
        mtype = rng.choice([1, 1, 1, 1, 4, 2, 3, 0, 77])
        seq = rng.choice([0, 0, 1, -1, 2**31 - 1])
        desc = {"kind": kind, "method": name.decode(), "opid": opid}
        if kind in ("ok", "badargs", "oldstyle", "wrongkey"):
            spec, ok = gen_outcome(rng, sv, m)
            if kind == "wrongkey":
                # an outcome scripted for another method: the handler falls back to its default
                other = rng.choice(sv.methods)
                spec["method"] = other["go"]
            outcomes[key.decode()] = spec
            desc["outcome"] = ok
            hdrs.append((KEY, key))
        rng.shuffle(hdrs)
        if kind in ("unknown", "unknown_badargs"):
            name = rng.choice([b"nosuch", b"", name.upper() if name.upper() != name else b"x" + name, name + b"2",
                               bytes([0xff, 0xfe]), b"a" * 300])
        if kind in ("badargs", "unknown_badargs"):
            args = mutate(rng, args)
        body = envelope(name, mtype, seq, old_style=(kind == "oldstyle")) + args
        frame = hc.ref_marshal(hdrs) + body
        if kind == "badhdr":
            r = rng.random()
            if r < 0.35:
                frame = hc.ref_marshal([(k, v) for k, v in hdrs if k != b"_opid"]) + body
            elif r < 0.55:
                frame = bytes([rng.choice([1, 2, 0xff])]) + frame[1:]
            elif r < 0.75:
                frame = frame[:rng.randrange(0, 9)]
            else:
                frame = frame[:1] + struct.pack(">I", rng.choice([2**31, 2**32 - 1, len(frame) * 2, 3])) + frame[5:]
        if kind == "badenv":
            hb = hc.ref_marshal(hdrs)
            r = rng.random()
            if r < 0.3:
                frame = hb + struct.pack(">I", 0x80020001) + body[4:]
            elif r < 0.5:
                frame = hb + body[:rng.randrange(0, 8)]
            elif r < 0.7:
                frame = hb + struct.pack(">Ii", 0x80010001, rng.choice([-1, 2**31 - 1, 10**6])) + body[8:]
            else:
                frame = hb + struct.pack(">i", rng.choice([10**6, 2**31 - 1])) + body[4:]
        desc["frame"] = frame
        frames.append(desc)
    return frames, outcomes


# ------------------------------------------------------------------------------------------------
# running a batch and judging it

def run_mode(sv, mode, frames, outcomes, conns=None, workers=1, proto="binary"):
    rq = {"op": "c14", "service": sv.key, "proto": proto, "mode": mode, "outcomes": outcomes,
          "results": sv.results_map(), "frames": [f["frame"].hex() for f in frames], "workers": workers, "quiet_ms": 120}
    if conns is not None:
        rq["conns"] = [{"frames": c, "chunk": ch} for c, ch in conns]
    return sv.lb.run([rq], timeout=900)[0]


def expected_of(sv, fr, call, base_replies):
    """The property's table evaluated on the request as this file's reader sees it plus the record of what
    the handler was asked to do.  -> None (no statement: headers/envelope undecodable) or
    dict(n=(min,max) replies, type, kind, body, msg)"""
    rq = parse_request(fr["frame"])
    if rq is None:
        return None
    m = [x for x in sv.methods if x["wire"] == rq["name"]]
    exp = {"opid": rq["opid"], "cid": rq["cid"], "name": rq["name"]}
    if not m:
        exp.update(n=(1, 1), type=3, kind=1, msg=b"Unknown function " + rq["name"])
        return exp
    m = m[0]
    if call is None:
        # the handler was not invoked: the arguments were not decodable
        exp.update(n=(1, 1), type=3, kind=7)
        return exp
    spec = call.get("spec")
    k = "ret" if (spec is None or call.get("default")) else spec["k"]
    if k in ("ret", "declared"):
        if m["oneway"]:
            exp.update(n=(0, 0))
        elif call.get("wok"):
            exp.update(n=(1, 1), type=2, body=bytes.fromhex(call.get("rb", "")))
        else:
            exp.update(n=(1, 1), type=3, kind=6)
    elif k == "appexc":
        msg = bytes.fromhex(spec["msg"])
        exp.update(n=(1, 1), type=3, kind=spec["type"])
        if msg:
            exp["msg"] = msg
    else:
        exp.update(n=(1, 1), type=3, kind=6,
                   msg=b"Internal error processing " + rq["name"] + b": " + bytes.fromhex(spec["msg"]))
    if spec is not None and not call.get("default"):
        exp["extra"] = {bytes.fromhex(a): bytes.fromhex(b) for a, b in spec.get("extra", [])}
    return exp


def check_reply(exp, rep):
    """rep: a reply frame (bytes); -> None or what is wrong with it"""
    r = parse_reply(rep)
    if isinstance(r, str):
        return r
    if r["headers"].get(b"_opid") != exp["opid"]:
        return "reply carries op id %r, the request's is %r" % (r["headers"].get(b"_opid"), exp["opid"])
    want = {b"_opid": exp["opid"]}
    if exp["cid"]:
        want[b"_cid"] = exp["cid"]
    for k, v in (exp.get("extra") or {}).items():
        want[k] = v
    if r["headers"] != want:
        return "reply headers %r, expected %r" % (r["headers"], want)
    if r["name"] != exp["name"]:
        return "reply names method %r, the request %r" % (r["name"], exp["name"])
    if r["seq"] != 0:
        return "reply sequence id %d" % r["seq"]
    if r["type"] != exp["type"]:
        return "reply message type %d, expected %d" % (r["type"], exp["type"])
    if exp["type"] == 2:
        if r["body"] != exp["body"]:
            return "REPLY body differs from the serialised result"
        return None
    ex = parse_app_exception(r["body"])
    if ex is None:
        return "EXCEPTION body is not a well-formed TApplicationException"
    if ex[1] != exp["kind"]:
        return "exception type %d, expected %d" % (ex[1], exp["kind"])
    if "msg" in exp and ex[0] != exp["msg"]:
        return "exception message %r, expected %r" % (ex[0], exp["msg"])
    return None


def etext_of(replies):
    for rep in replies:
        r = parse_reply(rep)
        if not isinstance(r, str) and r["type"] == 3:
            ex = parse_app_exception(r["body"])
            if ex is not None:
                return ex[0]
    return b""


def outcome_toks(sv, outcomes, calls_by_key):
    wire_of = {m["go"]: m["wire"] for m in sv.methods}
    out = []
    for key, spec in sorted(outcomes.items()):
        c = calls_by_key.get(key)
        k = spec["k"]
        if c is not None and c.get("default"):
            # the harness fell back (value not buildable / Write panics): the script entry is void
            continue
        if k in ("ret", "declared"):
            if c is None:
                continue          # never invoked: the entry cannot matter
            out.append([key.encode(), wire_of[spec["method"]], 0, bytes.fromhex(c.get("rb", "")), 1 if c.get("wok") else 0, 0, b"",
                        [[bytes.fromhex(a), bytes.fromhex(b)] for a, b in spec.get("extra", [])]])
        elif k == "appexc":
            t = spec["type"]
            out.append([key.encode(), wire_of[spec["method"]], 1, b"", 0, t, bytes.fromhex(spec["msg"]),
                        [[bytes.fromhex(a), bytes.fromhex(b)] for a, b in spec.get("extra", [])]])
        else:
            out.append([key.encode(), wire_of[spec["method"]], 2, b"", 0, 0, bytes.fromhex(spec["msg"]),
                        [[bytes.fromhex(a), bytes.fromhex(b)] for a, b in spec.get("extra", [])]])
    return out


class Stats:
    def __init__(self):
        self.c = collections.Counter()
        self.evals = 0
        self.distinct = set()
        self.samples = []
        self.judge_cases = []
        self.judge_meta = []
        self.bjudge_cases = []
        self.bjudge_meta = []
        self.bsamples = []


def run_service(ctx, sv, nframes, st, nbatches, bounded=None):
    rng = ctx.rng
    # a pool of argument encodings per method, written by the generated code itself
    reqs, meta = [], []
    for m in sv.methods:
        for _ in range(4):
            v = L.gen_struct_value(rng, sv.prog, m["args_sdef"])
            reqs.append({"op": "write", "type": m["args_key"], "proto": "binary",
                         "value": L.struct_to_wire(sv.prog, m["args_sdef"], v)})
            meta.append(m["go"])
    pool = collections.defaultdict(list)
    for g, r in zip(meta, sv.lb.run(reqs)):
        if r.get("code") == 0:
            pool[g].append(bytes.fromhex(r["out"]))
    for m in sv.methods:
        if not pool[m["go"]]:
            pool[m["go"]].append(b"\x00")
    d = sv.lb.run([{"op": "c14_defaults", "proto": "binary", "results": sv.results_map()}])[0]
    if d.get("code") != 0:
        raise RuntimeError("c14_defaults failed: %r" % d)
    defaults = d["defaults"]
    wire_of = {m["go"]: m["wire"] for m in sv.methods}
    default_toks = [[wire_of[g], bytes.fromhex(x["rb"]), 1 if x["wok"] else 0] for g, x in sorted(defaults.items())]
    mtoks = sv.method_toks()

    if bounded:
        run_bounded(ctx, sv, st, pool, default_toks, mtoks, bounded["nframes"], bounded["nrand"])
        for proto in ("compact", "json"):
            run_bounded_proto(ctx, sv, st, proto, max(4, bounded["nframes"] // 2), max(3, bounded["nrand"] // 2))
        if bounded.get("nats"):
            run_bounded_nats(ctx, sv, st, pool, default_toks, mtoks, bounded.get("thorough"))

    for bi in range(nbatches):
        frames, outcomes = gen_batch(ctx, sv, nframes, pool, 1000 * (bi + 1))
        n = len(frames)
        # connections of the simple server: a partition of the frames, each connection in order
        ncon = rng.randrange(1, 4)
        conns = [[] for _ in range(ncon)]
        for i in range(n):
            conns[rng.randrange(ncon)].append(i)
        # frames that end the connection (undecodable header / envelope) go last on it; in some batches one
        # of them stays where it is, so that what follows a dead connection (nothing) is observed too
        enders = [i for i in range(n) if parse_request(frames[i]["frame"]) is None]
        keep_inside = set(enders[:1]) if rng.random() < 0.3 else set()
        conns = [[i for i in c if i not in enders or i in keep_inside] + [i for i in c if i in enders and i not in keep_inside]
                 for c in conns]
        conns = [(c, rng.choice([0, 0, 1, 7])) for c in conns if c]
        results = {}
        for mode in MODES:
            r = run_mode(sv, mode, frames, outcomes, conns=conns if mode == "simple" else None,
                         workers=rng.choice([2, 4, 8]) if mode == "concurrent" else rng.choice([1, 3]))
            if r.get("code") != 0:
                ctx.violation("C14: the %s run crashed or hung: %s" % (mode, r.get("panic") or r.get("err")),
                              replay_of(sv, frames, outcomes, mode, None, r), signature=None)
                r = None
            results[mode] = r
        base = results.get("direct_reset")
        if base is None:
            continue
        # what the handler was asked and did, per key (identical in every mode or the oracle says so)
        calls_by_key = {}
        for c in base["calls"]:
            calls_by_key.setdefault(c["key"], c)
        for key, c in calls_by_key.items():
            c["spec"] = outcomes.get(key)
        base_replies = []
        for i in range(n):
            o = base["obs"][i]
            w = bytes.fromhex(o.get("written", ""))
            # with a resettable recording transport everything left in it was flushed as one message
            base_replies.append([w] if w else [])
        etexts = [etext_of(base_replies[i]) for i in range(n)]

        for mode in MODES:
            r = results[mode]
            if r is None:
                continue
            per_frame = oracle_mode(ctx, sv, mode, frames, outcomes, r, calls_by_key, base_replies, conns, st)
            if per_frame is not None:
                etm = [etext_of(per_frame[i]) or etexts[i] for i in range(n)]
            else:
                etm = etexts
            # ---- judge cases
            otoks = outcome_toks(sv, outcomes, calls_by_key)
            if mode == "simple":
                for ci, (c, _) in enumerate(conns):
                    ftoks = [[frames[i]["frame"], etm[i], 0, b"", 0, []] for i in c]
                    stream = [bytes.fromhex(x) for i in c for x in r["obs"][i]["replies"]]
                    st.judge_cases.append([3, mtoks, otoks, default_toks, ftoks, stream])
                    st.judge_meta.append((sv, mode, [frames[i] for i in c], outcomes, c))
                continue
            ftoks = []
            for i in range(n):
                o = r["obs"][i]
                if mode in ("direct", "direct_reset"):
                    ftoks.append([frames[i]["frame"], etm[i],
                                  1 if o["err"] else 0, bytes.fromhex(o.get("written", "")), o["flushes"], []])
                elif mode == "concurrent":
                    ftoks.append([frames[i]["frame"], etexts[i], 1 if o["err"] else 0, b"", 0, []])
                elif mode == "nats":
                    ftoks.append([frames[i]["frame"], etm[i], 0, b"", 0, [bytes.fromhex(x) for x in o["replies"]]])
                else:
                    ftoks.append([frames[i]["frame"], etm[i], 1 if o.get("status") == 500 else 0,
                                  bytes.fromhex(o.get("raw", ""))[4:], 0, []])
            stream = [bytes.fromhex(x) for x in r.get("stream_frames", [])] if mode == "concurrent" else []
            st.judge_cases.append([MODE_NUM[mode], mtoks, otoks, default_toks, ftoks, stream])
            st.judge_meta.append((sv, mode, frames, outcomes, list(range(n))))
        st.evals += n * len(MODES)
        for f in frames:
            st.c["kind/" + f["kind"]] += 1
            if "outcome" in f:
                st.c["outcome/" + f["outcome"]] += 1
        if len(st.samples) < 4:
            f = frames[0]
            st.samples.append({"service": sv.key, "kind": f["kind"], "method": f["method"], "frame": f["frame"].hex()[:160],
                               "reply_direct": (base_replies[0][0].hex()[:160] if base_replies[0] else "")})


def replay_of(sv, frames, outcomes, mode, idx, obs):
    rep = {"service": sv.key, "mode": mode, "idl": L.render(sv.prog),
           "frames": [{"kind": f["kind"], "method": f["method"], "frame": f["frame"].hex()} for f in frames],
           "outcomes": outcomes}
    if idx is not None:
        rep["failing_frame_index"] = idx
        rep["failing_frame"] = frames[idx]["frame"].hex()
        rep["failing_kind"] = frames[idx]["kind"]
    if obs is not None:
        rep["observed"] = str(obs)[:1500]
    return rep


def oracle_mode(ctx, sv, mode, frames, outcomes, r, calls_by_key, base_replies, conns, st):
    """The property on the observations of one mode, no model."""
    n = len(frames)
    calls = collections.defaultdict(list)
    for c in r["calls"]:
        calls[c["key"]].append(c)

    def bad(i, what):
        ctx.violation("C14 (%s): %s" % (mode, what), replay_of(sv, frames, outcomes, mode, i, r["obs"][i] if i is not None else None),
                      signature={"mode": mode, "kind": frames[i]["kind"] if i is not None else "stream"})

    # replies attributed to frames
    per_frame = [[] for _ in range(n)]
    dead_after = set()
    if mode in ("direct", "direct_reset"):
        for i in range(n):
            w = bytes.fromhex(r["obs"][i].get("written", ""))
            if w:
                per_frame[i] = [w]
    elif mode == "concurrent":
        stream = [bytes.fromhex(x) for x in r.get("stream_frames", [])]
        if r.get("stream_rest"):
            bad(None, "bytes that are not a whole frame at the end of the shared output: %s" % r["stream_rest"][:80])
        # isolation / no interleaving: the shared output is exactly the replies the same requests get alone
        want = collections.Counter(canon(x) for i in range(n) for x in base_replies[i])
        got = collections.Counter(canon(x) for x in stream)
        if want != got:
            extra = list((got - want).elements())[:2]
            missing = list((want - got).elements())[:2]
            bad(None, "shared output is not the set of whole replies: unexpected %r, missing %r" % (extra, missing))
        st.c["concurrent_frames"] += len(stream)
        return None
    elif mode == "simple":
        for c, _ in conns:
            stream = [bytes.fromhex(x) for i in c for x in r["obs"][i]["replies"]]
            # in order: each reply belongs to the first later request of the connection it matches
            want = []
            alive = True
            for i in c:
                if not alive:
                    dead_after.add(i)
                    continue
                want.extend((i, x) for x in base_replies[i])
                if parse_request(frames[i]["frame"]) is None:
                    alive = False      # Process returns an error: FSimpleServer stops serving this connection
            if [canon(x) for _, x in want] != [canon(x) for x in stream]:
                j = 0
                while j < min(len(want), len(stream)) and canon(want[j][1]) == canon(stream[j]):
                    j += 1
                idx = want[j][0] if j < len(want) else c[-1]
                bad(idx, "connection output differs from the replies the same requests get on their own, at reply %d: got %s" %
                    (j, stream[j].hex()[:120] if j < len(stream) else "nothing"))
            for i, x in want:
                per_frame[i].append(x)
    else:
        for i in range(n):
            per_frame[i] = [bytes.fromhex(x) for x in r["obs"][i]["replies"]]
            if r["obs"][i].get("errtext") and mode == "nats":
                bad(i, "reply message malformed: " + r["obs"][i]["errtext"])
            if mode == "http" and r["obs"][i].get("status") == 200 and r["obs"][i].get("errtext"):
                bad(i, "response body malformed: " + r["obs"][i]["errtext"])

    for i in range(n):
        if i in dead_after:
            st.c["after_connection_end"] += 1
            continue
        fr = frames[i]
        rq = parse_request(fr["frame"])
        got = per_frame[i]
        if rq is None:
            # no statement of the property; still: nothing may come back, nothing may crash
            if got:
                bad(i, "a frame without decodable headers / envelope got %d replies" % len(got))
            if mode == "http" and r["obs"][i].get("status") not in (500, 400):
                bad(i, "HTTP status %s for an undecodable request" % r["obs"][i].get("status"))
            continue
        known = [m for m in sv.methods if m["wire"] == rq["name"]]
        if known and rq["key"] is None:
            # unscripted request to a known method: the handler runs with its default iff the arguments decode;
            # at most one reply, the request's op id, and exactly the answer the request gets on its own
            if len(got) > 1:
                bad(i, "%d replies to one request" % len(got))
            for g in got:
                pr = parse_reply(g)
                if isinstance(pr, str):
                    bad(i, pr)
                elif pr["headers"].get(b"_opid") != rq["opid"]:
                    bad(i, "reply carries op id %r, the request's is %r" % (pr["headers"].get(b"_opid"), rq["opid"]))
            if not known[0]["oneway"] and len(got) != 1:
                bad(i, "%d replies to a two-way request" % len(got))
            if mode != "direct_reset" and [canon(x) for x in got] != [canon(x) for x in base_replies[i]]:
                bad(i, "reply differs from the one the same request gets on its own (isolation)")
            st.distinct.add((sv.key, fr["kind"], None, fr["method"], mode, len(got)))
            continue
        call = None
        if known:
            key = rq["key"].decode("latin1")
            cl = calls.get(key, [])
            if len(cl) > 1:
                bad(i, "the handler was invoked %d times for one request" % len(cl))
            if cl:
                call = dict(cl[0])
                call["spec"] = outcomes.get(key)
        exp = expected_of(sv, fr, call, base_replies)
        lo, hi = exp["n"]
        if known and known[0]["oneway"] and exp.get("type") == 3:
            lo = 0          # a oneway caller does not wait; the generated code still writes the exception
        if mode == "direct" and exp.get("kind") == 6 and call is not None and not call.get("wok", True) and \
                (call.get("default") or (call.get("spec") or {}).get("k") in ("ret", "declared")):
            # an output transport without Reset cannot take the abandoned reply back (all transports of the
            # library's servers can); the model covers this case (can_reset = false), the property does not
            st.c["unwritable_on_transport_without_reset"] += 1
            continue
        if not (lo <= len(got) <= hi):
            bad(i, "%d replies to a request that must get %s" % (len(got), "exactly one" if lo == 1 else "none"))
            continue
        for g in got:
            w = check_reply(exp, g)
            if w:
                bad(i, w)
            elif mode not in ("direct", "direct_reset") and [canon(g)] != [canon(x) for x in base_replies[i]]:
                bad(i, "reply differs from the one the same request gets on its own (isolation)")
        st.distinct.add((sv.key, fr["kind"], fr.get("outcome"), fr["method"], mode, len(got)))
    return per_frame


# ------------------------------------------------------------------------------------------------
# bounded outputs

NATS_MAX = 1048576
BPLAN = {0: "error before output", 1: "oneway success", 2: "unknown method", 3: "SendError", 4: "SendReply",
         5: "SendReply, result not writable"}


def big_tok(b):
    """judge token of a byte string: as it is, or (long ones) a list of parts with runs of one byte folded"""
    if len(b) < 2048:
        return b
    parts, i, n, raw = [], 0, len(b), bytearray()
    while i < n:
        j = i + 1
        while j < n and b[j] == b[i]:
            j += 1
        if j - i >= 512:
            if raw:
                parts.append(bytes(raw))
                raw = bytearray()
            parts.append([j - i, bytes(b[i:i + 1])])
        else:
            raw += b[i:j]
        i = j
    if raw:
        parts.append(bytes(raw))
    return parts


def spec_extra(spec):
    """the response headers an outcome adds, as (key, value) byte pairs in the order the handler adds them"""
    out = [(bytes.fromhex(a), bytes.fromhex(b)) for a, b in spec.get("extra", [])]
    for r in spec.get("extra_rep", []):
        out.append((bytes.fromhex(r["k"]), bytes.fromhex(r["pat"]) * r["n"]))
    return out


def spec_msg(spec):
    m = bytes.fromhex(spec.get("msg", ""))
    if spec.get("msg_rep"):
        m += bytes.fromhex(spec["msg_rep"]["pat"]) * spec["msg_rep"]["n"]
    return m


def outcome_toks_b(sv, outcomes, calls_by_key):
    wire_of = {m["go"]: m["wire"] for m in sv.methods}
    out = []
    for key, spec in sorted(outcomes.items()):
        c = calls_by_key.get(key)
        k = spec["k"]
        if c is not None and c.get("default"):
            continue
        extra = [[big_tok(a), big_tok(b)] for a, b in spec_extra(spec)]
        if k in ("ret", "declared"):
            if c is None:
                continue
            out.append([key.encode(), wire_of[spec["method"]], 0, big_tok(bytes.fromhex(c.get("rb", ""))),
                        1 if c.get("wok") else 0, 0, b"", extra])
        elif k == "appexc":
            out.append([key.encode(), wire_of[spec["method"]], 1, b"", 0, spec["type"], big_tok(spec_msg(spec)), extra])
        else:
            out.append([key.encode(), wire_of[spec["method"]], 2, b"", 0, 0, big_tok(spec_msg(spec)), extra])
    return out


def attempts_of(trace):
    """the recorded transport calls cut into attempts: a new one starts after a rejected write or a Reset"""
    out, cur = [], []
    for e in trace:
        if e["k"] == 2:
            if cur:
                out.append(cur)
            cur = []
            continue
        if e["k"] == 1:
            continue
        cur.append(e)
        if not e["ok"]:
            out.append(cur)
            cur = []
    if cur:
        out.append(cur)
    return out


def etext_of_trace(trace):
    """the text of the error SendError / trapError was given, read off the writes of the EXCEPTION attempts:
    the text itself if one of them got as far as writing it, else a filler of the announced length, else None"""
    filler = None
    for a in attempts_of(trace):
        w = [bytes.fromhex(e.get("b", "")) for e in a]
        if len(w) > 5 and w[1] == b"\x80\x01\x00\x03" and w[5] == b"\x0b":
            if len(w) > 8:
                return w[8]
            if len(w) > 7 and len(w[7]) == 4 and filler is None:
                filler = b"?" * struct.unpack(">i", w[7])[0]
    return filler


def chunk_sizes(trace):
    """the sizes of the writes result.Write issues: the first attempt of an unbounded run after the header
    block and the four writes of WriteMessageBegin, if it is a REPLY"""
    at = attempts_of(trace)
    if not at:
        return []
    w = [bytes.fromhex(e.get("b", "")) for e in at[0]]
    if len(w) >= 5 and w[1] == b"\x80\x01\x00\x02":
        return [len(x) for x in w[5:]]
    return []


def hdr_block_size(h):
    return 5 + sum(8 + len(k) + len(v) for k, v in h.items())


def exc_struct_size(text):
    return (7 + len(text) if text else 0) + 8


# ---- the three protocols, as far as the bounded oracle needs them (envelope and TApplicationException) ----

def _varint(n):
    out = bytearray()
    while True:
        b = n & 0x7f
        n >>= 7
        if n:
            out.append(b | 0x80)
        else:
            out.append(b)
            return bytes(out)


def _read_varint(b, i):
    n, sh = 0, 0
    while i < len(b):
        c = b[i]
        i += 1
        n |= (c & 0x7f) << sh
        sh += 7
        if not c & 0x80:
            return n, i
    return None, i


class BinaryCodec:
    name = "binary"

    def envelope(self, name, args):
        return envelope(name, 1, 0) + args

    def parse_reply(self, frame):
        return parse_reply(frame)

    def parse_exc(self, body):
        return parse_app_exception(body)

    def min_error_size(self, opid, name, text, kind):
        return 4 + hdr_block_size({b"_opid": opid}) + 12 + len(name) + exc_struct_size(text)

    def too_large_text(self, lim, base_len):
        return None           # the generated Write prefixes the text according to where it stopped


class CompactCodec(BinaryCodec):
    name = "compact"

    def envelope(self, name, args):
        return bytes([0x82, (1 << 5) | 1]) + _varint(0) + _varint(len(name)) + name + args

    def parse_reply(self, frame):
        p = hc.ref_parse(frame)
        if p is None:
            return "header block not decodable"
        pairs, b = p
        if len(dict(pairs)) != len(pairs):
            return "duplicate header in the reply"
        if len(b) < 4 or b[0] != 0x82 or b[1] & 0x1f != 1:
            return "message envelope not decodable"
        seq, i = _read_varint(b, 2)
        n, i = _read_varint(b, i) if seq is not None else (None, i)
        if n is None or i + n > len(b):
            return "message envelope not decodable"
        return {"headers": dict(pairs), "name": b[i:i + n], "type": (b[1] >> 5) & 7, "seq": seq, "body": b[i + n:]}

    def parse_exc(self, body):
        i, msg = 0, b""
        first = 0x25
        if body[:1] == b"\x18":
            n, i = _read_varint(body, 1)
            if n is None or n == 0 or i + n > len(body):
                return None
            msg = body[i:i + n]
            i += n
            first = 0x15
        if body[i:i + 1] != bytes([first]):
            return None
        z, j = _read_varint(body, i + 1)
        if z is None or body[j:] != b"\x00":
            return None
        return msg, (z >> 1) ^ -(z & 1)

    def min_error_size(self, opid, name, text, kind):
        z = (kind << 1) ^ (kind >> 31)
        return (4 + hdr_block_size({b"_opid": opid}) + 3 + len(_varint(len(name))) + len(name) +
                ((1 + len(_varint(len(text))) + len(text)) if text else 0) + 1 + len(_varint(z & 0xffffffff)) + 1)


class JSONCodec(BinaryCodec):
    name = "json"
    RE_MSG = None

    def envelope(self, name, args):
        return b'[1,"' + name + b'",1,0,' + args + b']'

    def parse_reply(self, frame):
        import re
        p = hc.ref_parse(frame)
        if p is None:
            return "header block not decodable"
        pairs, b = p
        if len(dict(pairs)) != len(pairs):
            return "duplicate header in the reply"
        m = re.match(rb'^\[1,"((?:[^"\\]|\\.)*)",(\d+),(-?\d+),(.*)\]$', b, re.S)
        if m is None:
            return "message envelope not decodable"
        return {"headers": dict(pairs), "name": m.group(1), "type": int(m.group(2)), "seq": int(m.group(3)), "body": m.group(4)}

    def parse_exc(self, body):
        import re
        import json as _json
        m = re.match(rb'^\{(?:"1":\{"str":"((?:[^"\\]|\\.)*)"\},)?"2":\{"i32":(-?\d+)\}\}$', body, re.S)
        if m is None:
            return None
        msg = b""
        if m.group(1) is not None:
            try:
                msg = _json.loads('"' + m.group(1).decode("latin1") + '"').encode("latin1", "replace")
            except Exception:
                return None
        return msg, int(m.group(2))

    def min_error_size(self, opid, name, text, kind):
        import json as _json
        t = _json.dumps(text.decode("latin1")).encode()
        body = (b'{"1":{"str":' + t + b'},' if text else b'{') + b'"2":{"i32":%d}}' % kind
        return 4 + hdr_block_size({b"_opid": opid}) + len(b'[1,"' + name + b'",3,0,' + body + b']')

    def too_large_text(self, lim, base_len):
        # everything is buffered (bufio, 4096 bytes) and reaches the transport in Flush: the text has no prefix
        return (b"Buffer size reached (%d)" % lim) if base_len < 3500 else None


BINARY = BinaryCodec()
CODECS = {"binary": BINARY, "compact": CompactCodec(), "json": JSONCodec()}


def bounded_oracle(ctx, sv, st, fr, lim, o, base, call, outcomes, sibling_texts, mode="bounded", codec=BINARY):
    """The property over a bounded output on ONE observation, no model.
    base: the reply the same request gets over an unbounded output (bytes, b"" = none)."""
    def bad(what):
        rep = replay_of(sv, [fr], outcomes, mode, 0, o)
        rep["limit"] = lim
        ctx.violation("C14 (%s, limit %d): %s" % (mode, lim, what), rep,
                      signature={"mode": mode, "kind": fr["kind"]})
        return False

    w = bytes.fromhex(o.get("written", ""))
    tr = o.get("trace", [])
    nfl = sum(1 for e in tr if e["k"] == 1)
    if nfl > 1:
        return bad("%d Flush calls for one request" % nfl)
    if (nfl == 1) != bool(w) or bool(w) != bool(o.get("hasdata")):
        return bad("Flush calls %d, HasWriteData %s, %d bytes in the buffer" % (nfl, o.get("hasdata"), len(w)))
    if w and tr and tr[-1]["k"] != 1:
        return bad("something was written after the Flush")
    if "[" in o.get("errtext", ""):
        return bad("buffer malformed: " + o["errtext"])
    rq = fr["rq"] if "rq" in fr else parse_request(fr["frame"])
    if rq is None:
        if w or not o["err"]:
            return bad("a frame without decodable headers / envelope: %d bytes left, error class %s" % (len(w), o["err"]))
        return True
    fits_all = lim <= 0 or len(base) + 4 <= lim
    unwritable = call is not None and not call.get("wok", True) and \
        (call.get("default") or (call.get("spec") or {}).get("k") in ("ret", "declared"))
    if fits_all and not unwritable:
        if (canon(w) != canon(base)) if (w and base) else (w != base):
            return bad("the reply fits (%d + 4 bytes) but the output differs from the unbounded one" % len(base))
        if o["err"]:
            return bad("Process returned an error although its answer fits")
        return True
    known = [m for m in sv.methods if m["wire"] == rq["name"]]
    pb = codec.parse_reply(base) if base else None
    if not base:
        # a oneway success writes nothing whatever the limit
        if w or o["err"]:
            return bad("a request that gets no answer over an unbounded output left %d bytes" % len(w))
        return True
    if isinstance(pb, str):
        return True       # the unbounded oracle reports that
    btext, bkind = None, None
    if pb["type"] == 3:
        ex = codec.parse_exc(pb["body"])
        if ex is not None:
            btext, bkind = ex
    small_hdr = {b"_opid": rq["opid"]}
    if not w:
        if o["err"] and known:
            return bad("Process returned an error for a registered method")
        if not o["err"] and not known:
            return bad("nothing left for an unknown method but Process returned nil")
        # nothing may be left only if even the op-id-only exception does not fit; its size follows from the
        # error text, which the recorded writes show as soon as an attempt got that far
        if btext is not None and not unwritable:
            text, kind = btext, bkind
        elif codec is BINARY:
            text, kind = etext_of_trace(tr), 100
        else:
            text, kind = codec.too_large_text(lim, len(base)), 100
            if unwritable:
                text = None
        if text is not None:
            need = codec.min_error_size(rq["opid"], rq["name"], text, kind)
            if need <= lim:
                return bad("nothing was left although the exception under the op id alone takes %d bytes" % need)
        elif codec is BINARY and 4 + hdr_block_size(small_hdr) + 12 + len(rq["name"]) + 7 <= lim:
            return bad("nothing was left and no attempt got as far as the exception's text although %d bytes fit" %
                       (4 + hdr_block_size(small_hdr) + 12 + len(rq["name"]) + 7))
        elif codec is not BINARY:
            st.c["bounded/%s_empty_not_judged_by_oracle" % codec.name] += 1
        st.c["bounded/%s_oracle_nothing_fits" % codec.name] += 1
        return True
    if o["err"]:
        return bad("Process returned an error and left %d bytes" % len(w))
    r = codec.parse_reply(w)
    if isinstance(r, str):
        return bad(r)
    if r["headers"].get(b"_opid") != rq["opid"]:
        return bad("reply carries op id %r, the request's is %r" % (r["headers"].get(b"_opid"), rq["opid"]))
    if r["name"] != rq["name"] or r["seq"] != 0:
        return bad("reply names method %r seq %d" % (r["name"][:40], r["seq"]))
    if r["type"] != 3:
        return bad("message type %d although the normal reply does not fit" % r["type"])
    ex = codec.parse_exc(r["body"])
    if ex is None:
        return bad("EXCEPTION body is not a well-formed TApplicationException")
    if unwritable:
        want_kinds = (6, 100)
    elif pb["type"] == 2:
        want_kinds = (100,)
    else:
        want_kinds = (bkind,)
    if ex[1] not in want_kinds:
        return bad("exception type %d, expected %s" % (ex[1], "/".join(map(str, want_kinds))))
    if pb["type"] == 3 and not unwritable and ex[0] != btext:
        return bad("exception message %r differs from the unbounded one" % ex[0][:60])
    sibling_texts.append(ex[0])
    if r["headers"] == pb["headers"]:
        st.c["bounded/%s_oracle_full_headers" % codec.name] += 1
    elif r["headers"] == small_hdr:
        alt = len(w) - hdr_block_size(small_hdr) + hdr_block_size(pb["headers"])
        if alt + 4 <= lim:
            return bad("answered under the op id alone although the exception with all response headers takes %d bytes" % (alt + 4))
        st.c["bounded/%s_oracle_opid_only" % codec.name] += 1
    else:
        return bad("reply headers %r: neither all response headers nor the op id alone" % sorted(r["headers"])[:6])
    return True


def own_otoks(otoks, fr):
    """the outcome entries a frame can reach: the one under its own x-c14 key"""
    rq = parse_request(fr["frame"])
    if rq is None or rq["key"] is None:
        return []
    return [t for t in otoks if t[0] == rq["key"]]


def bounded_case(mode, lim, mtoks, otoks, default_toks, frame, etext, sizes, oerr, out, trace):
    return [mode, lim, mtoks, otoks, default_toks, big_tok(frame), big_tok(etext), sizes, oerr, big_tok(out),
            [[e["k"], bytes.fromhex(e.get("b", "")), 1 if e["ok"] else 0] for e in trace]]


def string_frames(rng, sv, pool, outcomes, k, tagbase, marshal, env):
    """up to k requests to methods that return a string, answered with a long one (the harness pads it) under
    response headers of assorted lengths: replies that overflow where the exception with all headers fits"""
    ms = [m for m in sv.methods if not m["oneway"] and m["m"]["ret"] is not None and
          L.resolve(sv.prog, m["m"]["ret"])[0] == "string" and pool.get(m["go"])]
    out = []
    for j in range(k if ms else 0):
        m = rng.choice(ms)
        opid = str(tagbase + j).encode()
        key = "s%d" % (tagbase + j)
        extra = [[("x-s%d" % t).encode().hex(), bytes(rng.choice(b"abcdefgh") for _ in range(rng.choice([0, 3, 40, 200]))).hex()]
                 for t in range(rng.randrange(0, 3))]
        outcomes[key] = {"k": "ret", "method": m["go"], "result": m["result_key"], "extra": extra,
                         "value": {"0": L.to_wire(sv.prog, ["string"], "abc")}, "pad": rng.choice([120, 260, 700])}
        hs = [(b"_opid", opid), (KEY, key.encode())] + ([(b"_cid", b"cid-%d" % j)] if rng.random() < 0.7 else [])
        args = pool[m["go"]][0]
        out.append({"kind": "ok", "method": m["wire"].decode(), "opid": opid, "outcome": "ret",
                    "frame": marshal(hs) + env(m["wire"], args),
                    "rq": {"opid": opid, "cid": b"", "key": key.encode(), "name": m["wire"], "rest": args}})
    return out


def run_bounded(ctx, sv, st, pool, default_toks, mtoks, nframes, nrand):
    """Process over NewTMemoryOutputBuffer(limit) for limits around every size involved, and the HTTP handler
    with a payload limit."""
    rng = ctx.rng
    frames, outcomes = gen_batch(ctx, sv, nframes, pool, 700000 + 1000 * st.c["bounded/batches"])
    st.c["bounded/batches"] += 1
    # more and longer response headers than the unbounded batches have
    for spec in outcomes.values():
        if rng.random() < 0.7:
            ex = spec.setdefault("extra", [])
            for _ in range(rng.randrange(1, 4)):
                ex.append([("x-b%d" % rng.randrange(6)).encode().hex(),
                           bytes(rng.choice(b"abcdefgh") for _ in range(rng.choice([0, 1, 7, 30, 120, 300]))).hex()])
        # results larger than an error reply (string returns only: the harness pads those), so that the reply
        # overflows where the exception with all response headers still fits
        if spec.get("k") == "ret" and rng.random() < 0.5:
            spec["pad"] = rng.choice([150, 300, 700])
    frames += string_frames(rng, sv, pool, outcomes, 2, 790000 + 100 * st.c["bounded/batches"], hc.ref_marshal,
                            lambda name, args: envelope(name, 1, 0) + args)
    n = len(frames)
    r0 = run_mode_b(sv, "bounded", frames, outcomes, [0] * n)
    if r0.get("code") != 0:
        ctx.violation("C14 (bounded): the unbounded run crashed or hung: %s" % (r0.get("panic") or r0.get("err")),
                      replay_of(sv, frames, outcomes, "bounded", None, r0), signature=None)
        return
    calls_by_key = {}
    for c in r0["calls"]:
        calls_by_key.setdefault(c["key"], c)
    for key, c in calls_by_key.items():
        c["spec"] = outcomes.get(key)
    otoks = outcome_toks_b(sv, outcomes, calls_by_key)
    base = [bytes.fromhex(r0["obs"][i].get("written", "")) for i in range(n)]
    sizes = [chunk_sizes(r0["obs"][i].get("trace", [])) for i in range(n)]

    def call_of(i):
        rq = parse_request(frames[i]["frame"])
        if rq is None or rq["key"] is None:
            return None
        return calls_by_key.get(rq["key"].decode("latin1"))

    def run_pass(plan):
        """plan: list of (frame index, limit)"""
        if not plan:
            return []
        r = run_mode_b(sv, "bounded", [frames[i] for i, _ in plan], outcomes, [l for _, l in plan])
        if r.get("code") != 0:
            ctx.violation("C14 (bounded): the run crashed or hung: %s" % (r.get("panic") or r.get("err")),
                          replay_of(sv, [frames[i] for i, _ in plan], outcomes, "bounded", None, r), signature=None)
            return []
        return list(zip(plan, r["obs"]))

    plan1 = [(i, 0) for i in range(n)]
    for i in range(n):
        N = len(base[i]) + 4
        lims = {1, 3, 4, 5, N - 1, N, N + 1}
        for _ in range(nrand):
            lims.add(rng.randrange(5, N + 4))
        plan1 += [(i, l) for l in sorted(lims) if l > 0]
    obs1 = run_pass(plan1)
    # second pass: one byte around every size that occurred
    seen = {(i, l) for i, l in plan1}
    plan2 = []
    for (i, l), o in obs1:
        E = len(bytes.fromhex(o.get("written", "")))
        if E:
            for l2 in (E + 3, E + 4, E + 5):
                if (i, l2) not in seen:
                    seen.add((i, l2))
                    plan2.append((i, l2))
    obs2 = run_pass(plan2)
    texts = collections.defaultdict(list)
    allobs = obs1 + obs2
    # oracle: first the observations that left something (they teach the error texts), then the empty ones
    allobs.sort(key=lambda x: (x[0][0], 0 if x[1].get("written") else 1))
    for (i, l), o in allobs:
        ok = bounded_oracle(ctx, sv, st, frames[i], l, o, base[i], call_of(i), outcomes, texts[i])
        st.evals += 1
        w = bytes.fromhex(o.get("written", ""))
        nrej = sum(1 for e in o.get("trace", []) if e["k"] == 0 and not e["ok"])
        st.distinct.add((sv.key, frames[i]["kind"], frames[i].get("outcome"), frames[i]["method"], "bounded", nrej, bool(w)))
        st.bjudge_cases.append(bounded_case(0, l, mtoks, own_otoks(otoks, frames[i]), default_toks, frames[i]["frame"],
                                            etext_of_trace(o.get("trace", [])) or b"?", sizes[i], 1 if o["err"] else 0, w,
                                            o.get("trace", [])))
        st.bjudge_meta.append((sv, "bounded", frames[i], outcomes, l, o))
    st.c["bounded/observations"] += len(allobs)
    if len(st.bsamples) < 3 and allobs:
        (i, l), o = allobs[len(allobs) // 2]
        st.bsamples.append({"service": sv.key, "kind": frames[i]["kind"], "limit": l, "unbounded_reply_bytes": len(base[i]),
                            "left": o.get("written", "")[:120], "rejected_writes":
                            sum(1 for e in o.get("trace", []) if e["k"] == 0 and not e["ok"])})

    # ---- HTTP handler with a payload limit (the payload sizes come from an HTTP run without limit: the text
    # of a PROTOCOL_ERROR depends on the input transport)
    rh0 = run_mode_b(sv, "http", frames, outcomes, [0] * n)
    if rh0.get("code") != 0:
        ctx.violation("C14 (http): the run crashed or hung: %s" % (rh0.get("panic") or rh0.get("err")),
                      replay_of(sv, frames, outcomes, "http", None, rh0), signature=None)
        return
    baseh = [bytes.fromhex(rh0["obs"][i].get("raw", ""))[4:] for i in range(n)]
    hplan = []
    for i in range(n):
        if parse_request(frames[i]["frame"]) is None:
            continue
        P = len(baseh[i])
        for l in {1, P - 1, P, P + 1, rng.randrange(1, P + 2)}:
            if l > 0:
                hplan.append((i, l))
    rng.shuffle(hplan)
    hplan = hplan[:3 * n]
    if hplan:
        r = run_mode_b(sv, "http", [frames[i] for i, _ in hplan], outcomes, [l for _, l in hplan])
        if r.get("code") != 0:
            ctx.violation("C14 (http, payload limit): the run crashed or hung: %s" % (r.get("panic") or r.get("err")),
                          replay_of(sv, [frames[i] for i, _ in hplan], outcomes, "http", None, r), signature=None)
        else:
            for (i, l), o in zip(hplan, r["obs"]):
                st.evals += 1
                P = len(baseh[i])
                want = 413 if l < P else 200
                got = bytes.fromhex(o.get("raw", ""))[4:]
                what = None
                if o.get("status") != want:
                    what = "status %s for a payload of %d bytes under x-frugal-payload-limit %d" % (o.get("status"), P, l)
                elif want == 200 and (canon(got) != canon(baseh[i]) if (got and baseh[i]) else got != baseh[i]):
                    what = "the body differs from the reply the same request gets from Process"
                if what:
                    rep = replay_of(sv, [frames[i]], outcomes, "http", 0, o)
                    rep["limit"] = l
                    ctx.violation("C14 (http, payload limit %d): %s" % (l, what), rep,
                                  signature={"mode": "http-limit", "kind": frames[i]["kind"]})
                st.c["bounded/http_%d" % (o.get("status") or 0)] += 1
                st.distinct.add((sv.key, frames[i]["kind"], frames[i].get("outcome"), frames[i]["method"], "http-limit", o.get("status")))
                et = etext_of([baseh[i]]) if baseh[i] else b""
                st.bjudge_cases.append(bounded_case(2, l, mtoks, own_otoks(otoks, frames[i]), default_toks, frames[i]["frame"], et, [],
                                                    {200: 0, 500: 1, 413: 2}.get(o.get("status"), 9), got, []))
                st.bjudge_meta.append((sv, "http", frames[i], outcomes, l, o))


def ascii_text(rng, lo=1, hi=30):
    return "".join(rng.choice("abcdefghij klmnop:_-XYZ09") for _ in range(rng.randrange(lo, hi))).encode()


def run_bounded_proto(ctx, sv, st, proto, nframes, nrand):
    """The same bounded-output runs under the compact and JSON protocols (direct oracle only: the Coq model
    is of the binary protocol).  JSON buffers the whole message in a bufio.Writer, which keeps a failed Flush
    as a sticky error: resetProtocol in trapError / sendError exists for it."""
    rng = ctx.rng
    codec = CODECS[proto]
    reqs, meta = [], []
    for m in sv.methods:
        for _ in range(2):
            v = L.gen_struct_value(rng, sv.prog, m["args_sdef"])
            reqs.append({"op": "write", "type": m["args_key"], "proto": proto,
                         "value": L.struct_to_wire(sv.prog, m["args_sdef"], v)})
            meta.append(m["go"])
    pool = collections.defaultdict(list)
    for g, r in zip(meta, sv.lb.run(reqs)):
        if r.get("code") == 0:
            pool[g].append(bytes.fromhex(r["out"]))
    frames, outcomes = [], {}
    tagbase = 900000 + 1000 * st.c["bounded/batches_" + proto]
    st.c["bounded/batches_" + proto] += 1
    for i in range(nframes):
        m = rng.choice(sv.methods)
        if not pool[m["go"]]:
            continue
        kind = rng.choice(["ok"] * 7 + ["unknown", "badargs"])
        opid = str(tagbase + i).encode()
        key = ("k%d" % (tagbase + i)).encode()
        hdrs = [(b"_opid", opid), (KEY, key)]
        cid = b""
        if rng.random() < 0.7:
            cid = ascii_text(rng, 1, 60)
            hdrs.append((b"_cid", cid))
        rng.shuffle(hdrs)
        name, args = m["wire"], rng.choice(pool[m["go"]])
        desc = {"kind": kind, "method": name.decode(), "opid": opid}
        if kind == "unknown":
            name = b"nosuch" + name
        else:
            spec, ok = gen_outcome(rng, sv, m)
            if "msg" in spec:
                spec["msg"] = ascii_text(rng).hex()
            spec["extra"] = []
            if rng.random() < 0.7:
                for _ in range(rng.randrange(1, 4)):
                    spec["extra"].append([("x-b%d" % rng.randrange(6)).encode().hex(),
                                          ascii_text(rng, 1, rng.choice([2, 8, 31, 121, 301])).hex()])
            if spec.get("k") == "ret" and rng.random() < 0.5:
                spec["pad"] = rng.choice([150, 300, 700])
            outcomes[key.decode()] = spec
            desc["outcome"] = ok
        if kind == "badargs":
            args = args[:rng.randrange(0, max(1, len(args) - 1))]
        desc["frame"] = hc.ref_marshal(hdrs) + codec.envelope(name, args)
        desc["rq"] = {"opid": opid, "cid": cid, "key": key if kind != "unknown" else None, "name": name, "rest": args}
        frames.append(desc)
    frames += string_frames(rng, sv, pool, outcomes, 2, tagbase + 500, hc.ref_marshal, codec.envelope)
    n = len(frames)
    if not n:
        return
    r0 = run_mode_b(sv, "bounded", frames, outcomes, [0] * n, proto=proto)
    if r0.get("code") != 0:
        ctx.violation("C14 (bounded, %s): the unbounded run crashed or hung: %s" % (proto, r0.get("panic") or r0.get("err")),
                      replay_of(sv, frames, outcomes, "bounded-" + proto, None, r0), signature=None)
        return
    calls_by_key = {}
    for c in r0["calls"]:
        calls_by_key.setdefault(c["key"], c)
    for key, c in calls_by_key.items():
        c["spec"] = outcomes.get(key)
    base = [bytes.fromhex(r0["obs"][i].get("written", "")) for i in range(n)]
    for i in range(n):
        # the unbounded answers themselves: one well-formed message with the request's op id
        if base[i]:
            pr = codec.parse_reply(base[i])
            if isinstance(pr, str) or pr["headers"].get(b"_opid") != frames[i]["opid"]:
                rep = replay_of(sv, [frames[i]], outcomes, "bounded-" + proto, 0, r0["obs"][i])
                ctx.violation("C14 (bounded, %s, no limit): %s" % (proto, pr if isinstance(pr, str) else "wrong op id"), rep,
                              signature={"mode": "bounded-" + proto, "kind": frames[i]["kind"]})

    def run_pass(plan):
        if not plan:
            return []
        r = run_mode_b(sv, "bounded", [frames[i] for i, _ in plan], outcomes, [l for _, l in plan], proto=proto)
        if r.get("code") != 0:
            ctx.violation("C14 (bounded, %s): the run crashed or hung: %s" % (proto, r.get("panic") or r.get("err")),
                          replay_of(sv, [frames[i] for i, _ in plan], outcomes, "bounded-" + proto, None, r), signature=None)
            return []
        return list(zip(plan, r["obs"]))

    plan1 = []
    for i in range(n):
        N = len(base[i]) + 4
        lims = {1, 4, 5, N - 1, N, N + 1}
        for _ in range(nrand):
            lims.add(rng.randrange(5, N + 4))
        plan1 += [(i, l) for l in sorted(lims) if l > 0]
    obs1 = run_pass(plan1)
    seen = set(plan1)
    plan2 = []
    for (i, l), o in obs1:
        E = len(bytes.fromhex(o.get("written", "")))
        if E:
            for l2 in (E + 3, E + 4, E + 5):
                if (i, l2) not in seen:
                    seen.add((i, l2))
                    plan2.append((i, l2))
    allobs = obs1 + run_pass(plan2)
    for (i, l), o in allobs:
        rq = frames[i]["rq"]
        call = calls_by_key.get(rq["key"].decode()) if rq["key"] else None
        bounded_oracle(ctx, sv, st, frames[i], l, o, base[i], call, outcomes, [], mode="bounded-" + proto, codec=codec)
        st.evals += 1
        w = o.get("written", "")
        st.distinct.add((sv.key, frames[i]["kind"], frames[i].get("outcome"), frames[i]["method"], "bounded-" + proto,
                         bool(w), len(w) < len(base[i].hex())))
    st.c["bounded/observations_" + proto] += len(allobs)



def run_mode_b(sv, mode, frames, outcomes, limits, proto="binary"):
    rq = {"op": "c14", "service": sv.key, "proto": proto, "mode": mode, "outcomes": outcomes,
          "results": sv.results_map(), "frames": [f["frame"].hex() for f in frames], "limits": limits,
          "workers": 1, "quiet_ms": 150}
    return sv.lb.run([rq], timeout=900)[0]


def run_bounded_nats(ctx, sv, st, pool, default_toks, mtoks, thorough):
    """The real FNatsServer (1 MiB output buffer) with answers that do not fit: by the result, by the response
    headers alone, by the correlation id alone, by the error text; and a reply that fits to the byte.
    Only for the fixed program (methods ping / name)."""
    rng = ctx.rng
    by_wire = {m["wire"]: m for m in sv.methods}
    if b"ping" not in by_wire or b"name" not in by_wire:
        return
    ping, name = by_wire[b"ping"], by_wire[b"name"]
    BIG = NATS_MAX + rng.randrange(1, 200000)
    frames, outcomes, expect = [], {}, []

    def add(m, key, spec, exp, hdrs=None, wire=None, args=None, kind="ok"):
        opid = str(880000 + len(frames)).encode()
        hs = [(b"_opid", opid), (b"_cid", b"cid-%d" % len(frames))] if hdrs is None else [(b"_opid", opid)] + hdrs
        if spec is not None:
            spec = dict(spec, method=m["go"], result=m["result_key"])
            spec.setdefault("extra", [])
            outcomes[key] = spec
            hs.append((KEY, key.encode()))
        body = envelope(wire or m["wire"], 1, 0) + (args if args is not None else pool[m["go"]][0])
        frames.append({"kind": kind, "method": (wire or m["wire"]).decode()[:40], "opid": opid,
                       "frame": hc.ref_marshal(hs) + body, "outcome": (spec or {}).get("k")})
        expect.append(dict(exp, opid=opid))

    sval = {"0": L.to_wire(sv.prog, ["string"], "abc")}
    ival = {"0": L.to_wire(sv.prog, ["i32"], 7)}
    bigh = lambda k: [{"k": k.hex(), "pat": b"h".hex(), "n": BIG}]  # noqa: E731
    add(name, "nb1", {"k": "ret", "value": sval, "extra_rep": bigh(b"x-big")}, {"n": 1, "kind": 100, "hdr": "opid"})
    add(name, "nb2", {"k": "ret", "value": sval, "pad": BIG, "extra": [[b"x-s".hex(), b"small".hex()]]},
        {"n": 1, "kind": 100, "hdr": "full", "extra": {b"x-s": b"small"}})
    add(ping, "nb3", {"k": "appexc", "type": 42, "msg": b"no".hex(), "extra_rep": bigh(b"x-big")},
        {"n": 1, "kind": 42, "hdr": "opid", "msg": b"no"})
    add(ping, "nb4", {"k": "other", "msg": b"E".hex(), "msg_rep": {"k": "", "pat": b"e".hex(), "n": BIG}}, {"n": 0})
    add(ping, None, None, {"n": 1, "kind": 1, "hdr": "opid"}, hdrs=[(b"_cid", b"c" * BIG)], wire=b"nosuch", kind="unknown")
    add(ping, "nb6", {"k": "ret", "value": ival}, {"n": 1, "kind": 7, "hdr": "opid"}, hdrs=[(b"_cid", b"c" * BIG)],
        args=b"\x0b\x00\x01\x7f\xff\xff\xff", kind="badargs")
    add(ping, "nb7", {"k": "ret", "value": ival, "extra_rep": bigh(b"x-big")}, {"n": 1, "kind": 100, "hdr": "opid"})
    if thorough:
        add(name, "nb8", {"k": "other", "msg": b"oops".hex(), "extra_rep": bigh(b"x-big")},
            {"n": 1, "kind": 6, "hdr": "opid", "msg": b"Internal error processing name: oops"})
        add(ping, None, None, {"n": 0}, wire=b"u" * (NATS_MAX // 2), kind="unknown")
    # a reply that fits to the byte, and one byte more: calibrated on an unbounded direct run
    P0 = 1000
    cal_frames, cal_outcomes = [], {}
    hs = [(b"_opid", b"1"), (b"_cid", b"cid-fit"), (KEY, b"cal")]
    cal_outcomes["cal"] = {"k": "ret", "value": sval, "pad": P0, "method": name["go"], "result": name["result_key"], "extra": []}
    cal_frames.append({"kind": "ok", "method": "name", "frame": hc.ref_marshal(hs) + envelope(b"name", 1, 0) + pool[name["go"]][0]})
    rc = run_mode_b(sv, "bounded", cal_frames, cal_outcomes, [0])
    if rc.get("code") == 0 and rc["obs"][0].get("written"):
        N0 = len(bytes.fromhex(rc["obs"][0]["written"])) + 4
        # the op ids of the real frames are 6 digits, the calibration's 1; the keys 3 characters both
        fitpad = P0 + (NATS_MAX - N0) - 5
        add(name, "nf1", {"k": "ret", "value": sval, "pad": fitpad}, {"n": 1, "type": 2, "size": NATS_MAX},
            hdrs=[(b"_cid", b"cid-fit")])
        add(name, "nf2", {"k": "ret", "value": sval, "pad": fitpad + 1}, {"n": 1, "kind": 100, "hdr": "full"},
            hdrs=[(b"_cid", b"cid-fit")])
    r = run_mode_b(sv, "nats", frames, outcomes, [])
    if r.get("code") != 0:
        ctx.violation("C14 (nats, 1 MiB): the run crashed or hung: %s" % (r.get("panic") or r.get("err")),
                      replay_of(sv, [dict(f, frame=f["frame"][:4096]) for f in frames], {}, "nats", None, str(r)[:600]),
                      signature=None)
        return
    calls_by_key = {}
    for c in r["calls"]:
        calls_by_key.setdefault(c["key"], c)
    otoks = outcome_toks_b(sv, outcomes, calls_by_key)
    for i, (fr, exp) in enumerate(zip(frames, expect)):
        o = r["obs"][i]
        got = [bytes.fromhex(x) for x in o["replies"]]
        st.evals += 1

        def bad(what):
            rep = {"service": sv.key, "mode": "nats", "idl": L.render(sv.prog), "failing_frame_index": i,
                   "failing_kind": fr["kind"], "method": fr["method"],
                   "failing_frame_bytes": len(fr["frame"]), "failing_frame_head": fr["frame"][:300].hex(),
                   "outcome": {k: (v if k not in ("value",) else "...") for k, v in (outcomes.get(parse_request(fr["frame"])["key"].decode())
                                                                                    if parse_request(fr["frame"]) and parse_request(fr["frame"])["key"] else {}).items()},
                   "replies": [g[:300].hex() for g in got], "reply_sizes": [len(g) for g in got]}
            ctx.violation("C14 (nats, 1 MiB buffer): %s" % what, rep, signature={"mode": "nats-bounded", "kind": fr["kind"]})

        if o.get("errtext"):
            bad("reply message malformed: " + o["errtext"])
        if len(got) != exp["n"]:
            bad("%d replies to a request that must get %s" % (len(got), "exactly one" if exp["n"] else "none (no answer fits 1 MiB)"))
        for g in got:
            pr = parse_reply(g)
            if isinstance(pr, str):
                bad(pr)
                continue
            if pr["headers"].get(b"_opid") != exp["opid"]:
                bad("reply carries op id %r, the request's is %r" % (pr["headers"].get(b"_opid"), exp["opid"]))
            if len(g) + 4 > NATS_MAX:
                bad("a reply of %d bytes went out" % (len(g) + 4))
            if exp.get("type") == 2:
                if pr["type"] != 2:
                    bad("message type %d for a reply that fits to the byte" % pr["type"])
                elif len(g) + 4 != exp["size"]:
                    bad("calibration: the fitting reply has %d bytes, expected %d" % (len(g) + 4, exp["size"]))
                continue
            if pr["type"] != 3:
                bad("message type %d, expected an EXCEPTION" % pr["type"])
                continue
            ex = parse_app_exception(pr["body"])
            if ex is None:
                bad("EXCEPTION body is not a well-formed TApplicationException")
                continue
            if ex[1] != exp["kind"]:
                bad("exception type %d, expected %d" % (ex[1], exp["kind"]))
            if "msg" in exp and ex[0] != exp["msg"]:
                bad("exception message %r, expected %r" % (ex[0][:80], exp["msg"]))
            keys = set(pr["headers"])
            if exp["hdr"] == "opid" and keys != {b"_opid"}:
                bad("headers %r, expected the op id alone" % sorted(keys))
            if exp["hdr"] == "full":
                if b"_cid" not in keys:
                    bad("headers %r, expected all response headers" % sorted(keys))
                for k, v in exp.get("extra", {}).items():
                    if pr["headers"].get(k) != v:
                        bad("response header %r missing from the exception" % k)
        st.c["bounded/nats_%s" % ("none" if not got else "reply" if exp.get("type") == 2 else "exc_" + exp.get("hdr", "?"))] += 1
        st.distinct.add((sv.key, fr["kind"], fr.get("outcome"), fr["method"], "nats-1MiB", len(got), exp.get("kind"), exp.get("hdr")))
        out = got[0] if got else b""
        st.bjudge_cases.append(bounded_case(1, NATS_MAX, mtoks, otoks, default_toks, fr["frame"], etext_of(got), [],
                                            0, out, []))
        st.bjudge_meta.append((sv, "nats", dict(fr, frame=fr["frame"][:2048]), {}, NATS_MAX, {"replies": [g[:200].hex() for g in got]}))
    if len(st.bsamples) < 5:
        st.bsamples.append({"service": sv.key, "mode": "nats", "response_header_bytes": BIG,
                            "reply_sizes": [[len(bytes.fromhex(x)) for x in o["replies"]] for o in r["obs"]]})


# ------------------------------------------------------------------------------------------------

def run(ctx, br):
    quick = ctx.tier == "quick"
    st = Stats()
    tag = "c14x%d" % (ctx.seed % 100000)
    plan = [("fixed", 2 if quick else 6, 48 if quick else 64)]
    nrand = 1 if quick else 8
    for i in range(nrand):
        plan.append(("random", 1 if quick else 3, 40 if quick else 56))
    nprog = 0
    for pi, (what, nb, nf) in enumerate(plan):
        pid = "%sp%d" % (tag, pi)
        if what == "fixed":
            prog = fixed_program(pid)
        else:
            prog = L.gen_program(ctx.rng, pid, "small", {"scopes": False})
        lb = lab.Lab(prog, lab_id="%s_%d" % (tag, pi), extra_imports=["verifharness/lab/ext_c14"])
        try:
            lb.build()
        except lab.LabError as e:
            if what == "fixed" or "ext_c14" in e.log:
                raise RuntimeError("lab build failed (%s): %s" % (e.stage, e.log[-2000:]))
            st.c["random_program_not_built"] += 1      # C02 / C11 own what the generator cannot compile
            lb.remove()
            continue
        try:
            svcs = [(fn, s) for fn in prog["order"] for s in prog["files"][fn]["services"]]
            if what == "fixed":
                svcs = [x for x in svcs if x[1]["name"] == "Store"]
            else:
                ctx.rng.shuffle(svcs)
                svcs = svcs[:2]
            for fn, s in svcs:
                sv = Svc(prog, lb, fn, s)
                run_service(ctx, sv, nf, st, nb,
                            bounded={"nframes": (10 if what == "fixed" else 6) if quick else (24 if what == "fixed" else 12),
                                     "nrand": 4 if quick else 10, "nats": what == "fixed", "thorough": not quick})
                st.c["services"] += 1
            nprog += 1
        finally:
            lb.remove()

    # ---- correspondence: the Coq model replays every batch
    verdicts = vlib.run_judge(ctx.rundir, "JProcessor", "judge", st.judge_cases, shard=900000) if st.judge_cases else []
    mism = 0
    branch_hits = collections.Counter()
    validated = 0
    for case, meta, v in zip(st.judge_cases, st.judge_meta, verdicts):
        sv, mode, frames, outcomes, idxs = meta
        if v < 0:
            mism += 1
            j = -v - 1
            rep = replay_of(sv, frames, outcomes, mode, j if j < len(frames) else None, None)
            rep["no_failing_input_found"] = True
            rep["broken"] = ("correspondence JProcessor.judge: Model/Processor.v (process / simple_conn / nats_frame / http_frame / "
                             "sections_of) does not reproduce what the implementation did" +
                             (" with this frame" if j < len(frames) else " with the stream of this batch"))
            ctx.violation("C14 correspondence (%s): model and implementation disagree" % mode, rep,
                          signature={"mode": mode, "judge": True})
        else:
            validated += len(frames)
            for b, name in BRANCHES.items():
                if v & b:
                    branch_hits["%s/%s" % (mode, name)] += 1
    # ---- correspondence over bounded outputs: Model/ProcessorBounded.v replays every observation
    bverd = vlib.run_judge(ctx.rundir, "JProcessorBounded", "judge", st.bjudge_cases, shard=900000, name="jb") \
        if st.bjudge_cases else []
    bmism = 0
    bhits = collections.Counter()
    for meta, v in zip(st.bjudge_meta, bverd):
        sv, mode, fr, outcomes, lim, o = meta
        if v < 0:
            bmism += 1
            rep = replay_of(sv, [fr], outcomes, mode, 0, o)
            rep["limit"] = lim
            rep["no_failing_input_found"] = True
            rep["broken"] = ("correspondence JProcessorBounded.judge: Model/ProcessorBounded.v (process_b / nats_frame_b / "
                             "http_frame_b: SendReply, trapError, sendError, writeException over a bounded output) does not "
                             "reproduce what the implementation did with this frame and limit")
            ctx.violation("C14 correspondence (%s, bounded output, limit %d): model and implementation disagree" % (mode, lim),
                          rep, signature={"mode": mode + "-bounded", "judge": True})
        else:
            validated += 1
            bhits["%s/%s/%d rejected writes/%s" % (mode, BPLAN.get(v // 100, "?"), (v % 100) // 10,
                                                   {0: "answer left", 1: "nothing left", 5: "413"}.get(v % 10, "?"))] += 1
    ctx.assumptions += [
        "handlers do not panic and do not block; over a bounded output the binary protocol is modelled write by write "
        "(compact / JSON are not)",
        "texts of Go errors (args.Read error, result.Write error) are inputs of the model, taken from the observed reply",
        "compact and JSON protocols are not modelled (the envelope and TApplicationException codecs are Apache Thrift's)",
        "a frame whose headers or envelope cannot be decoded ends the FSimpleServer connection it arrived on (kept behaviour)",
    ]
    return {
        "evaluations": st.evals,
        "distinct_nontrivial": len(st.distinct),
        "rule": "request frames for generated processors (one fixed program with every method shape, seeded random programs with "
                "inheritance): known/unknown method x well-formed/mutated arguments x handler outcome (value, declared exception, "
                "TApplicationException, other error, unwritable result, default) x header/envelope variants, run through Process "
                "directly (transport with and without Reset), 2-8 goroutines on one shared output, FSimpleServer connections, "
                "FNatsServer (1 and 3 workers), HTTP handler; bounded outputs: Process over NewTMemoryOutputBuffer(limit) for limits "
                "1, 3, 4, 5, one byte around the reply / the exception with all headers / the exception under the op id alone, "
                "and random ones, FNatsServer with results / response headers / correlation ids / error texts above 1 MiB and a "
                "reply of exactly 1 MiB, HTTP handler with x-frugal-payload-limit around the payload size; "
                "non-trivial = distinct (service, frame kind, outcome, method, mode, replies | rejected writes, anything left)",
        "programs": nprog,
        "traces_validated_against_impl": validated,
        "judge_cases": len(st.judge_cases),
        "judge_mismatches": mism,
        "model_branch_hits": dict(sorted(branch_hits.items())),
        "bounded_judge_cases": len(st.bjudge_cases),
        "bounded_judge_mismatches": bmism,
        "bounded_model_branch_hits": dict(sorted(bhits.items())),
        "bounded_samples": st.bsamples,
        "input_histogram": dict(st.c),
        "samples": st.samples,
    }
