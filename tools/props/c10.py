"""C10 — the parser represents every declaration exactly and accepts all Thrift.

Correspondence: every generated text (well-formed models in random lexical styles, hazard
cases, a malformed stream, multi-file programs) is parsed by the real parser (harness vh_c10:
parser.ParseReader / parser.ParseFrugal) and by the Coq model (Gen/Grammar.v run by the pigeon
interpreter with the transcribed actions, Judge/JParser.v); parse trees and error lists must
agree exactly.  Direct oracle (no model): parse(render(model)) == canon(model) on the real
parser, and the `-gen json` descriptor agrees with the model as an independent second view.
Programs (ParseFrugal on several files): the model side is Model/ParserFiles.v parse_program, which is
Model/CompilerValidate.v cparse_program (the one transcription of Frugal.validate / parseFrugal, C11) run
on the PEG model's own parse trees; valid programs must be accepted with exactly the declared trees,
programs with one semantic fault (c10_gen.FAULTS injected into generated declarations, REPAIRED_CHECKS as
fixed texts, each also behind an include) must be rejected with the diagnostic of that check, and the
model must give the same answer and, for validate's diagnostics, the same text.
Static: grammar.peg and the generated grammar.peg.go (what runs, and what Gen/Grammar.v is regenerated
from) must describe the same parser (props/c10_pegsync.py); any difference is a violation.
"""
import json
import os
import re
import shutil

import vlib
from props import c10_gen as G
from props import c10_fragment as F
from props import c10_pegsync as S

HARNESS_BINS = ["vh_c10"]
NEEDS_FRUGAL = True

ENUM_OVERFLOW = re.compile(r"^parser: enum (\S+): no value left for (\S+) after 9223372036854775807$")

ERR_KINDS = [
    ("invalid encoding", 1), ("no match found", 2), ("parser: syntax error", 3),
    ("parser: expected end of service", 4), ("parser: expected end of scope", 5),
]


def run_harness(reqs, timeout=900):
    """vh_c10 may die on an unrecoverable fault (stack overflow): restart after the offending request."""
    resps = []
    pending = list(reqs)
    guard = 0
    while pending and guard < 50:
        guard += 1
        inp = ("\n".join(json.dumps(r) for r in pending) + "\n").encode()
        rc, out, err = vlib.sh([os.path.join(vlib.BIN, "vh_c10")], inp=inp, timeout=timeout)
        got = []
        for l in out.split("\n"):
            if l.strip():
                try:
                    got.append(json.loads(l))
                except ValueError:
                    got.append({"code": 103, "msg": "unparsable harness output: " + l[:200]})
        resps.extend(got)
        if len(got) >= len(pending):
            break
        resps.append({"code": 100, "panic": "process died: " + err[-400:]})
        pending = pending[len(got) + 1:]
    return resps


def classify_err(e, rule_ids):
    msg = e.get("msg", "")
    kind, payload = 13, b""
    for m, k in ERR_KINDS:
        if msg == m:
            kind = k
    if msg.startswith("parser: invalid prefix variable '") and msg.endswith("'"):
        kind, payload = 6, msg[len("parser: invalid prefix variable '"):-1].encode()
    elif msg.startswith("strconv.ParseInt:"):
        kind = 8 if msg.endswith("value out of range") else 7
    elif msg.startswith("strconv.ParseFloat:"):
        kind = 10 if msg.endswith("value out of range") else 9
    elif msg == "invalid syntax":
        kind = 11
    elif msg.startswith("parser: unknown value"):
        kind = 12
    elif ENUM_OVERFLOW.match(msg):
        m = ENUM_OVERFLOW.match(msg)
        kind, payload = 14, (m.group(1) + " " + m.group(2)).encode()
    return [e.get("off", -1), rule_ids.get(e.get("rule", ""), -1), kind, payload]


def judge_case_parse(text, resp, rule_ids):
    if resp.get("code") == 0:
        return [1, text, 0, G.from_json(resp["ast"])]
    if resp.get("code") == 1:
        return [1, text, 1, [classify_err(e, rule_ids) for e in resp.get("errs", [])]]
    return [1, text, resp.get("code", 103), []]


def trunc(b, n=600):
    s = b.decode("utf8", "backslashreplace")
    return s if len(s) <= n else s[:n] + "...[%d bytes]" % len(b)


def first_diff(a, b, path=""):
    """human-readable position of the first difference of two canonical forms"""
    if type(a) != type(b):
        return "%s: %r vs %r" % (path, a, b)
    if isinstance(a, list):
        if len(a) != len(b):
            return "%s: length %d vs %d" % (path, len(a), len(b))
        for i, (x, y) in enumerate(zip(a, b)):
            d = first_diff(x, y, "%s[%d]" % (path, i))
            if d:
                return d
        return None
    return None if a == b else "%s: %r vs %r" % (path, a, b)


SECTIONS = ["includes", "namespaces", "typedefs", "constants", "enums", "structs", "exceptions", "unions",
            "services", "scopes"]


def oracle_parse(case, resp):
    """parse(render(m)) = m on the real parser; None or a description"""
    if resp.get("code", 0) >= 100:
        return "parser crashed or hung: %s" % (resp.get("panic") or resp.get("msg"))
    if case["kind"] == "malformed":
        return None      # any orderly answer is acceptable for arbitrary text
    if case["kind"] == "enum_overflow":
        # Thrift's previous + 1 does not exist in 64 bits: the only faithful answer is the Enum action's error
        if resp.get("code") == 0:
            return "an enum value without a number after 9223372036854775807 was accepted (and numbered)"
        if not any(ENUM_OVERFLOW.match(e.get("msg", "")) for e in resp.get("errs", [])):
            return "rejected, but not with the Enum action's error: %s" % resp.get("msg", "")[:300]
        return None
    if resp.get("code") != 0:
        return "valid IDL rejected: %s" % resp.get("msg", "")[:300]
    got = G.from_json(resp["ast"])
    want = case["canon"]
    d = first_diff(want, got)
    if d:
        sec = int(d[1:d.index("]")]) if d.startswith("[") else -1
        return "parse tree differs from the declaration (%s): expected vs parsed %s" % (
            SECTIONS[sec] if 0 <= sec < 10 else "?", d)
    return None


# ---- the JSON descriptor as a second view ------------------------------------------------------------

def _jtype(t):
    """compiler/generator/json: toType"""
    n = t["name"]
    if n == b"list":
        j = {"v": _jtype(t["val"])}
    elif n == b"set":
        j = {"k": _jtype(t["val"])}
    elif n == b"map":
        j = {"k": _jtype(t["key"]), "v": _jtype(t["val"])}
    elif n in G.BASE_TYPES:
        j = {"b": n.decode()}
    else:
        j = {"n": n.decode()}
    if t["anns"]:
        j["a"] = {a["name"].decode(): (a["value"] or b"").decode("utf8") for a in t["anns"]}
    return j


def _jfields(fs):
    return {str(f["id"]): {"n": f["name"].decode(), "t": _jtype(f["type"])} for f in fs}


def expected_descriptor(m):
    """documentation/json.md: what the descriptor of one file must say, computed from the model alone"""
    out = {}
    types, services, scopes = {}, {}, {}
    for k, d in m["decls"]:
        name = d.get("name", b"").decode()
        if k == "typedef":
            types[name] = _jtype(d["type"])
        elif k == "enum":
            vals = {}
            for v, n in zip(d["values"], G.thrift_enum_numbering(d["values"])):
                vals.setdefault(str(n), []).append(v["name"].decode())
            types[name] = {"e": vals} if vals else {}
        elif k in ("struct", "exception"):
            types[name] = {"s": _jfields(d["fields"])} if d["fields"] else {}
        elif k == "union":
            types[name] = {"u": _jfields(d["fields"])} if d["fields"] else {}
        elif k == "service":
            ms = {}
            for f in d["methods"]:
                mm = {}
                if f["args"]:
                    mm["p"] = _jfields(f["args"])
                res = {}
                if f["ret"] is not None:
                    res["0"] = {"t": _jtype(f["ret"])}
                res.update(_jfields(f["throws"] or []))
                if res:
                    mm["r"] = res
                ms[f["name"].decode()] = mm
            services[name] = {"m": ms}
        elif k == "scope":
            sc = {"p": (d["prefix"] or b"").decode()}
            if d["ops"]:
                sc["o"] = {o["name"].decode(): _jtype(o["type"]) for o in d["ops"]}
            scopes[name] = sc
    if services:
        out["s"] = services
    if scopes:
        out["c"] = scopes
    if types:
        out["t"] = types
    return out


def json_view_check(ctx, prog, rundir):
    """frugal -gen json on a generated program; the descriptor must equal the one computed from the model"""
    d = os.path.join(rundir, "jsongen")
    shutil.rmtree(d, ignore_errors=True)
    os.makedirs(d)
    for name, text in prog["files"].items():
        p = os.path.join(d, name.decode())
        os.makedirs(os.path.dirname(p), exist_ok=True)
        with open(p, "wb") as fh:
            fh.write(text)
    out = os.path.join(d, "out")
    os.makedirs(out)
    rc, so, se = vlib.sh([os.path.join(vlib.BIN, "frugal"), "-gen", "json", "-out", out, "-r",
                          os.path.join(d, prog["root"].decode())], timeout=60)
    if rc != 0:
        return "frugal -gen json failed on a valid program: " + (so + se)[-300:]
    found = os.path.join(out, "frugal.json")
    if not os.path.exists(found):
        return "frugal -gen json produced no descriptor"
    try:
        desc = json.load(open(found))
    except ValueError as e:
        return "descriptor is not JSON: %s" % e
    # files reachable from the root through includes, keyed by Frugal.Name
    want = {}
    todo = [prog["root"]]
    while todo:
        n = todo.pop()
        stem = os.path.basename(n.decode()).split(".")[0]
        if stem in want:
            continue
        want[stem] = expected_descriptor(prog["models"][n])
        for k, dd in prog["models"][n]["decls"]:
            if k == "include":
                todo.append(os.path.normpath(os.path.join(os.path.dirname(n.decode()), dd["value"].decode())).encode())
    if sorted(desc) != sorted(want):
        return "JSON descriptor describes files %r, the program consists of %r" % (sorted(desc), sorted(want))
    for stem in sorted(want):
        if desc[stem] != want[stem]:
            for sec in ("s", "c", "t"):
                a, b = want[stem].get(sec, {}), desc[stem].get(sec, {})
                for key in sorted(set(a) | set(b)):
                    if a.get(key) != b.get(key):
                        return "JSON descriptor of %s: %s[%r] is %s, the IDL declares %s" % (
                            stem, sec, key, json.dumps(b.get(key))[:200], json.dumps(a.get(key))[:200])
            return "JSON descriptor of %s differs from the declarations" % stem
    return None


# ---- programs (several files) -----------------------------------------------------------------------

def break_typedef_cycles(m):
    """ParseFrugal rejects typedefs defined in terms of themselves (repo fix 9b849ec); the model generator lets a
    typedef name any type of its file, so two typedefs can name each other: cut such cycles (same marking
    algorithm as validateTypedefs) by making the unresolved typedefs aliases of i32."""
    tds = [d for k, d in m["decls"] if k == "typedef"]
    names = {d["name"] for d in tds}

    def refs(t, acc):
        if t is None:
            return acc
        acc.add(t["name"])
        refs(t["key"], acc)
        refs(t["val"], acc)
        return acc
    resolved, progress = set(), True
    while progress:
        progress = False
        for d in tds:
            if d["name"] not in resolved and not ((refs(d["type"], set()) & names) - resolved):
                resolved.add(d["name"])
                progress = True
    for d in tds:
        if d["name"] not in resolved:
            d["type"] = {"name": b"i32", "key": None, "val": None, "anns": []}


def gen_program(ctx, rng, idx, fault=None):
    """a valid program of 1-4 files; with [fault], the same with one semantic fault (G.FAULTS) injected into one
    reachable file before rendering: ParseFrugal must reject it with the diagnostic of that check"""
    nfiles = rng.choice([1, 1, 2, 2, 3, 4])
    gens = {}
    names = []
    for i in range(nfiles):
        stem = ("f%d_%d" % (idx, i)).encode()
        sub = b"sub/" if (i > 0 and rng.random() < 0.3) else b""
        names.append(sub + stem + rng.choice([b".frugal", b".thrift"]))
    models, envs = {}, {}
    # file i may include files j > i (no cycles); paths are relative to the including file's directory
    for i in reversed(range(nfiles)):
        incs = []
        for j in range(i + 1, nfiles):
            if rng.random() < 0.6:
                mine_dir = os.path.dirname(names[i].decode())
                rel = os.path.relpath(names[j].decode(), mine_dir or ".").encode()
                if any(G.include_name(v) == G.include_name(rel) for v, _ in incs):
                    continue
                incs.append((rel, envs[names[j]]))
        gen = G.Gen(rng, size=0.8)
        # several scopes per file (ParseFrugal sorts them by name) and services (duplicate-name validation)
        extra = ["scope"] * rng.choice([0, 2, 3]) + ["service"] * rng.choice([0, 1, 2])
        m = gen.model(includes=incs, extra_kinds=extra)
        break_typedef_cycles(m)
        # ParseFrugal rejects values that do not conform to their declared type (repo fix c6ad503): redraw them
        G.conform_values(gen, m, {G.include_name(v): im for v, im in incs})
        if rng.random() < 0.3:
            G.alias_throws(gen, m)          # throws through a typedef of an exception: valid
        models[names[i]] = m
        envs[names[i]] = m
        gens[names[i]] = gen
    if fault is not None:
        # one file of the program (the root or a file it includes, directly or not) gets one semantic fault
        reach = reachable_files(names[0], models)
        victim = rng.choice(sorted(reach))
        models[victim]["_self"] = os.path.basename(victim.decode()).encode()
        touched = G.inject_fault(gens[victim], models[victim], fault)
    files = {n: G.Renderer(rng).render(models[n]) for n in names}
    for n in names:
        for rel, text in models[n].pop("_extra_files", {}).items():
            files[os.path.normpath(os.path.join(os.path.dirname(n.decode()), rel.decode())).encode()] = text
    prog = {"files": files, "root": names[0], "models": models}
    if fault is not None:
        prog.update({"mutated": True, "expect": "reject", "fault": fault, "fault_in": victim.decode(),
                     "fault_at": touched.decode("utf8", "backslashreplace"), "expect_msg": G.FAULT_MSG[fault]})
    return prog


def reachable_files(root, models):
    seen, todo = set(), [root]
    while todo:
        n = todo.pop()
        if n in seen:
            continue
        seen.add(n)
        for k, d in models[n]["decls"]:
            if k == "include":
                todo.append(os.path.normpath(os.path.join(os.path.dirname(n.decode()), d["value"].decode())).encode())
    return seen


def oracle_program(prog, resp):
    if resp.get("code", 0) >= 100:
        return "ParseFrugal crashed or hung: %s" % (resp.get("panic") or resp.get("msg"))
    if resp.get("code") != 0:
        return "valid program rejected by ParseFrugal: %s" % resp.get("msg", "")[:300]

    def walk(name, node):
        m = prog["models"][name]
        want = G.canon(m, sort_scopes=True)
        got_name, got_ast, got_incs = node
        got_ast = list(got_ast)
        # the order of scopes is not part of the property (ParseFrugal sorts them for determinism)
        got_ast[9] = sorted(got_ast[9], key=lambda sc: sc[1])
        d = first_diff(want, got_ast)
        if d:
            return "file %s: parse tree differs from the declaration: %s" % (name.decode(), d)
        stem = os.path.basename(name.decode()).split(".")[0].encode()
        if got_name != stem:
            return "file %s: Frugal.Name is %r" % (name.decode(), got_name)
        incs = [d2["value"] for k, d2 in m["decls"] if k == "include"]
        got = {k: sub for k, sub in got_incs}
        if sorted(got) != sorted({G.include_name(v) for v in incs}):
            return "file %s: ParsedIncludes has %r, the file includes %r" % (name.decode(), sorted(got), incs)
        for v in incs:
            child = os.path.normpath(os.path.join(os.path.dirname(name.decode()), v.decode())).encode()
            r = walk(child, got[G.include_name(v)])
            if r:
                return r
        return None
    return walk(prog["root"], G.from_json(resp["ast"]))


def judge_case_files(prog, resp):
    files = [[n, t] for n, t in sorted(prog["files"].items())]
    code = resp.get("code", 103)
    tree = G.from_json(resp["ast"]) if code == 0 else []
    return [2, files, prog["root"], code, tree, (resp.get("msg") or "").encode("utf8") if code == 1 else b""]


# (text, the diagnostic ParseFrugal must give); nbinc.frugal = NBINC is beside every one of them
NBINC = b"service Base {}\nexception IncExc {}\nstruct IncS {}\n"
REPAIRED_CHECKS = [
    (b"\nservice Svc7 extends NoSuchSvc7 { void ping() }\n", "Invalid extends NoSuchSvc7 for service Svc7"),
    (b"\nservice Svc7 extends nosuchinc.Svc { void ping() }\n", "Invalid extends nosuchinc.Svc for service Svc7"),
    (b"\ninclude \"nbinc.frugal\"\nservice Svc7 extends nbinc.Nope { void ping() }\n", "Invalid extends nbinc.Nope for service Svc7"),
    (b"\ninclude \"nbinc.frugal\"\nservice Svc7 extends nbinc.IncS {}\n", "Invalid extends nbinc.IncS for service Svc7"),
    (b"\ninclude \"nbinc.frugal\"\nservice Svc7 extends nbinc.Base.x {}\n", "Invalid extends nbinc.Base.x for service Svc7"),
    (b"\nservice Svc7 extends Svc7 {}\n", "Circular extends Svc7"),
    (b"\nservice Svc7 extends Svc6 {}\nservice Svc6 extends Svc7 {}\n", "Circular extends Svc7"),
    (b"\nservice Svc7 extends Svc6 {}\nservice Svc6 extends Svc5 {}\nservice Svc5 extends Svc6 { void ping() }\n",
     "Circular extends Svc7"),
    (b"\nstruct NotExc7 {}\nservice Svc7 { void f() throws (1: NotExc7 e) }\n",
     "Invalid exception type NotExc7 for Svc7.f: not an exception"),
    (b"\nservice Svc7 { void f() throws (1: string e) }\n", "Invalid exception type string for Svc7.f: not an exception"),
    (b"\nexception Exc7 {}\nservice Svc7 { void f() throws (1: list<Exc7> e) }\n",
     "Invalid exception type list for Svc7.f: not an exception"),
    (b"\nenum En7 { A }\ntypedef En7 Alias7\nservice Svc7 { i32 f() throws (1: Alias7 e) }\n",
     "Invalid exception type Alias7 for Svc7.f: not an exception"),
    (b"\ninclude \"nbinc.frugal\"\nservice Svc7 { void f() throws (1: nbinc.IncS e) }\n",
     "Invalid exception type nbinc.IncS for Svc7.f: not an exception"),
    (b"\nstruct Dup7 { 1: i32 a, 2: string a }\n", "Duplicate field name a in struct Dup7"),
    (b"\nunion Dup7 { 1: i32 a; 2: i32 b; 3: i64 a }\n", "Duplicate field name a in struct Dup7"),
    (b"\nexception Dup7 { 1: string msg, 2: string msg }\n", "Duplicate field name msg in struct Dup7"),
    (b"\nservice Svc7 { void f(1: i32 a, 2: i32 a) }\n", "Duplicate field name a in method Svc7.f"),
    (b"\nexception Exc7 {}\nexception Exc6 {}\nservice Svc7 { void f() throws (1: Exc7 a, 1: Exc6 b) }\n",
     "Duplicate field id 1 in method Svc7.f"),
    (b"\nexception Exc7 {}\nservice Svc7 { void f() throws (1: Exc7 a, 2: Exc7 a) }\n",
     "Duplicate field name a in method Svc7.f"),
    (b"\nservice Svc7 { void f(1: i32 a, 1: i32 b) }\n", "Duplicate field id 1 in method Svc7.f"),
    (b"\nstruct Dup7 { -4: i32 a, -4: i32 b }\n", "Duplicate field id -4 in struct Dup7"),
    (b"\nstruct Dup7 { 0: i32 a, 5: i32 c, 0: i32 b }\n", "Duplicate field id 0 in struct Dup7"),
    (b"\nservice Svc7 { void f(-2: i32 a, -2: i32 b) }\n", "Duplicate field id -2 in method Svc7.f"),
    (b"\nexception Exc7 {}\nservice Svc7 { void f() throws (-1: Exc7 a, -1: Exc7 b) }\n",
     "Duplicate field id -1 in method Svc7.f"),
    (b"\nscope Sc7 prefix a.{zone}.b.{zone} { op: E }\n", "Duplicate prefix variable zone in scope Sc7"),
]
REPAIRED_CHECK_TEXTS = [t for t, _ in REPAIRED_CHECKS if b"include" not in t]


VALID_NEIGHBOUR_TEXTS = [
    b"service Svc6 {}\nservice Svc7 extends Svc6 { void ping() }\n",
    b"service Svc7 extends Svc6 {}\nservice Svc6 extends Svc5 {}\nservice Svc5 { void ping() }\n",
    b"include \"nbinc.frugal\"\nservice Svc7 extends nbinc.Base {}\n",
    b"exception Exc7 {}\ntypedef Exc7 Alias7\ntypedef Alias7 Alias6\nservice Svc7 { void f() throws (1: Alias6 e) }\n",
    b"include \"nbinc.frugal\"\ntypedef nbinc.IncExc Alias7\nservice Svc7 { void f() throws (1: nbinc.IncExc a, 2: Alias7 b) }\n",
    b"struct S7 { 1: i32 a, 2: string A }\nservice Svc7 { void f(1: i32 a, 2: i32 b) throws () }\n",
    b"exception Exc7 {}\nservice Svc7 { void f(1: i32 a) throws (1: Exc7 a) }\n",
]


def mutate_program(rng, prog):
    """programs that ParseFrugal must reject (or at least answer in an orderly way): a semantic
    mutation of one file of a valid program"""
    files = dict(prog["files"])
    name = rng.choice(sorted(files))
    r = rng.random()
    t = files[name]
    if r < 0.2:
        t = t + b"\nstruct Dangling { 1: NoSuchType x }\n"
    elif r < 0.35:
        t = t + b"\nstruct Twice { 1: i32 a, 1: i32 b }\n"
    elif r < 0.5:
        t = t + b"\nservice Svc9 { void ping() } service svc9 { void ping() }\n"
    elif r < 0.6:
        t = t + b"\ninclude \"" + os.path.basename(prog["root"].decode()).encode() + b"\"\n"      # cycle / self include
    elif r < 0.7:
        t = t + b"\ninclude \"missing.frugal\"\n"
    elif r < 0.78:
        t = t + b"\ninclude \"other.txt\"\n"
    elif r < 0.86:
        t = t + b"\nconst i32 Ref9 = no_such_constant\n"
    elif r < 0.93:
        t = t + b"\nservice Svc8 { oneway i32 f() }\n"
    else:
        t = t + b"\ntypedef list Bare9\n"
    expect = None
    if rng.random() < 0.45:
        # the checks added by the repairs of validate, as appended text (the model-level faults of
        # gen_program(fault=...) put the same constructs inside the generated declarations)
        t = files[name] + rng.choice(REPAIRED_CHECK_TEXTS)
        expect = "reject"
    files[name] = t
    out = {"files": files, "root": prog["root"], "models": prog["models"], "mutated": True}
    if expect and name in reachable_files(prog["root"], prog["models"]):
        out["expect"] = expect
        out["fault"] = "appended invalid declaration"
    return out


def shrink_failure(ctx, model, rounds=8):
    """delta-debug a failing well-formed model: drop declarations (re-rendered in a few styles) while the
    real parser still gets it wrong; returns the smallest failing text found, or None"""
    import random
    best = None
    cur = model
    for _ in range(rounds):
        cands = []
        decls = cur["decls"]
        variants = [dict(cur, decls=decls[:i] + decls[i + 1:]) for i in range(len(decls))] if len(decls) > 1 else []
        variants.append(cur)
        for vi, m in enumerate(variants):
            for seed in range(3):
                rd = G.Renderer(random.Random(ctx.seed * 31 + seed), plain=(seed == 0))
                try:
                    text = rd.render(m)
                except Exception:  # noqa
                    continue
                cands.append((m, text))
        resps = run_harness([{"op": "parse", "text": t.hex()} for _, t in cands])
        failing = []
        for (m, t), r in zip(cands, resps):
            if oracle_parse({"kind": "valid", "canon": G.canon(m)}, r):
                failing.append((len(m["decls"]), len(t), m, t))
        if not failing:
            break
        failing.sort(key=lambda x: (x[0], x[1]))
        n, _, m, t = failing[0]
        if best is not None and len(t) >= len(best) and n >= len(cur["decls"]):
            break
        best = t
        if n >= len(cur["decls"]):
            break
        cur = m
    return best


# ---- main ------------------------------------------------------------------------------------------

def run_fragment(ctx, rng, n):
    """The PROVED fragment (theorem c10_roundtrip_structs_partial): generated descriptions of files inside it,
    rendered, parsed by the real parser; direct oracle = the declared model; the judge JParserFragment checks
    inside Coq that each description satisfies the theorem's hypotheses, that the theorem's rendering is the
    parsed text, and that the implementation returned the theorem's tree."""
    descs, feats = [], {}
    for i in range(n):
        g = F.FragGen(rng, size=1.0 if i % 5 else 2.0)
        d = g.file()
        descs.append((d, F.render(d)))
        for f in g.features:
            feats[f] = feats.get(f, 0) + 1
    resps = run_harness([{"op": "parse", "text": t.hex()} for _, t in descs])
    if len(resps) != len(descs):
        raise RuntimeError("harness answered %d of %d fragment requests" % (len(resps), len(descs)))
    failed = set()
    for i, ((d, t), r) in enumerate(zip(descs, resps)):
        why = oracle_parse({"kind": "valid", "canon": G.canon(F.to_model(d))}, r)
        if why:
            failed.add(i)
            ctx.violation("C10 oracle (proved fragment): " + why,
                          {"idl_text": t.decode("utf8", "backslashreplace"), "text_hex": t.hex(),
                           "observed": {k: r.get(k) for k in ("code", "msg")},
                           "theorem": "c10_roundtrip_structs_partial"})
    jcases = [[t, d["w0"], F.to_tok(d), r.get("code", 103), G.from_json(r["ast"]) if r.get("code") == 0 else []]
              for (d, t), r in zip(descs, resps)]
    verdicts = vlib.run_judge(ctx.rundir, "JParserFragment", "judge", jcases, shard=400000, name="jf")
    why_v = {-1: "the implementation's tree is not the tree the theorem gives for this text",
             -2: "fragment description does not decode (generator / judge out of step)",
             -3: "generated description is outside the hypotheses of the theorem (generator fault)",
             -4: "the generator's text is not the theorem's rendering of the description (generator fault)"}
    for i, v in enumerate(verdicts):
        if v < 0 and not (v == -1 and i in failed):
            d, t = descs[i]
            ctx.violation("C10 proved fragment: " + why_v.get(v, "judge verdict %d" % v),
                          {"idl_text": t.decode("utf8", "backslashreplace"), "text_hex": t.hex(),
                           "observed": {k: resps[i].get(k) for k in ("code", "msg")},
                           "no_failing_input_found": v != -1,
                           "broken": "Judge/JParserFragment.v (c10_roundtrip_structs_partial / c10_fragment_check_sound)"})
    tags = {}
    for v in verdicts:
        tags[v] = tags.get(v, 0) + 1
    return {
        "theorem": "c10_roundtrip_structs_partial (with c10_fragment_check_sound: the judge's check implies its hypotheses)",
        "declaration_kinds_inside": F.KINDS_INSIDE,
        "render_styles_inside": F.STYLES_INSIDE,
        "outside": F.OUTSIDE,
        "cases": len(descs),
        "instances_accepted_by_judge": len([v for v in verdicts if v >= 0]),
        "judge_rejections": len([v for v in verdicts if v < 0]),
        "oracle_failures": len(failed),
        "kind_sets_seen": {str(k - 5000): c for k, c in sorted(tags.items()) if k >= 5000},
        "kind_set_legend": "bit set: 1 typedef, 2 enum, 4 struct/exception/union, 8 const, 16 service",
        "render_styles_exercised": dict(sorted(feats.items())),
        "bytes": sum(len(t) for _, t in descs),
        "sample": [trunc(t, 300) for _, t in descs[:2]],
    }


def run(ctx, br):
    rng = ctx.rng
    quick = ctx.tier == "quick"
    n_valid, n_hazard_each, n_bad, n_prog = (110, 2, 60, 12) if quick else (1300, 20, 700, 120)
    rules = run_harness([{"op": "rules"}])[0].get("rules", [])
    rule_ids = {n: i for i, n in enumerate(rules)}

    # grammar.peg (the source a maintainer edits) and grammar.peg.go (generated from it; what runs and what the Coq
    # grammar is regenerated from) are kept in step by hand: any disagreement is a violation
    pdir = os.path.join(vlib.REPO, "compiler", "parser")
    with open(os.path.join(pdir, "grammar.peg"), encoding="utf8") as f:
        peg_text = f.read()
    with open(os.path.join(pdir, "grammar.peg.go"), encoding="utf8") as f:
        go_text = f.read()
    sync_diffs = S.compare(peg_text, go_text)
    for d in sync_diffs:
        ctx.violation("C10 grammar.peg and grammar.peg.go disagree: " + d,
                      {"files": ["compiler/parser/grammar.peg", "compiler/parser/grammar.peg.go"], "difference": d,
                       "no_failing_input_found": True,
                       "broken": "the generated parser is not what grammar.peg describes (tools/props/c10_pegsync.py)"})

    cases = []
    for i in range(n_valid):
        gen = G.Gen(rng, size=1.0 if i % 7 else 2.5)
        m = gen.model()
        rd = G.Renderer(rng, plain=(i % 10 == 0))
        text = rd.render(m)
        cases.append({"kind": "valid", "text": text, "canon": G.canon(m), "features": rd.features, "hazard": None,
                      "model": m})
    for hz in G.HAZARDS:
        for i in range(n_hazard_each):
            gen = G.Gen(rng)
            m = G.hazard_model(gen, hz)
            rd = G.Renderer(rng, hazard=hz, plain=hz != "newline_inside_declaration" and i % 2 == 0)
            text = rd.render(m)
            cases.append({"kind": "hazard", "text": text, "canon": G.canon(m), "features": rd.features, "hazard": hz})
    # constructs the pinned grammar mishandled (repaired defects C10-F8a..e, F17..F20): targeted cases on top of
    # the generator's own use of them; a failure is an ordinary violation
    for hz in G.REPAIRED:
        for i in range(n_hazard_each):
            gen = G.Gen(rng)
            m = G.hazard_model(gen, hz)
            rd = G.Renderer(rng, hazard=hz, plain=i % 2 == 0)
            text = rd.render(m)
            cases.append({"kind": "repaired/" + hz, "text": text, "canon": G.canon(m), "features": rd.features,
                          "hazard": None})
    # a value without a number after the largest integer (repaired defect C10-F22): must be reported
    for i in range(n_hazard_each):
        d = F.FragGen(rng).enum_overflow()
        cases.append({"kind": "enum_overflow", "text": F.render(d), "canon": None, "features": set(), "hazard": None})
    valid_texts = [c["text"] for c in cases if c["kind"] == "valid"]
    for i in range(n_bad):
        base = rng.choice(valid_texts) if valid_texts else b"struct S {}\n"
        if len(base) > 1500:
            base = base[:1500]
        cases.append({"kind": "malformed", "text": G.mutate(rng, base), "canon": None, "features": set(), "hazard": None})

    resps = run_harness([{"op": "parse", "text": c["text"].hex()} for c in cases])
    if len(resps) != len(cases):
        raise RuntimeError("harness answered %d of %d requests" % (len(resps), len(cases)))

    oracle_fail = 0
    why_of = {}
    for i, (c, r) in enumerate(zip(cases, resps)):
        why = oracle_parse(c, r)
        if c["kind"] == "hazard" and c["hazard"] == "enum_ref_constant":
            why = None       # a semantic (validation) hazard: judged on ParseFrugal below
        if why:
            why_of[i] = why
            oracle_fail += 1
            sig = {"hazard": c["hazard"]} if c["hazard"] else None
            rep = {"idl_text": c["text"].decode("utf8", "backslashreplace"),
                   "hazard": c["hazard"], "observed": {k: r.get(k) for k in ("code", "msg")}}
            if c["kind"] == "valid" and oracle_fail <= 3 and c.get("model") is not None:
                small = shrink_failure(ctx, c["model"])
                if small is not None:
                    rep["idl_text_full"] = rep["idl_text"]
                    rep["idl_text"] = small.decode("utf8", "backslashreplace")
            ctx.violation("C10 oracle: " + why, rep, signature=sig)

    # programs: several files, include resolution, validation, scope sorting
    progs = [gen_program(ctx, rng, i) for i in range(n_prog)]
    for hz in ("enum_ref_constant",):
        for i in range(n_hazard_each):
            gen = G.Gen(rng)
            m = G.hazard_model(gen, hz)
            break_typedef_cycles(m)
            # the hazard is the last declaration (const E c = E.B): the context around it gets conforming values
            G.conform_values(gen, m, {}, keep={m["decls"][-1][1]["name"]})
            name = ("hz%d.frugal" % i).encode()
            progs.append({"files": {name: G.Renderer(rng, plain=True).render(m)}, "root": name, "models": {name: m},
                          "hazard": hz})
    n_good = len(progs)
    progs += [mutate_program(rng, rng.choice(progs[:n_prog])) for _ in range(max(4, n_prog // 2))]
    # semantic faults inside generated declarations: every kind in every run, then at random
    n_faulty = len(G.FAULTS) * (1 if quick else 8)
    progs += [gen_program(ctx, rng, 1000 + i, fault=G.FAULTS[i % len(G.FAULTS)]) for i in range(n_faulty)]
    # validation of scope prefixes (validateScopeTypes): a prefix naming a variable twice is rejected since the
    # repair of C11-K12; replayed by the judge on Model/ParserFiles.v parse_program (= Model/CompilerValidate.v cparse_program) like any other program
    for nm, txt, exp in ((b"dupvar.frugal", b"struct E {}\nscope Sc prefix a.{zone}.{zone} { op: E }\n", "reject"),
                         (b"dupvar2.frugal", b"struct E {}\nscope Ok prefix {a}.{b} { op: E }\nscope Sc prefix {u}.x.{v}.{u} { op: E }\n", "reject"),
                         (b"twovars.frugal", b"struct E {}\nscope Sc prefix a.{zone}.{user} { op: E }\n", "accept")):
        progs.append({"files": {nm: txt}, "root": nm, "models": {}, "mutated": True, "expect": exp})
    # every check the repairs of validate added, each alone in a small file (all of them in every run), and their
    # valid neighbours
    for i, (txt, msg) in enumerate(REPAIRED_CHECKS):
        nm = ("chk%d.frugal" % i).encode()
        progs.append({"files": {nm: b"struct E {}\n" + txt, b"nbinc.frugal": NBINC}, "root": nm, "models": {},
                      "mutated": True, "expect": "reject", "fault": "invalid declaration " + repr(txt.strip().decode()),
                      "fault_in": nm.decode(), "expect_msg": "^" + re.escape(msg) + "$"})
        # and reached through an include: parseFrugal wraps the diagnostic of the included file
        if i % 3 == 0:
            top = ("top%d.frugal" % i).encode()
            progs.append({"files": {top: b"include \"" + nm + b"\"\n", nm: b"struct E {}\n" + txt, b"nbinc.frugal": NBINC},
                          "root": top, "models": {}, "mutated": True, "expect": "reject",
                          "fault": "include of a file with the invalid declaration " + repr(txt.strip().decode()),
                          "fault_in": nm.decode(),
                          "expect_msg": "^" + re.escape("Include %s: %s" % (nm.decode(), msg)) + "$"})
    for i, txt in enumerate(VALID_NEIGHBOUR_TEXTS):
        nm = ("nb%d.frugal" % i).encode()
        progs.append({"files": {nm: txt, b"nbinc.frugal": NBINC}, "root": nm,
                      "models": {}, "mutated": True, "expect": "accept",
                      "fault": "valid declaration " + repr(txt.strip().decode())})
    preqs = []
    for i, p in enumerate(progs):
        preqs.append({"op": "files", "dir": os.path.join(ctx.rundir, "prog", str(i)),
                      "files": {n.decode(): t.hex() for n, t in p["files"].items()}, "root": p["root"].decode()})
    presps = run_harness(preqs)
    if len(presps) != len(progs):
        raise RuntimeError("harness answered %d of %d program requests" % (len(presps), len(progs)))
    prog_fail = 0
    for p, r in zip(progs, presps):
        if p.get("mutated"):
            # any orderly answer is fine, except the nil dereference on a bare container name,
            # which is the C11 defect "typedef list X" (reported there)
            why = None
            if r.get("code", 0) >= 100 and not any(b"typedef list Bare9" in t for t in p["files"].values()):
                why = "ParseFrugal crashed or hung: %s" % (r.get("panic") or r.get("msg"))
            elif p.get("expect") == "reject" and r.get("code") == 0:
                why = "an invalid program was accepted (%s)" % p.get("fault", "a scope prefix that names a variable twice")
            elif p.get("expect") == "accept" and r.get("code") != 0:
                why = "a valid program was rejected (%s): %s" % (p.get("fault", "a scope prefix with distinct variables"),
                                                                 r.get("msg"))
            elif p.get("expect_msg") and not re.search(p["expect_msg"], r.get("msg", "")):
                why = "an invalid program (%s in %s) was rejected for another reason: %s" % (
                    p["fault"], p["fault_in"], r.get("msg", "")[:300])
        else:
            why = oracle_program(p, r)
        if why:
            prog_fail += 1
            hz = p.get("hazard")
            ctx.violation("C10 oracle (ParseFrugal): " + why,
                          {"files": {n.decode(): t.decode("utf8", "backslashreplace") for n, t in p["files"].items()},
                           "root": p["root"].decode(), "hazard": hz, "fault": p.get("fault"),
                           "fault_in": p.get("fault_in"), "fault_at": p.get("fault_at"),
                           "observed": {k: r.get(k) for k in ("code", "msg")}},
                          signature={"hazard": hz} if hz else None)
    json_fail = 0
    n_json = 0
    for p, r in list(zip(progs, presps))[: (6 if quick else 60)]:
        if p.get("hazard") or p.get("mutated") or r.get("code") != 0:
            continue
        n_json += 1
        why = json_view_check(ctx, p, ctx.rundir)
        if why:
            json_fail += 1
            ctx.violation("C10 oracle (JSON descriptor): " + why,
                          {"files": {n.decode(): t.decode("utf8", "backslashreplace") for n, t in p["files"].items()},
                           "root": p["root"].decode()})

    # the judge: model vs implementation on every text (including every file of every program)
    jcases = [judge_case_parse(c["text"], r, rule_ids) for c, r in zip(cases, resps)]
    jcases += [judge_case_files(p, r) for p, r in zip(progs, presps)]
    verdicts = vlib.run_judge(ctx.rundir, "JParser", "judge", jcases, shard=400000)
    pverdicts = verdicts[len(cases):]
    verdicts = verdicts[:len(cases)]
    for p, r, v in zip(progs, presps, pverdicts):
        if v < 0:
            ctx.violation("C10 correspondence (ParseFrugal): model and implementation disagree",
                          {"files": {n.decode(): t.decode("utf8", "backslashreplace") for n, t in p["files"].items()},
                           "root": p["root"].decode(), "observed": {k: r.get(k) for k in ("code", "msg", "panic")},
                           "no_failing_input_found": True,
                           "broken": "correspondence JParser.judge_files (Model/ParserFiles.v parse_program, i.e. Model/CompilerValidate.v cparse_program on the PEG model's parse trees, disagrees with parser.ParseFrugal)"})
    mism = [i for i, v in enumerate(verdicts) if v < 0]
    for i in mism:
        c, r = cases[i], resps[i]
        rep = {"idl_text": c["text"].decode("utf8", "backslashreplace"), "text_hex": c["text"].hex(), "kind": c["kind"],
               "observed": {k: r.get(k) for k in ("code", "msg", "errs")}}
        if i in why_of and not (c["hazard"]):
            continue        # already reported with a failing input by the oracle
        rep["no_failing_input_found"] = i not in why_of
        rep["broken"] = "correspondence JParser.judge (Model/Parser.v disagrees with the real parser on this text)"
        ctx.violation("C10 correspondence: model and implementation disagree", rep)

    frag = run_fragment(ctx, rng, 60 if quick else 600)

    feats = {}
    for c in cases:
        for f in c["features"]:
            feats[f] = feats.get(f, 0) + 1
    tags = {}
    for v in verdicts:
        if v >= 0:
            tags[v] = tags.get(v, 0) + 1
    hist = {}
    for c in cases:
        k = c["kind"] + ("/" + c["hazard"] if c["hazard"] else "")
        hist[k] = hist.get(k, 0) + 1
    hist["programs"] = len(progs)
    hist["programs/valid"] = n_good
    for p in progs:
        if p.get("fault_in"):
            hist["programs/fault/" + p["fault"]] = hist.get("programs/fault/" + p["fault"], 0) + 1
    hist["programs/appended_invalid"] = len([p for p in progs if p.get("fault") == "appended invalid declaration"])
    distinct = len({c["text"] for c, r in zip(cases, resps) if c["kind"] == "valid" and r.get("code") == 0 and len(c["canon"]) and
                    sum(len(s) for s in c["canon"]) >= 1})
    sizes = [len(c["text"]) for c in cases]
    ctx.assumptions += [
        "the semantic actions (Model/ParserActions.v) and the Go library functions they call (strconv.Unquote/ParseInt/"
        "ParseFloat, strings.*, filepath.Base, two regexps) are hand-transcribed; tied to the code by this correspondence only",
        "line/column of parser errors are not modelled (offset, rule and message class are)",
    ]
    return {
        "evaluations": len(cases) + len(progs) + frag["cases"],
        "distinct_nontrivial": distinct,
        "rule": "seeded IDL models (all declaration kinds, annotations in every position, doc comments, containers, "
                "constants incl. lists/maps/identifier references/doubles, includes across 1-4 files) rendered in random "
                "lexical styles; programs with one semantic fault injected into a generated declaration of a reachable "
                "file (dangling / circular extends, throws of a non-exception directly, through a container or an alias, "
                "duplicate names / ids among fields, arguments, exceptions, duplicate prefix variables), each check also "
                "alone in a small file with its valid neighbours; hazard cases (one Thrift-valid construct the grammar still mishandles each) and targeted "
                "cases for every construct the pinned grammar mishandled (repaired); mutated texts. "
                "non-trivial = accepted well-formed text with >= 1 declaration; distinct by text",
        "traces_validated_against_impl": len([v for v in verdicts if v >= 0]) + frag["instances_accepted_by_judge"],
        "proved_fragment": frag,
        "judge_mismatches": len(mism) + len([v for v in pverdicts if v < 0]) + frag["judge_rejections"],
        "programs_validated_against_impl": len([v for v in pverdicts if v >= 0]),
        "program_branch_tags": {str(k): pverdicts.count(k) for k in sorted(set(pverdicts))},
        "oracle_failures": oracle_fail,
        "grammar_peg_vs_generated_go": {"rules_compared": len(rules), "differences": len(sync_diffs),
                                        "compared": "rule names and order, expression trees, literals, character classes, "
                                                    "action names, action code, initial code block"},
        "program_oracle_failures": prog_fail,
        "json_descriptor_checked": n_json,
        "json_descriptor_failures": json_fail,
        "model_branch_tags": {str(k): v for k, v in sorted(tags.items())},
        "lexical_features_exercised": feats,
        "input_histogram": hist,
        "max_input_bytes": max(sizes) if sizes else 0,
        "total_input_bytes": sum(sizes),
        "samples": [{"kind": c["kind"], "hazard": c["hazard"], "text": trunc(c["text"], 300), "code": r.get("code")}
                    for c, r in list(zip(cases, resps))[:2] + list(zip(cases, resps))[n_valid:n_valid + 2]
                    + list(zip(cases, resps))[-2:]],
    }
