"""C02 -- generated Go types encode and decode exactly what the IDL declares.

For seeded multi-file IDL programs (tools/lab_idl.py) the lab (tools/lab.py) runs the frugal compiler,
compiles the emitted Go and drives generated Write / Read of every struct, union, exception and
args/result type:
  * binary protocol: bytes written by generated Write and Go values produced by generated Read (from bytes of
    an independent reference writer, including unknown fields, missing required fields, multi-field unions,
    truncation) are replayed on the Coq model (Judge/JThriftBin.v over Model/ThriftBin.v);
  * direct oracle (no model): the bytes decoded by a schema-less reader (vh_lab) must carry exactly the declared
    field ids / wire types / values: required and default always, optional iff set, one field for a union; a
    round trip must reproduce the value; unknown fields are skipped; missing required is INVALID_DATA;
  * compact protocol: the bytes written by generated Write are compared byte-exact with the Coq model of
    TCompactProtocol (Judge/JThriftCompact.v over Model/ThriftCompact.v: zigzag varints, delta / long field headers,
    bools folded into headers, container headers, little-endian doubles, the last-field-id stack), and generated
    Read is fed bytes of an independent Python compact writer (canonical, and liberal-but-valid encodings: long-form
    headers where the short form fits, varint-sized container headers for short containers, over-long varints,
    STOP bytes with a non-zero high nibble, unknown fields of every type, missing required fields, multi-field
    unions, truncation); value / error class / unread count are replayed on the model;
  * compact and JSON: the same values through generated Write are decoded schema-lessly and compared with the
    declared content; generated Read is fed bytes built by the schema-less writer and compared with the
    binary result (differential). JSON has no Coq specification and stays differential.
Known-defect probes (hand-written IDL) pin the constructs the Go generator cannot compile.
"""
import base64
import re
import collections
import struct

import lab
import lab_idl as L
import vlib
from props import headers_common as hc

HARNESS_BINS = ["vh_lab"]
NEEDS_FRUGAL = True

WT = {"bool": 2, "byte": 3, "i8": 3, "double": 4, "i16": 6, "i32": 8, "i64": 10, "string": 11, "binary": 11}


class UnionCount(Exception):
    pass


class NilDeref(Exception):
    pass


# ------------------------------------------------------------------------------------------------
# the property restated on values (direct oracle; independent of the Coq model)

def wire_type(p, t):
    hk = L.head_kind(p, t)
    if hk.startswith("base:"):
        return WT[hk[5:]]
    return {"enum": 8, "struct": 12, "map": 13, "set": 14, "list": 15}[hk]


def wrap(v, bits):
    v &= (1 << bits) - 1
    return v - (1 << bits) if v >> (bits - 1) else v


def go_eq(p, t, a, b):
    hk = L.head_kind(p, t)
    if hk == "base:double":
        return a == b        # Go's float64 ==: NaN differs from everything, +0 equals -0
    if hk == "base:binary":
        return bytes(a or b"") == bytes(b or b"")
    return a == b


# Known finding C02-go-default-from-constant (the C03 finding of the same name, seen from the codec): an optional
# field whose default names a constant of a typedef'd type.  The Go generator emits such a constant as a package
# variable assigned in init(), and `var <S>_<F>_DEFAULT T = <Const>` as a package-level initialiser that runs before
# init(): IsSet<F>() compares with Go's zero value instead of the declared default.  INIT_CONST_QUIRK = True makes
# is_set follow the emitted code; it is used only to recognise that defect precisely (everything else still fails).
INIT_CONST_QUIRK = False
KNOWN_INIT_CONST = {"class": "optional_default_from_init_constant"}


KNOWN_JSON_SPLIT = {"class": "thrift_json_special_double_split_at_4096"}
THRIFT_JSON_SPLIT = re.compile(rb"Expected '(NaN|-?Infinity)' but found '(N|Na|-|-?I|-?In|-?Inf|-?Infi|-?Infin|-?Infini|-?Infinit)\x00+'")


def _special_double_straddles(b):
    """does a quoted NaN / Infinity / -Infinity literal of the JSON text b cross a multiple of 4096"""
    for lit in (b'"NaN"', b'"Infinity"', b'"-Infinity"'):
        at = b.find(lit)
        while at >= 0:
            if (at + 1) // 4096 != (at + len(lit) - 2) // 4096:
                return True
            at = b.find(lit, at + 1)
    return False


UNION_COUNT_RE = re.compile(r"\*([A-Za-z0-9_]+)\.([A-Za-z0-9_]+) read union: exactly one field must be set \((\d+) set\)")


def _union_has_init_const(p, go_pkg, go_name):
    for fn, sd in L.all_structs(p):
        if sd["kind"] == "union" and L.go_pkg(fn) == go_pkg and L.go_struct_name(sd["name"]) == go_name:
            return any(init_const_default(p, f) for f in sd["fields"])
    return False


def init_const_default(p, f):
    d = f.get("default")
    if f["mod"] != "optional" or not d or not d.get("const"):
        return False
    cf, cn = d["const"]
    c = [x for x in p["files"][cf]["consts"] if x["name"] == cn]
    if not c or c[0]["type"][0] != "ref":
        return False         # spelled as a base type: a Go const, no init order problem
    return L.lookup(p, c[0]["type"][1], c[0]["type"][2])[0] == "typedef"


def has_init_const_default(p, sdef, seen=None):
    """does the struct-like, or one reachable from it, have such a field"""
    seen = set() if seen is None else seen
    if id(sdef) in seen:
        return False
    seen.add(id(sdef))
    for f in sdef["fields"]:
        if init_const_default(p, f):
            return True
        todo = [f["type"]]
        while todo:
            t = L.resolve(p, todo.pop())
            if t[0] == "ref":
                k, d = L.lookup(p, t[1], t[2])
                if k == "struct" and has_init_const_default(p, d, seen):
                    return True
            else:
                todo += [x for x in t[1:] if isinstance(x, list)]
    return False


def quirk_union_count_off(p, t, v):
    """under the emitted IsSet of the known finding: does v hold a union whose CountSetFields is not 1"""
    global INIT_CONST_QUIRK
    if v is None:
        return False
    r = L.resolve(p, t)
    if r[0] == "ref":
        k, d = L.lookup(p, r[1], r[2])
        if k == "enum":
            return False
        if d["kind"] == "union":
            INIT_CONST_QUIRK = True
            try:
                n = sum(1 for f in d["fields"] if is_set(p, f, v.get(f["id"])))
            finally:
                INIT_CONST_QUIRK = False
            if n != 1:
                return True
        return any(quirk_union_count_off(p, f["type"], v.get(f["id"])) for f in d["fields"])
    if r[0] in ("list", "set"):
        return any(quirk_union_count_off(p, r[1], x) for x in v)
    if r[0] == "map":
        return any(quirk_union_count_off(p, r[1], k) or quirk_union_count_off(p, r[2], x) for k, x in v)
    return False


def union_count_off(p, t, v, quirk):
    """does v hold a union whose number of set fields is not 1 (quirk: counted with the emitted IsSet of the known finding)"""
    global INIT_CONST_QUIRK
    if v is None:
        return False
    r = L.resolve(p, t)
    if r[0] == "ref":
        k, d = L.lookup(p, r[1], r[2])
        if k == "enum":
            return False
        if d["kind"] == "union":
            INIT_CONST_QUIRK = quirk
            try:
                n = sum(1 for f in d["fields"] if is_set(p, f, v.get(f["id"])))
            finally:
                INIT_CONST_QUIRK = False
            if n != 1:
                return True
        return any(union_count_off(p, f["type"], v.get(f["id"]), quirk) for f in d["fields"])
    if r[0] in ("list", "set"):
        return any(union_count_off(p, r[1], x, quirk) for x in v)
    if r[0] == "map":
        return any(union_count_off(p, r[1], k, quirk) or union_count_off(p, r[2], x, quirk) for k, x in v)
    return False


def is_set(p, f, v):
    """IsSet as the IDL semantics of the emitted representation define it."""
    hk = L.head_kind(p, f["type"])
    gk = L.go_kind(p, f)
    d = f.get("default")
    if INIT_CONST_QUIRK and init_const_default(p, f):
        return not go_eq(p, f["type"], v, L.zero_value(p, f["type"]))
    if hk == "base:binary" and d is not None:
        return not go_eq(p, f["type"], v, d["value"])
    if gk == "V" and d is not None:
        return not go_eq(p, f["type"], v, d["value"])
    return v is not None


def expected_wire(p, t, v):
    """Wire-level value the declaration demands for Go value v: structs become ("rec", [(id, value)...])."""
    r = L.resolve(p, t)
    if r[0] == "ref":
        k, d = L.lookup(p, r[1], r[2])
        if k == "enum":
            return wrap(v, 32)
        return expected_struct(p, d, v)
    if r[0] in ("list", "set"):
        return [expected_wire(p, r[1], x) for x in v]
    if r[0] == "map":
        return [[expected_wire(p, r[1], k), expected_wire(p, r[2], x)] for k, x in v]
    return v


def expected_struct(p, sdef, v):
    fields = sdef["fields"]
    if sdef["kind"] == "union":
        n = sum(1 for f in fields if is_set(p, f, v.get(f["id"])))
        if n != 1:
            raise UnionCount(n)
    out = []
    for f in fields:
        x = v.get(f["id"])
        if f["mod"] == "optional" and not is_set(p, f, x):
            continue
        if x is None:
            hk = L.head_kind(p, f["type"])
            if hk in ("list", "set", "map"):
                x = []
            elif hk == "base:binary":
                x = b""
            elif hk == "struct":
                r = L.resolve(p, f["type"])
                d = L.lookup(p, r[1], r[2])[1]
                if d["fields"]:
                    raise NilDeref(f["id"])
                if d["kind"] == "union":
                    raise UnionCount(0)
                out.append((f["id"], ("rec", [])))
                continue
            else:
                raise NilDeref(f["id"])
        out.append((f["id"], expected_wire(p, f["type"], x)))
    return ("rec", out)


def wire_to_tree(p, t, w):
    """wire-level value -> schema-less tree of vh_lab / the driver (for the reference writers)."""
    r = L.resolve(p, t)
    if r[0] == "ref":
        k, d = L.lookup(p, r[1], r[2])
        if k == "enum":
            return w
        return rec_to_tree(p, d, w)
    if r[0] == "list":
        return {"l": [wire_type(p, r[1]), [wire_to_tree(p, r[1], x) for x in w]]}
    if r[0] == "set":
        return {"e": [wire_type(p, r[1]), [wire_to_tree(p, r[1], x) for x in w]]}
    if r[0] == "map":
        return {"m": [wire_type(p, r[1]), wire_type(p, r[2]),
                      [[wire_to_tree(p, r[1], k), wire_to_tree(p, r[2], x)] for k, x in w]]}
    if r[0] == "double":
        return "%016x" % L.f64_bits(w)
    if r[0] == "string":
        return w.encode("utf8", "surrogateescape").hex()
    if r[0] == "binary":
        return {"bin": bytes(w).hex()}
    if r[0] == "i64":
        return str(w)
    return w


def rec_to_tree(p, sdef, w):
    fmap = {f["id"]: f for f in sdef["fields"]}
    return {"s": [[fid, wire_type(p, fmap[fid]["type"]), wire_to_tree(p, fmap[fid]["type"], x)] for fid, x in w[1]]}


def tree_to_wire(p, t, tr, proto, probs):
    """observed schema-less tree -> wire-level value, checking the wire types against the declaration."""
    r = L.resolve(p, t)
    if r[0] == "ref":
        k, d = L.lookup(p, r[1], r[2])
        if k == "enum":
            return tr
        return tree_to_rec(p, d, tr, proto, probs)
    if r[0] in ("list", "set"):
        key = "l" if r[0] == "list" else "e"
        if not isinstance(tr, dict) or key not in tr:
            probs.append("container kind differs from the declared %s" % r[0])
            return []
        et, vals = tr[key]
        if et != wire_type(p, r[1]):
            probs.append("element wire type %s, declared %s" % (et, wire_type(p, r[1])))
        return [tree_to_wire(p, r[1], x, proto, probs) for x in vals]
    if r[0] == "map":
        if not isinstance(tr, dict) or "m" not in tr:
            probs.append("container kind differs from the declared map")
            return []
        kt, vt, vals = tr["m"]
        if (kt, vt) != (wire_type(p, r[1]), wire_type(p, r[2])) and not (proto == "compact" and not vals and (kt, vt) == (0, 0)):
            probs.append("map wire types %s,%s declared %s,%s" % (kt, vt, wire_type(p, r[1]), wire_type(p, r[2])))
        return [[tree_to_wire(p, r[1], k, proto, probs), tree_to_wire(p, r[2], x, proto, probs)] for k, x in vals]
    try:
        if r[0] == "double":
            return L.bits_f64(int(tr, 16))
        if r[0] == "string":
            return bytes.fromhex(tr).decode("utf8", "surrogateescape")
        if r[0] == "binary":
            b = bytes.fromhex(tr)
            return base64.b64decode(b + b"=" * (-len(b) % 4)) if proto == "json" else b
        if r[0] == "bool":
            if not isinstance(tr, bool):
                probs.append("not a bool")
            return bool(tr)
        return int(tr)
    except (ValueError, TypeError):
        probs.append("value of the wrong kind for %s: %r" % (r[0], tr))
        return None


def tree_to_rec(p, sdef, tr, proto, probs):
    if not isinstance(tr, dict) or "s" not in tr:
        probs.append("not a struct")
        return ("rec", [])
    fmap = {f["id"]: f for f in sdef["fields"]}
    out = []
    for fid, wt, x in tr["s"]:
        f = fmap.get(fid)
        if f is None:
            probs.append("field id %d is not declared in %s" % (fid, sdef["name"]))
            continue
        if wt != wire_type(p, f["type"]):
            probs.append("field %d has wire type %d, declared %d" % (fid, wt, wire_type(p, f["type"])))
            continue
        out.append((fid, tree_to_wire(p, f["type"], x, proto, probs)))
    return ("rec", out)


def wcanon(p, t, w):
    """order-insensitive comparable form of a wire-level value"""
    if w is None:
        return None
    r = L.resolve(p, t)
    if r[0] == "ref":
        k, d = L.lookup(p, r[1], r[2])
        if k == "enum":
            return w
        fmap = {f["id"]: f for f in d["fields"]}
        return tuple((fid, wcanon(p, fmap[fid]["type"], x)) for fid, x in w[1])
    if r[0] == "list":
        return tuple(wcanon(p, r[1], x) for x in w)
    if r[0] == "set":
        return tuple(sorted((wcanon(p, r[1], x) for x in w), key=repr))
    if r[0] == "map":
        return tuple(sorted(((wcanon(p, r[1], k), wcanon(p, r[2], x)) for k, x in w), key=repr))
    if r[0] == "double":
        return dcanon(w)
    if r[0] == "binary":
        return bytes(w)
    return w


def dcanon(x):
    """doubles by bit pattern; all NaNs alike (TJSON writes "NaN", the payload cannot survive)"""
    return ("d", "nan") if x != x else ("d", L.f64_bits(x))


def tbin(tree):
    """Reference TBinary writer for schema-less trees (struct at top)."""
    out = bytearray()
    for fid, wt, x in tree["s"]:
        out += struct.pack(">bh", wt, fid)
        out += tbin_value(wt, x)
    out.append(0)
    return bytes(out)


def tbin_value(wt, x):
    if wt == 2:
        return b"\x01" if x else b"\x00"
    if wt == 3:
        return struct.pack(">b", x)
    if wt == 6:
        return struct.pack(">h", x)
    if wt == 8:
        return struct.pack(">i", x)
    if wt == 10:
        return struct.pack(">q", int(x))
    if wt == 4:
        return bytes.fromhex(x)
    if wt == 11:
        b = bytes.fromhex(x["bin"] if isinstance(x, dict) else x)
        return struct.pack(">i", len(b)) + b
    if wt == 12:
        return tbin(x)
    if wt == 16:
        return bytes.fromhex(x)
    if wt in (14, 15):
        et, vals = x["e" if wt == 14 else "l"]
        return struct.pack(">bi", et, len(vals)) + b"".join(tbin_value(et, v) for v in vals)
    if wt == 13:
        kt, vt, vals = x["m"]
        return struct.pack(">bbi", kt, vt, len(vals)) + b"".join(tbin_value(kt, k) + tbin_value(vt, v) for k, v in vals)
    raise ValueError(wt)


# Reference TCompact writer for schema-less trees (independent of Apache Thrift and of the Coq model).
# lib = None: the canonical encoding; lib = a PRNG: liberal but valid choices a foreign writer may make.
CT = {2: 1, 3: 3, 6: 4, 8: 5, 10: 6, 4: 7, 11: 8, 15: 9, 14: 10, 13: 11, 12: 12, 16: 13}


def uvarint(u, lib=None):
    groups = []
    while True:
        groups.append(u & 0x7F)
        u >>= 7
        if not u:
            break
    if lib is not None and lib.random() < 0.15:
        groups += [0] * lib.randrange(1, 4)          # over-long: continuation groups of zero bits
    return bytes([g | 0x80 for g in groups[:-1]] + [groups[-1]])


def zigzag(n, bits):
    return ((n << 1) ^ (n >> (bits - 1))) & ((1 << bits) - 1)


def tcomp(tree, lib=None, liar=None):
    """liar = a PRNG: i16 / i32 / i64 field headers may name another member of that family (all three are one
    zigzag varint on the wire, so the stream stays aligned); generated Read never compares the header type of a
    declared field and thrift.Skip skips one varint for each of them"""
    out = bytearray()
    last = 0
    for fid, wt, x in tree["s"]:
        ct = (1 if x else 2) if wt == 2 else CT[wt]
        if liar is not None and wt in (6, 8, 10) and liar.random() < 0.5:
            ct = liar.choice([4, 5, 6])
        d = fid - last
        if lib is not None and d < 0 and 0 < d % 65536 <= 15:
            out.append(((d % 65536) << 4) | ct)      # the reader adds the delta in int16: 32767 + 1 = -32768
        elif 0 < d <= 15 and not (lib is not None and lib.random() < 0.25):
            out.append((d << 4) | ct)
        else:
            out.append(ct)
            out += uvarint(zigzag(fid, 32), lib)
        if wt != 2:
            out += tcomp_value(wt, x, lib, liar)
        last = fid
    out.append((lib.randrange(1, 16) << 4) if lib is not None and lib.random() < 0.2 else 0)
    return bytes(out)


def tcomp_value(wt, x, lib=None, liar=None):
    if wt == 2:
        return b"\x01" if x else b"\x02"
    if wt == 3:
        return struct.pack(">b", x)
    if wt in (6, 8):
        return uvarint(zigzag(x, 32), lib)
    if wt == 10:
        return uvarint(zigzag(int(x), 64), lib)
    if wt == 4:
        return bytes.fromhex(x)[::-1]
    if wt == 11:
        b = bytes.fromhex(x["bin"] if isinstance(x, dict) else x)
        return uvarint(len(b), lib) + b
    if wt == 12:
        return tcomp(x, lib, liar)
    if wt == 16:
        return bytes.fromhex(x)
    if wt in (14, 15):
        et, vals = x["e" if wt == 14 else "l"]
        n = len(vals)
        if n <= 14 and not (lib is not None and lib.random() < 0.25):
            hdr = bytes([(n << 4) | CT[et]])
        else:
            hdr = bytes([0xF0 | CT[et]]) + uvarint(n, lib)
        return hdr + b"".join(tcomp_value(et, v, lib, liar) for v in vals)
    if wt == 13:
        kt, vt, vals = x["m"]
        if not vals:
            return b"\x00"
        return uvarint(len(vals), lib) + bytes([(CT[kt] << 4) | CT[vt]]) + \
            b"".join(tcomp_value(kt, k, lib, liar) + tcomp_value(vt, v, lib, liar) for k, v in vals)
    raise ValueError(wt)


def go_norm(p, t, v, top=True):
    """Representation-insensitive form of a Go-level value: a nil slice/map in a non-optional field and an empty
    one are the same value, as are nil and empty binary; optional fields keep their set-ness."""
    if v is None:
        return None
    r = L.resolve(p, t)
    if r[0] == "ref":
        k, d = L.lookup(p, r[1], r[2])
        if k == "enum":
            return wrap(v, 32)
        out = []
        for f in d["fields"]:
            x = v.get(f["id"])
            hk = L.head_kind(p, f["type"])
            if f["mod"] == "optional":
                if x is None and hk == "base:binary" and is_set(p, f, x):
                    x = b""      # nil binary that differs from its declared default: written and read back as empty
                out.append((f["id"], is_set(p, f, x), go_norm(p, f["type"], x) if is_set(p, f, x) else None))
            else:
                if x is None and hk in ("list", "set", "map"):
                    x = []
                if x is None and hk == "base:binary":
                    x = b""
                out.append((f["id"], True, go_norm(p, f["type"], x)))
        return tuple(out)
    if r[0] == "list":
        return tuple(go_norm(p, r[1], x) for x in v)
    if r[0] == "set":
        return tuple(sorted((go_norm(p, r[1], x) for x in v), key=repr))
    if r[0] == "map":
        return tuple(sorted(((go_norm(p, r[1], k), go_norm(p, r[2], x)) for k, x in v), key=repr))
    if r[0] == "double":
        return dcanon(v)
    if r[0] == "binary":
        return bytes(v)
    return v


def has_empty_optional_binary(p, t, v):
    """the known finding: an optional binary field without default set to empty bytes (anywhere inside)"""
    if v is None:
        return False
    r = L.resolve(p, t)
    if r[0] == "ref":
        k, d = L.lookup(p, r[1], r[2])
        if k == "enum":
            return False
        for f in d["fields"]:
            x = v.get(f["id"])
            if x is None:
                continue
            if f["mod"] == "optional" and L.head_kind(p, f["type"]) == "base:binary" and \
                    len(x) == 0 and is_set(p, f, x):
                return True
            if has_empty_optional_binary(p, f["type"], x):
                return True
        return False
    if r[0] in ("list", "set"):
        return any(has_empty_optional_binary(p, r[1], x) for x in v)
    if r[0] == "map":
        return any(has_empty_optional_binary(p, r[1], k) or has_empty_optional_binary(p, r[2], x) for k, x in v)
    return False


# ------------------------------------------------------------------------------------------------
# tokens for the judge

def type_tok(p, names, t):
    if t[0] == "ref":
        return [11, names[(t[1], t[2])]]
    if t[0] == "list":
        return [8, type_tok(p, names, t[1])]
    if t[0] == "set":
        return [9, type_tok(p, names, t[1])]
    if t[0] == "map":
        return [10, type_tok(p, names, t[1]), type_tok(p, names, t[2])]
    return [{"bool": 0, "byte": 1, "i8": 1, "i16": 2, "i32": 3, "i64": 4, "double": 5, "string": 6, "binary": 7}[t[0]]]


def val_tok(p, t, v, canon_bin=False):
    """Go-level model value -> self-describing token (see Judge/JThriftBin.v)"""
    r = L.resolve(p, t)
    if r[0] == "ref":
        k, d = L.lookup(p, r[1], r[2])
        if k == "enum":
            return int_tok(v)
        return struct_tok(p, d, v, canon_bin)
    if r[0] == "list":
        return [5, [val_tok(p, r[1], x, canon_bin) for x in v]]
    if r[0] == "set":
        return [6, [val_tok(p, r[1], x, canon_bin) for x in v]]
    if r[0] == "map":
        return [7, [[val_tok(p, r[1], k, canon_bin), val_tok(p, r[2], x, canon_bin)] for k, x in v]]
    if r[0] == "bool":
        return [0, 1 if v else 0]
    if r[0] == "double":
        return [3, struct.pack(">Q", L.f64_bits(v))]
    if r[0] == "string":
        return [4, v.encode("utf8", "surrogateescape")]
    if r[0] == "binary":
        return [4, bytes(v)]
    return int_tok(v)


def int_tok(v):
    if abs(v) < (1 << 61):
        return [1, v]
    return [2, struct.pack(">q", v)]


def struct_tok(p, sdef, v, canon_bin=False):
    """canon_bin: report an empty binary slot as nil (observed Read results; see Model/ThriftBin.v canon_slot)"""
    out = []
    for f in sdef["fields"]:
        x = v.get(f["id"])
        if canon_bin and x is not None and L.head_kind(p, f["type"]) == "base:binary" and len(x) == 0:
            x = None
        out.append([] if x is None else [val_tok(p, f["type"], x, canon_bin)])
    return [8, out]


def field_tok(p, names, f):
    mod = {"required": 0, "optional": 1, "default": 2}[f["mod"]]
    d = f.get("default")
    return [f["id"], mod, type_tok(p, names, f["type"]), [] if d is None else [val_tok(p, f["type"], d["value"])]]


def reachable(p, sdef, fn):
    """declarations (file, name) reachable from a struct definition"""
    seen, todo = set(), []

    def visit_type(t):
        if t[0] == "ref":
            if (t[1], t[2]) not in seen:
                seen.add((t[1], t[2]))
                todo.append((t[1], t[2]))
        else:
            for x in t[1:]:
                if isinstance(x, list):
                    visit_type(x)
    for f in sdef["fields"]:
        visit_type(f["type"])
    while todo:
        a, b = todo.pop()
        k, d = L.lookup(p, a, b)
        if k == "typedef":
            visit_type(d["type"])
        elif k == "struct":
            for f in d["fields"]:
                visit_type(f["type"])
    return seen


def env_tok(p, names, sdef, fn, self_name):
    decls = []
    for (a, b) in sorted(reachable(p, sdef, fn)):
        k, d = L.lookup(p, a, b)
        n = names[(a, b)]
        if k == "typedef":
            decls.append([n, 0, type_tok(p, names, d["type"])])
        elif k == "enum":
            decls.append([n, 1, [x[1] for x in d["values"]]])
        else:
            decls.append([n, 2, {"struct": 0, "union": 1, "exception": 2}[d["kind"]],
                          [field_tok(p, names, f) for f in d["fields"]]])
    if sdef.get("role") == "args":
        decls.append([self_name, 3, [field_tok(p, names, f) for f in sdef["raw_args"]]])
    elif sdef.get("role") == "result":
        decls.append([self_name, 4, [] if sdef["raw_ret"] is None else [type_tok(p, names, sdef["raw_ret"])],
                      [field_tok(p, names, f) for f in sdef["raw_throws"]]])
    elif (fn, sdef["name"]) not in reachable(p, sdef, fn):
        decls.append([self_name, 2, {"struct": 0, "union": 1, "exception": 2}[sdef["kind"]],
                      [field_tok(p, names, f) for f in sdef["fields"]]])
    return decls


# ------------------------------------------------------------------------------------------------
# known-defect probes: constructs the Go generator cannot compile (hand-written, minimal)

PROBES = {
    "typedef_chain_through_include": {
        "root": "pra", "files": {
            "prb.frugal": "typedef i32 T\ntypedef T U\nenum E { A = 1 }\ntypedef E ET\nstruct P { 1: i32 x }\ntypedef list<P> PL\n",
            "pra.frugal": 'include "prb.frugal"\nstruct S {\n 1: prb.U f,\n 2: prb.ET e,\n 3: prb.PL l\n}\n'}},
    "typedef_of_struct": {
        "root": "prc", "files": {
            "prc.frugal": "struct P { 1: i32 x }\ntypedef P PT\nstruct S {\n 1: PT p,\n 2: list<PT> l\n}\n"}},
    "new_prefix_across_include": {
        "root": "prd", "files": {
            "pre.frugal": "struct NewThing { 1: i32 x }\n",
            "prd.frugal": 'include "pre.frugal"\nstruct S {\n 1: pre.NewThing t\n}\n'}},
    "snake_case_service_extends": {
        "root": "prf", "files": {
            "prf.frugal": "service base_svc {\n void ping()\n}\nservice Child extends base_svc {\n void pong()\n}\n"}},
    "service_import_through_typedef": {
        "root": "prh", "files": {
            "pri.frugal": "struct P { 1: i32 x }\n",
            "prj.frugal": "struct Q { 1: i32 x }\n",
            "prh.frugal": 'include "pri.frugal"\ninclude "prj.frugal"\ntypedef pri.P PT\n'
                          'service Child {\n bool m(1: map<prj.Q, PT> a)\n}\n'}},
    "enum_default_through_typedef": {
        "root": "prg", "files": {
            "prg.frugal": "enum E { A = 1, B = 2 }\ntypedef E ET\nstruct S {\n 1: ET e = E.B,\n 2: map<ET, i32> m = {E.A: 1}\n}\n"}},
}


def run_probes(ctx, tag):
    res = {}
    for name, pr in sorted(PROBES.items()):
        prog = {"id": "probe", "root": pr["root"], "files": {}, "order": []}
        lb = lab.Lab(prog, lab_id="%s_%s" % (tag, name[:12].replace("_", "")))
        try:
            lb.build(idl_texts=pr["files"])
            res[name] = "builds"
            # the construct compiles now: make sure the type is at least usable
            t = lb.run([{"op": "types"}])[0]
            if not any(k.endswith(".S") or k.endswith(".Child") for k in t.get("structs", []) + t.get("services", [])):
                ctx.violation("C02 probe %s: builds but the declared type is missing" % name,
                              {"probe": name, "idl": pr["files"], "types": t})
        except lab.LabError as e:
            res[name] = "fails at " + e.stage
            ctx.violation("C02: valid IDL (%s) makes -gen go emit code that does not compile" % name,
                          {"probe": name, "idl": pr["files"], "stage": e.stage, "log": e.log[-1500:]},
                          signature={"probe": name, "stage": e.stage})
        finally:
            lb.remove()
    return res


# ------------------------------------------------------------------------------------------------

def vh_lab(reqs):
    rc, got, err = hc.run_lines([vlib.BIN + "/vh_lab"], reqs)
    if len(got) != len(reqs):
        raise RuntimeError("vh_lab failed: " + err[-1000:])
    return got


def mutate_tree(rng, p, sdef, tree):
    """foreign-but-plausible encodings: unknown fields, a missing required field, extra union field, reorder, dup"""
    fields = [list(f) for f in tree["s"]]
    declared = {f["id"] for f in sdef["fields"]}
    kind = rng.choice(["unknown", "unknown", "drop_required", "reorder", "dup", "union_extra", "drop_any"])
    info = {"mutation": kind}
    if kind == "unknown":
        for _ in range(rng.randrange(1, 4)):
            fid = rng.choice([x for x in (rng.randrange(1, 400), rng.randrange(400, 32000), -5, 32767) if x not in declared] or [31999])
            extra = rng.choice([
                [fid, 8, rng.randrange(-5, 5)], [fid, 11, "616263"], [fid, 2, True], [fid, 10, "-77"], [fid, 4, "400921fb54442d18"],
                [fid, 15, {"l": [6, [1, 2, 3]]}], [fid, 14, {"e": [11, ["61", ""]]}],
                [fid, 13, {"m": [8, 12, [[1, {"s": [[1, 3, 5], [9, 11, "7a"]]}]]]}],
                [fid, 12, {"s": [[1, 12, {"s": [[2, 15, {"l": [12, [{"s": []}, {"s": [[1, 2, False]]}]]}]]}]]}],
                [fid, 12, {"s": []}], [fid, 13, {"m": [11, 15, []]}], [fid, 3, -128], [fid, 6, 32767],
                [fid, 16, "00112233445566778899aabbccddeeff"], [fid, 2, False],
                [fid, 15, {"l": [2, [True, False, True] * rng.randrange(1, 8)]}],
                [fid, 12, {"s": [[1, 2, True], [2, 2, False], [40, 2, True], [41, 15, {"l": [2, [False, True]]}]]}]])
            fields.insert(rng.randrange(0, len(fields) + 1), extra)
        if rng.random() < 0.15 and 32767 not in declared:
            # ids at the edge of int16: under compact a short-form header after 32767 wraps to a negative id
            at = rng.randrange(0, len(fields) + 1)
            fields[at:at] = [[32767, 8, 7], [-32768 + rng.randrange(0, 15), rng.choice([2, 8]), 1]]
            info["wrap"] = True
    elif kind == "drop_required":
        req = [f["id"] for f in sdef["fields"] if f["mod"] == "required"]
        if not req:
            return None
        victim = rng.choice(req)
        fields = [f for f in fields if f[0] != victim]
        info["dropped"] = victim
    elif kind == "drop_any":
        if not fields:
            return None
        victim = rng.choice(fields)[0]
        fields = [f for f in fields if f[0] != victim]
        info["dropped"] = victim
    elif kind == "reorder":
        if len(fields) < 2:
            return None
        rng.shuffle(fields)
    elif kind == "dup":
        if not fields:
            return None
        f = rng.choice(fields)
        fields.append(f)
    elif kind == "union_extra":
        if sdef["kind"] != "union":
            return None
        fields.append([rng.choice([x for x in range(1, 30) if x not in declared] or [9999]), 8, 1])
        others = [f for f in sdef["fields"] if f["id"] not in {x[0] for x in fields}]
        if others and rng.random() < 0.7:
            f = others[0]
            hk = L.head_kind(p, f["type"])
            if hk in ("base:i32", "enum"):
                fields.append([f["id"], 8, 77])
            elif hk == "base:string":
                fields.append([f["id"], 11, "7a7a"])
            elif hk == "base:bool":
                fields.append([f["id"], 2, True])
            elif hk == "base:i64":
                fields.append([f["id"], 10, "9"])
    return {"s": fields}, info


def stretch_value(rng, p, sdef, v):
    """a copy of v with one container field grown beyond 14 elements (compact: the header form with a varint size)
    or one string/binary field beyond 127 bytes (two-byte length varint); None if the type has no such field"""
    if sdef["kind"] == "union":
        return None
    cands = []
    for f in sdef["fields"]:
        hk = L.head_kind(p, f["type"])
        if hk in ("list", "set", "map", "base:string", "base:binary"):
            cands.append(f)
    if not cands:
        return None
    f = rng.choice(cands)
    r = L.resolve(p, f["type"])
    out = dict(v)
    if r[0] == "string":
        out[f["id"]] = "".join(rng.choice("abcXYZ019 _-") for _ in range(rng.randrange(128, 400)))
        return out
    if r[0] == "binary":
        out[f["id"]] = bytes(rng.getrandbits(8) for _ in range(rng.randrange(128, 20000 if rng.random() < 0.2 else 400)))
        return out
    if L._empty_struct(p, r[1]):
        return None
    n = rng.randrange(15, 40)
    items, seen = [], set()
    for _ in range(n * 3):
        if len(items) >= n:
            break
        if r[0] == "list":
            items.append(L.gen_value(rng, p, r[1], 3))
            continue
        key = L.gen_value(rng, p, r[1], 3, as_key=True)
        kk = L.key_of(key)
        if kk in seen and L.head_kind(p, r[1]) != "struct":
            continue
        seen.add(kk)
        items.append(key if r[0] == "set" else [key, L.gen_value(rng, p, r[2], 3)])
    out[f["id"]] = items
    return out


def struct_type(fn, sdef):
    return ["ref", fn, sdef["name"]]


def run_program(ctx, prog, lab_id, gen_opts, n_values, stats, judge_cases, judge_meta, cjudge=None):
    rng = ctx.rng
    lb = lab.Lab(prog, lab_id=lab_id, gen_opts=gen_opts)
    try:
        lb.build()
    except lab.LabError as e:
        ctx.violation("C02: generated program does not build (%s)" % e.stage,
                      {"program": prog["id"], "idl": L.render(prog), "gen_opts": gen_opts, "stage": e.stage, "log": e.log[-2500:]})
        lb.remove()
        return
    try:
        _run_program(ctx, prog, lb, gen_opts, n_values, stats, judge_cases, judge_meta, cjudge)
    finally:
        lb.remove()


def _method_defs(prog, fn):
    out = {}
    for svc in prog["files"][fn]["services"]:
        for ms in L.method_structs(prog, fn, svc["name"]):
            m = [x for x in svc["methods"] if x["name"] == ms["method"]][0]
            ms["raw_args"], ms["raw_ret"], ms["raw_throws"] = m["args"], m["ret"], m["throws"]
            out[ms["go_name"]] = ms
    return out


def _run_program(ctx, prog, lb, gen_opts, n_values, stats, judge_cases, judge_meta, cjudge=None):
    global INIT_CONST_QUIRK
    rng = ctx.rng
    p = prog
    keys = lb.struct_keys()
    # numbering of declarations for the Coq environment
    names = {}
    for fn in p["order"]:
        f = p["files"][fn]
        for d in f["typedefs"] + f["enums"] + f["structs"]:
            names[(fn, d["name"])] = len(names) + 1
    types = lb.run([{"op": "types"}])[0]
    missing = sorted(set(keys) - set(types.get("structs") or []))
    if missing:
        ctx.violation("C02: declared types are missing from the emitted Go", {"program": p["id"], "missing": missing, "idl": L.render(p)})
    # method structs carry the raw method declaration so that the Coq side applies mk_args / mk_result itself
    for fn in p["order"]:
        md = _method_defs(p, fn)
        for k, (kfn, s) in keys.items():
            if kfn == fn and s.get("go_name") in md and s.get("role"):
                s.update({x: md[s["go_name"]][x] for x in ("raw_args", "raw_ret", "raw_throws")})
    plan = []      # (key, fn, sdef, value)
    for k in sorted(keys):
        fn, s = keys[k]
        if k in missing:
            continue
        for i in range(n_values):
            plan.append((k, fn, s, L.gen_struct_value(rng, p, s)))
        if n_values and rng.random() < 0.6:
            sv = stretch_value(rng, p, s, L.gen_struct_value(rng, p, s))
            if sv is not None:
                plan.append((k, fn, s, sv))
                stats["stretched_values"] += 1
        if s["kind"] == "union" and s["fields"]:
            # values the emitted type can hold but the IDL forbids: no field / two fields set (Write must refuse)
            plan.append((k, fn, s, L.new_value(p, s)))
            if len(s["fields"]) >= 2:
                v2 = L.new_value(p, s)
                for f in rng.sample(s["fields"], 2):
                    v2[f["id"]] = L.gen_value(rng, p, f["type"], 3)
                plan.append((k, fn, s, v2))
    protos = ["binary", "compact", "json"]
    # ---- phase 1: generated Write under the three protocols, New, round trip
    reqs = []
    for k, fn, s, v in plan:
        wv = L.struct_to_wire(p, s, v)
        for pr in protos:
            reqs.append({"op": "write", "type": k, "proto": pr, "value": wv})
    newreqs = [{"op": "new", "type": k} for k in sorted(keys) if k not in missing]
    resps = lb.run(reqs + newreqs)
    if len(resps) != len(reqs) + len(newreqs):
        raise RuntimeError("lab driver returned %d responses for %d requests" % (len(resps), len(reqs) + len(newreqs)))
    wres = {}
    for i, (k, fn, s, v) in enumerate(plan):
        wres[i] = {pr: resps[3 * i + j] for j, pr in enumerate(protos)}
    # New<T>() must hold the declared defaults
    for k, r in zip([k for k in sorted(keys) if k not in missing], resps[len(reqs):]):
        fn, s = keys[k]
        stats["new"] += 1
        got = L.struct_from_wire(p, s, r.get("value") or {}) if r.get("code") == 0 else None
        want = L.new_value(p, s)
        if got is None or go_norm(p, struct_type_of(fn, s, p), got) != go_norm(p, struct_type_of(fn, s, p), want):
            ctx.violation("C02 oracle: New%s() does not hold the declared defaults" % k,
                          {"program": p["id"], "type": k, "observed": r, "idl": L.render(p)})
    # schema-less decoding of everything that was written
    treq, tidx = [], []
    for i, (k, fn, s, v) in enumerate(plan):
        for pr in protos:
            r = wres[i][pr]
            if r.get("code") == 0:
                treq.append({"op": "tree", "proto": pr, "bytes": r["out"]})
                tidx.append((i, pr))
    tres = vh_lab(treq) if treq else []
    trees = {}
    for (i, pr), r in zip(tidx, tres):
        trees[(i, pr)] = r
    # ---- phase 2: reads: bytes from the independent writers
    rreqs, rmeta = [], []
    breq, bmeta = [], []
    diff_index = {}
    for i, (k, fn, s, v) in enumerate(plan):
        t = struct_type_of(fn, s, p)
        try:
            ew = expected_struct(p, s, v)
        except (UnionCount, NilDeref):
            continue
        tree = rec_to_tree(p, s, ew)
        variants = [(tree, {"mutation": "none"})]
        for _ in range(2):
            m = mutate_tree(rng, p, s, tree)
            if m:
                variants.append(m)
        for tr, info in variants:
            b = tbin(tr)
            rreqs.append({"op": "read", "type": k, "proto": "binary", "bytes": b.hex()})
            rmeta.append((i, tr, info, b, "binary"))
            # compact: the same content through the independent Python writer, canonical or liberal-but-valid
            lib = rng if rng.random() < 0.5 else None
            cb = tcomp(tr, lib)
            rreqs.append({"op": "read", "type": k, "proto": "compact", "bytes": cb.hex()})
            rmeta.append((i, tr, dict(info, writer="py-liberal" if lib is not None else "py-canonical"), cb, "compact"))
            diff_index[len(rreqs) - 1] = len(rreqs) - 2
            if info["mutation"] in ("none", "unknown") and rng.random() < 0.5:
                pr = rng.choice(["compact", "json"])
                breq.append({"op": "build", "proto": pr, "tree": tr})
                bmeta.append((i, tr, info, pr, len(rreqs) - 2))
        if rng.random() < 0.3:
            # header types that lie within the varint family: no oracle claim (not a conforming encoding), the
            # model says what the generated Read makes of it
            cb = tcomp(tree, None, rng)
            rreqs.append({"op": "read", "type": k, "proto": "compact", "bytes": cb.hex()})
            rmeta.append((i, tree, {"mutation": "liar", "writer": "py-liar"}, cb, "compact"))
        if rng.random() < 0.3:
            b = tbin(tree)
            cut = b[:rng.randrange(0, len(b))]
            rreqs.append({"op": "read", "type": k, "proto": "binary", "bytes": cut.hex()})
            rmeta.append((i, tree, {"mutation": "truncate"}, cut, "binary"))
            b = tcomp(tree)
            cut = b[:rng.randrange(0, len(b))]
            rreqs.append({"op": "read", "type": k, "proto": "compact", "bytes": cut.hex()})
            rmeta.append((i, tree, {"mutation": "truncate", "writer": "py-canonical"}, cut, "compact"))
    bres = vh_lab(breq) if breq else []
    for (i, tr, info, pr, ridx), r in zip(bmeta, bres):
        if r.get("code") != 0:
            continue
        k = plan[i][0]
        rreqs.append({"op": "read", "type": k, "proto": pr, "bytes": r["out"]})
        rmeta.append((i, tr, dict(info, writer="apache-schemaless"), bytes.fromhex(r["out"]), pr))
        diff_index[len(rreqs) - 1] = ridx
    rres = lb.run(rreqs)
    if len(rres) != len(rreqs):
        raise RuntimeError("lab driver returned %d responses for %d read requests" % (len(rres), len(rreqs)))

    # ---- direct oracle + judge cases
    per_type = {}
    per_type_c = {}
    for i, (k, fn, s, v) in enumerate(plan):
        t = struct_type_of(fn, s, p)
        stats["values"] += 1
        rep = {"program": p["id"], "gen_opts": gen_opts, "type": k, "go_value": L.struct_to_wire(p, s, v)}
        want = _write_want(p, s, v)
        known_protos = set()
        for pr in protos:
            r = wres[i][pr]
            stats["write/" + pr] += 1
            why = _write_why(p, s, t, pr, want, r, trees.get((i, pr)), stats)
            if why:
                sig = None
                if has_init_const_default(p, s):
                    # the observation is exactly what the emitted IsSet (default read before init()) produces?
                    INIT_CONST_QUIRK = True
                    try:
                        if _write_why(p, s, t, pr, _write_want(p, s, v), r, trees.get((i, pr)), collections.Counter()) is None:
                            sig = KNOWN_INIT_CONST
                            known_protos.add(pr)
                            stats["known_init_const_default/" + pr] += 1
                    finally:
                        INIT_CONST_QUIRK = False
                rr = dict(rep, proto=pr, observed=r, idl=L.render(p))
                ctx.violation("C02 oracle (Write, %s): %s" % (pr, why), rr, signature=sig)
        # judge case: binary Write
        r = wres[i]["binary"]
        sub = [1, struct_tok(p, s, v), r.get("code", 103), bytes.fromhex(r.get("out", "") or "")]
        per_type.setdefault(k, []).append((sub, dict(rep, op="write", observed=r,
                                                     known_sig=KNOWN_INIT_CONST if "binary" in known_protos else None)))
        # judge case: compact Write (byte-exact against Model/ThriftCompact.v)
        r = wres[i]["compact"]
        sub = [1, struct_tok(p, s, v), r.get("code", 103), bytes.fromhex(r.get("out", "") or "")]
        per_type_c.setdefault(k, []).append((sub, dict(rep, op="write", proto="compact", observed=r,
                                                       known_sig=KNOWN_INIT_CONST if "compact" in known_protos else None)))

    _read_oracle(ctx, p, plan, gen_opts, stats, rmeta, rres, diff_index, per_type, per_type_c)
    _emit_judge_cases(p, keys, names, per_type, per_type_c, judge_cases, judge_meta, cjudge)


def _write_want(p, s, v):
    try:
        return ("ok", expected_struct(p, s, v))
    except UnionCount as e:
        return ("union", e.args[0])
    except NilDeref as e:
        return ("nil", e.args[0])


def _write_why(p, s, t, pr, want, r, tr, stats):
    """the property on one observed Write: None if it holds, else what is wrong"""
    why = None
    if True:
        if True:
            ew = want[1]
            if want[0] == "ok":
                if r.get("code") != 0:
                    why = "Write failed on a value of the declared type: %s %s" % (r.get("code"), r.get("err") or r.get("panic"))
                else:
                    if pr == "json" and tr.get("code") != 0 and ("Infinit" in str(tr.get("err")) or "NaN" in str(tr.get("err"))):
                        # Apache Thrift's TJSON reader short-reads "-Infinity"/"NaN" at a bufio boundary (library
                        # defect in the test equipment, not in generated code): the case is not judged under JSON
                        stats["json_reader_short_read_skipped"] += 1
                    elif tr.get("code") != 0 or tr.get("rest") != 0:
                        why = "written bytes are not one well-formed %s struct: %s" % (pr, tr)
                    else:
                        probs = []
                        got = tree_to_rec(p, s, tr["tree"], pr, probs)
                        if probs:
                            why = "; ".join(probs[:3])
                        elif wcanon(p, t, got) != wcanon(p, t, ew):
                            why = "fields/values on the wire differ from the declaration (%s; %s)" % (
                                _first_diff(p, s, got, ew), _norm_diff(wcanon(p, t, got), wcanon(p, t, ew)))
                        elif [x[0] for x in got[1]] != [x[0] for x in ew[1]]:
                            why = "field order differs from declaration order"
            elif want[0] == "union":
                if r.get("code") != 4:
                    why = "union with %d fields set was written (code %s)" % (want[1], r.get("code"))
            elif want[0] == "nil":
                if r.get("code") == 0:
                    why = "nil required struct field was written"
    return why


def _read_oracle(ctx, p, plan, gen_opts, stats, rmeta, rres, diff_index, per_type, per_type_c):
    for j, ((i, tr, info, b, pr), r) in enumerate(zip(rmeta, rres)):
        k, fn, s, v = plan[i]
        t = struct_type_of(fn, s, p)
        stats["read/" + pr + "/" + info["mutation"]] += 1
        rep = {"program": p["id"], "gen_opts": gen_opts, "type": k, "proto": pr, "bytes": b.hex(), "wire_tree": tr,
               "mutation": info, "observed": r, "go_value_written": L.struct_to_wire(p, s, v)}
        got = L.struct_from_wire(p, s, r["value"]) if r.get("code") == 0 and r.get("value") is not None else None
        why = None
        known_sig = None
        mut = info["mutation"]
        if mut in ("none", "unknown", "reorder"):
            if r.get("code") != 0:
                why = "Read rejected a conforming encoding: %s %s" % (r.get("code"), r.get("err") or r.get("panic"))
            elif go_norm(p, t, got) != go_norm(p, t, v):
                why = "Read does not reproduce the value (%s): %s" % (mut, _norm_diff(go_norm(p, t, got), go_norm(p, t, v)))
            elif r.get("rest") != 0:
                why = "Read left %s bytes unread" % r.get("rest")
        elif mut in ("drop_required", "drop_any", "dup"):
            present = {x[0] for x in tr["s"]}
            lost = [f["id"] for f in s["fields"] if f["mod"] == "required" and f["id"] not in present]
            if lost and r.get("code") != 4:
                why = "missing required field %s not rejected with INVALID_DATA (code %s)" % (lost, r.get("code"))
        elif mut == "union_extra":
            plain = {f["id"] for f in s["fields"] if f.get("default") is None and L.head_kind(p, f["type"]) != "base:binary"}
            nset = len({x[0] for x in tr["s"]} & plain)
            if nset >= 2 and r.get("code") != 4:
                why = "union encoding with %d declared fields accepted (code %s)" % (nset, r.get("code"))
        elif mut == "truncate":
            if r.get("code") in (0, 100, 102):
                why = "truncated encoding: code %s" % r.get("code")
        if r.get("code") in (100, 102) and not why:
            why = "Read crashed or hung: %s" % (r.get("panic") or r.get("err"))
        if pr != "binary" and j in diff_index and not why:
            rb = rres[diff_index[j]]
            if rb.get("code") != r.get("code") or (r.get("code") == 0 and
                                                   go_norm(p, t, L.struct_from_wire(p, s, rb["value"])) != go_norm(p, t, got)):
                why = "Read under %s differs from Read under binary for the same content" % pr
        if why and mut in ("none", "unknown", "reorder") and r.get("code") == 4 and has_init_const_default(p, s) and \
                quirk_union_count_off(p, t, v):
            known_sig = KNOWN_INIT_CONST     # a union counted with the emitted IsSet (default read before init())
            stats["known_init_const_default/read/" + pr] += 1
        if known_sig is None and r.get("code") == 4 and not (why and mut == "truncate"):
            # Read refuses the content because a union counts MORE members than one: when the union named in the error has a
            # member whose default is a constant read before init() (the known finding), a member holding that default is
            # counted as set by the emitted IsSet whatever else the encoding holds
            mm = UNION_COUNT_RE.search(r.get("err") or "")
            if mm and int(mm.group(3)) >= 2 and _union_has_init_const(p, mm.group(1), mm.group(2)):
                known_sig = KNOWN_INIT_CONST
                stats["known_init_const_default/read-refuses-named-union/" + pr] += 1
        if not why and known_sig is None and mut == "dup" and r.get("code") == 4 and has_init_const_default(p, s) and \
                quirk_union_count_off(p, t, v) and not union_count_off(p, t, v, False):
            # a field sent twice leaves the value as written; Read refuses it because a union inside has exactly one member set
            # by the declaration and not by the emitted IsSet of the known finding (a member holding its default counts too)
            known_sig = KNOWN_INIT_CONST
            stats["known_init_const_default/read-refuses/" + pr] += 1
        if not why and known_sig is None and got is not None and has_init_const_default(p, s) and \
                union_count_off(p, t, got, False) and not quirk_union_count_off(p, t, got):
            # Read accepted a content in which a union does not have exactly one field set by the declaration, and has
            # exactly one by the emitted IsSet of the known finding (a member holding its default - here typically after
            # the field that was set has been dropped from the encoding - counts as set): the same defect, seen by Read
            known_sig = KNOWN_INIT_CONST
            stats["known_init_const_default/read-accepts/" + pr] += 1
        if why and pr == "json" and r.get("code") == 4 and THRIFT_JSON_SPLIT.search((r.get("err") or "").encode("utf-8", "replace")) \
                and _special_double_straddles(b):
            # Apache Thrift's TSimpleJSONProtocol reads NaN / Infinity / -Infinity with one bufio Read: a token that
            # straddles the reader's 4096-byte buffer comes back short (the finding recorded for C03, outside /repo)
            known_sig = KNOWN_JSON_SPLIT
            stats["known/thrift_json_special_double_split/read"] += 1
        if why:
            ctx.violation("C02 oracle (Read, %s): %s" % (pr, why), dict(rep, idl=L.render(p)), signature=known_sig)
        if pr in ("binary", "compact"):
            if got is not None:
                oval = struct_tok(p, s, got)
            else:
                oval = []
            sub = [2, b, r.get("code", 103), oval, r.get("rest", 0) if r.get("code") == 0 else 0]
            (per_type if pr == "binary" else per_type_c).setdefault(k, []).append((sub, dict(rep, op="read", known_sig=known_sig)))



def _emit_judge_cases(p, keys, names, per_type, per_type_c, judge_cases, judge_meta, cjudge):
    targets = [(per_type, judge_cases, judge_meta)]
    if cjudge is not None:
        targets.append((per_type_c, cjudge[0], cjudge[1]))
    for pt, jcases, jmeta in targets:
        for k in sorted(pt):
            fn, s = keys[k]
            self_name = names.get((fn, s["name"])) if not s.get("role") else None
            if self_name is None:
                self_name = 100000 + len(jcases)
            # observations the direct oracle attributed to the known finding are judged one per case, so that a
            # mismatch there never hides the sub-cases that follow it in a chunk
            marked = [x for x in pt[k] if x[1].get("known_sig")]
            subs = [x for x in pt[k] if not x[1].get("known_sig")]
            chunks = [subs[c0:c0 + 40] for c0 in range(0, len(subs), 40)] + [[x] for x in marked]
            for chunk in chunks:
                jcases.append([env_tok(p, names, s, fn, self_name), [11, self_name], [x[0] for x in chunk]])
                jmeta.append([x[1] for x in chunk])


def struct_type_of(fn, s, p):
    """a type expression denoting the struct-like s: declared ones by reference; args/result get a private name"""
    if s.get("role"):
        key = "__m_%s" % s["go_name"]
        f = p["files"][fn]
        if not any(d["name"] == key for d in f["structs"]):
            f["structs"].append({"name": key, "kind": "struct", "fields": s["fields"], "synthetic": True})
        return ["ref", fn, key]
    return ["ref", fn, s["name"]]


def _norm_diff(a, b, path=""):
    if type(a) != type(b) or not isinstance(a, tuple):
        return "%s: got %r want %r" % (path, a, b) if a != b else ""
    if len(a) != len(b):
        try:
            ka, kb = {x[0] for x in a}, {x[0] for x in b}
            return "%s: %d vs %d entries; only got %r; only wanted %r" % (path, len(a), len(b), sorted(ka - kb)[:5], sorted(kb - ka)[:5])
        except Exception:
            return "%s: %d vs %d entries" % (path, len(a), len(b))
    for i, (x, y) in enumerate(zip(a, b)):
        d = _norm_diff(x, y, "%s/%d" % (path, i))
        if d:
            return d[:300]
    return ""


def _first_diff(p, s, got, want):
    g, w = dict(got[1]), dict(want[1])
    for f in s["fields"]:
        if (f["id"] in g) != (f["id"] in w):
            return "field %d %s" % (f["id"], "unexpectedly present" if f["id"] in g else "absent")
        if f["id"] in g and wcanon(p, f["type"], g[f["id"]]) != wcanon(p, f["type"], w[f["id"]]):
            return "field %d value differs" % f["id"]
    return "?"


def par_judges(ctx, jobs):
    """jobs: [(module, cases, name)] -> [verdict lists]; the cases of each job are cut into groups of similar token
    volume and the groups of all jobs are judged by concurrent coqc processes (at most VERIF_JOBS, at most 4)"""
    import concurrent.futures
    import os
    nproc = max(1, min(4, int(os.environ.get("VERIF_JOBS", "2") or 2)))
    tasks = []
    for ji, (module, cases, name) in enumerate(jobs):
        if not cases:
            continue
        per = max(1, nproc // max(1, sum(1 for j in jobs if j[1])))
        size = [len(repr(c)) for c in cases]
        target = sum(size) / float(per) + 1
        groups, cur, acc = [], [], 0
        for c, z in zip(cases, size):
            if cur and acc + z > target and len(groups) < per - 1:
                groups.append(cur)
                cur, acc = [], 0
            cur.append(c)
            acc += z
        groups.append(cur)
        for gi, g in enumerate(groups):
            tasks.append((ji, gi, module, g, "%s%d_" % (name, gi)))
    out = {}
    with concurrent.futures.ThreadPoolExecutor(max_workers=nproc) as ex:
        futs = {ex.submit(vlib.run_judge, ctx.rundir, module, "judge", g, 600000, 2400, nm): (ji, gi)
                for ji, gi, module, g, nm in tasks}
        for f in concurrent.futures.as_completed(futs):
            out[futs[f]] = f.result()
    res = []
    for ji, (module, cases, name) in enumerate(jobs):
        vs = []
        gi = 0
        while (ji, gi) in out:
            vs += out[(ji, gi)]
            gi += 1
        res.append(vs)
    return res


def run(ctx, br):
    import collections
    quick = ctx.tier == "quick"
    stats = collections.Counter()
    judge_cases, judge_meta = [], []
    cjudge_cases, cjudge_meta = [], []
    tag = "c02_%d" % (ctx.seed % 100000)
    probes = run_probes(ctx, tag)
    if quick:
        progs = [("small", "", 6), ("small", "", 6), ("medium", "", 4), ("small", "slim", 5)]
    else:
        progs = [(("small", "medium", "large")[i % 3], "slim" if i % 5 == 4 else "", 7 if i % 3 < 2 else 4) for i in range(33)]
    nprog = 0
    sizes = collections.Counter()
    for i, (size, opts, nvals) in enumerate(progs):
        pid = "%sp%d" % (tag.replace("_", ""), i)
        prog = L.gen_program(ctx.rng, pid, size)
        sizes[size + ("/" + opts if opts else "")] += 1
        before = len(ctx.violations)
        run_program(ctx, prog, "%s_%d" % (tag, i), opts, nvals, stats, judge_cases, judge_meta, (cjudge_cases, cjudge_meta))
        nprog += 1
        if len(ctx.violations) - before > 30:
            break
    import time
    t_lab = time.time() - ctx.t0
    # ---- correspondence: the Coq model replays every binary Write and Read
    verdicts, cverdicts = par_judges(ctx, [("JThriftBin", judge_cases, "j"), ("JThriftCompact", cjudge_cases, "jc")])
    mism = 0
    tagbits = collections.Counter()
    for case, meta, v in zip(judge_cases, judge_meta, verdicts):
        if v < 0:
            mism += 1
            m = meta[-v - 1]
            rep = dict(m)
            rep["no_failing_input_found"] = True
            rep["broken"] = "correspondence JThriftBin.judge (Model/ThriftBin.v gwrite/gread disagrees with the generated code on this input)"
            known = m.get("known_sig")
            ctx.violation("C02 correspondence: model and generated code disagree (%s of %s)" % (m.get("op"), m.get("type")), rep,
                          signature=known)
        else:
            for b in range(8):
                if v >> b & 1:
                    tagbits[1 << b] += 1
    validated = sum(len(m) for m, v in zip(judge_meta, verdicts) if v >= 0)
    t_jbin = time.time() - ctx.t0 - t_lab      # both judges (they run concurrently)
    # ---- correspondence, compact protocol: every compact Write (byte-exact) and Read replayed on Model/ThriftCompact.v
    cmism = 0
    ctagbits = collections.Counter()
    for case, meta, v in zip(cjudge_cases, cjudge_meta, cverdicts):
        if v < 0:
            cmism += 1
            m = meta[-v - 1]
            rep = dict(m)
            rep["no_failing_input_found"] = True
            rep["broken"] = "correspondence JThriftCompact.judge (Model/ThriftCompact.v gcwrite/gcread disagrees with the generated " \
                            "code over TCompactProtocol on this input; theorems c02_compact_*)"
            ctx.violation("C02 correspondence (compact): model and generated code disagree (%s of %s)" % (m.get("op"), m.get("type")), rep,
                          signature=m.get("known_sig"))
        else:
            for b in range(10):
                if v >> b & 1:
                    ctagbits[1 << b] += 1
    cvalidated = sum(len(m) for m, v in zip(cjudge_meta, cverdicts) if v >= 0)
    ctx.assumptions += [
        "TJSON codec is Apache Thrift's: exercised differentially through a schema-less reader/writer; TBinary and TCompact have Coq "
        "specifications (Model/ThriftBin.v, Model/ThriftCompact.v) compared byte-exact with the generated code's output",
        "TCompact: sizes above Thrift's 100 MB default message limit, hostile container sizes and I/O errors other than end of input are not modelled",
        "set/map order is Go's iteration order: compared up to permutation; map keys on the wire are distinct; strings are valid UTF-8; "
        "doubles compared by bit pattern (all NaNs alike under TJSON); IsSet of an optional double with a default uses Go's ==",
        "a nil slice/map/binary in a required or default field is the same value as an empty one",
    ]
    return {
        "evaluations": sum(v for k, v in stats.items() if k.startswith(("write/", "read/"))) + stats["new"],
        "distinct_nontrivial": stats["values"],
        "rule": "seeded multi-file IDL programs (includes, typedef chains, enums, structs/unions/exceptions, all modifiers, defaults, "
                "nested containers, recursive types, services -> args/result structs), compiled with -gen go (and go:slim); per type "
                "seeded Go-level values; non-trivial = one distinct (program, type, value) written under 3 protocols and read back",
        "programs": nprog,
        "program_sizes": dict(sizes),
        "probes": probes,
        "traces_validated_against_impl": validated + cvalidated,
        "traces_validated_binary": validated,
        "traces_validated_compact": cvalidated,
        "judge_cases": len(judge_cases),
        "judge_mismatches": mism,
        "model_branch_hits": {str(k): v for k, v in sorted(tagbits.items())},
        "phase_wall_s": {"build_and_lab": round(t_lab, 1), "judges_binary_and_compact_concurrent": round(t_jbin, 1)},
        "compact_judge_cases": len(cjudge_cases),
        "compact_judge_mismatches": cmism,
        "compact_model_branch_hits": {str(k): v for k, v in sorted(ctagbits.items())},
        "input_histogram": dict(stats),
        "samples": [dict((k, (str(v)[:300])) for k, v in m[0].items() if k != "idl") for m in judge_meta[:3]],
    }
