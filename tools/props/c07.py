"""C07 -- pub/sub delivers each message once, intact, and isolates bad messages.

For seeded IDL programs with scopes (tools/lab_idl.py) the lab builds the GENERATED publishers and
subscribers together with harness/lab/ext_c07, which runs scripted experiments over an embedded NATS
server / STOMP broker: interleaved valid (generated publisher), malformed (short, bad version, bad
header size, missing op id, wrong op name, truncated, garbage: raw publishes through the publisher's
broker connection) and foreign-topic messages, 1..4 workers, held handlers, Unsubscribe.  The
recorded sequence of handler invocations (payload, headers) is checked by a direct oracle (this
file, no model) and replayed by the Coq judge (Judge/JPubSub.v) on Model/PubSub.v."""
import collections
import struct
from concurrent.futures import ThreadPoolExecutor

import lab
import lab_idl as L
import vlib
from props import c02

HARNESS_BINS = ["vh_lab"]
NEEDS_FRUGAL = True

TAGS = {1: "delivered", 2: "malformed_discarded_by_worker", 4: "filtered_by_broker", 8: "unsubscribed",
        16: "worker_held_message_while_other_started", 32: "left_undelivered_after_unsubscribe", 64: "handler_error",
        128: "dropped_while_unsubscribing"}
MALFORMED = ["short", "badver", "hdrsize_neg", "hdrsize_big", "noopid", "wrongop", "otherop", "trunc", "garbage", "empty4"]
CAP = {"nats": 64, "stomp": 16}


# ------------------------------------------------------------------------------------------------
# frames

def be32(n):
    return struct.pack(">I", n & 0xffffffff)


def parse_frame(b):
    """a frame the real publisher emitted -> (pairs, offset of the Thrift message)"""
    assert b[4] == 0
    hsize = struct.unpack(">I", b[5:9])[0]
    i, end, pairs = 9, 9 + hsize, []
    while i < end:
        n = struct.unpack(">I", b[i:i + 4])[0]
        k = b[i + 4:i + 4 + n]
        i += 4 + n
        n = struct.unpack(">I", b[i:i + 4])[0]
        v = b[i + 4:i + 4 + n]
        i += 4 + n
        pairs.append((k, v))
    assert i == end
    return pairs, end


def build_frame(pairs, msg):
    h = b"".join(be32(len(k)) + k + be32(len(v)) + v for k, v in pairs)
    body = b"\0" + be32(len(h)) + h + msg
    return be32(len(body)) + body


def rename_op(msg, name):
    n = struct.unpack(">I", msg[4:8])[0]
    return msg[:4] + be32(len(name)) + name + msg[8 + n:]


def craft(rng, kind, base, other_ops):
    """a malformed variant of a frame the generated publisher produced"""
    if kind == "short":
        return bytes(rng.randrange(256) for _ in range(rng.randrange(0, 4)))
    if kind == "empty4":
        return base[:4]
    if kind == "garbage":
        return bytes(rng.randrange(256) for _ in range(rng.randrange(4, 48)))
    pairs, off = parse_frame(base)
    if kind == "badver":
        return base[:4] + bytes([rng.randrange(1, 256)]) + base[5:]
    if kind == "hdrsize_neg":
        return base[:5] + be32(rng.choice([0xffffffff, 0x80000000, 0xfffffff0])) + base[9:]
    if kind == "hdrsize_big":
        return base[:5] + be32(rng.choice([len(base), 0x7fffffff, len(base) * 3 + 7])) + base[9:]
    if kind == "noopid":
        return build_frame([kv for kv in pairs if kv[0] != b"_opid"], base[off:])
    if kind == "wrongop":
        n = struct.unpack(">I", base[off + 4:off + 8])[0]
        name = base[off + 8:off + 8 + n]
        new = rng.choice([name + b"X", name[:-1], name.swapcase() if name.swapcase() != name else b"zz", b""])
        return build_frame(pairs, rename_op(base[off:], new))
    if kind == "otherop":
        return build_frame(pairs, rename_op(base[off:], rng.choice(other_ops).encode()))
    if kind == "trunc":
        return base[:rng.randrange(4, len(base))]
    raise ValueError(kind)


# ------------------------------------------------------------------------------------------------
# generation of experiments

HCHARS = ["a", "b", "Z", "0", "-", "_x", " ", "é", "世", "=", ":", "\n", "k"]


def rand_text(rng, lo, hi):
    return "".join(rng.choice(HCHARS) for _ in range(rng.randrange(lo, hi)))


def norm_top(p, t, v):
    if v is None:
        hk = L.head_kind(p, t)
        if hk in ("list", "set", "map"):
            return []
        if hk == "base:binary":
            return b""
        if hk == "base:string":
            return ""
    return v


def gen_case(rng, p, fn, sc, op, transport, workers, idx, thorough, stomp_unsub, force=None):
    """returns the experiment description (items with model-level values; frames are crafted later)"""
    nvars = len(sc["vars"])
    vars_ = ["u%d%s" % (idx, rng.choice(["", "x", "-y"])) for _ in range(nvars)]
    patterns = ["plain", "plain", "hold", "unsub_drained", "unsub_busy", "herr"]
    if transport == "stomp" and not stomp_unsub:
        patterns = ["plain", "plain", "hold", "herr"]
    pattern = patterns[idx % len(patterns)] if idx < 2 * len(patterns) else rng.choice(patterns)
    n = rng.randrange(3, 16 if thorough else 10)
    if force:
        pattern, n = force
    if pattern in ("plain", "unsub_busy") and rng.random() < (0.15 if pattern == "plain" else 0.4):
        n = rng.randrange(70, 100) if transport == "nats" else rng.randrange(20, 40)      # more than the queue holds
    other_ops = [o["name"] for o in sc["ops"] if o["name"] != op["name"]] or ["Nope"]
    items = []
    for j in range(n):
        r = rng.random()
        if force and r < 0.8:
            kind = "valid"
        elif r < 0.5:
            kind = "valid"
        elif r < 0.62:
            kind = "foreign_raw"
        elif r < 0.70 and nvars:
            kind = "foreign_var"
        elif r < 0.75:
            kind = "rawvalid"
        else:
            kind = rng.choice(MALFORMED)
        it = {"kind": kind, "cid": "c%dm%d" % (idx, j),
              "headers": [[rand_text(rng, 0 if rng.random() < 0.05 else 1, 6), rand_text(rng, 0, 9)]
                          for _ in range(rng.choice([0, 0, 1, 2, 3, 6]))],
              "value": norm_top(p, op["type"], L.gen_value(rng, p, op["type"], rng.choice([1, 2, 3])))}
        # keys are distinct in a Go map; the last assignment wins
        seen = {}
        for k, v in it["headers"]:
            seen[k] = v
        it["headers"] = [[k, v] for k, v in seen.items()]
        if kind == "foreign_var":
            it["vars"] = [v + "_other" if q == 0 else v for q, v in enumerate(vars_)]
        items.append(it)
    if not any(it["kind"] == "valid" for it in items):
        items[rng.randrange(len(items))]["kind"] = "valid"
    return {"transport": transport, "workers": workers if transport == "nats" else 1, "fn": fn, "scope": sc["name"],
            "op": op["name"], "type": op["type"], "vars": vars_, "pattern": pattern, "items": items, "idx": idx,
            "forced": bool(force),
            # a slow uplink of the subscriber's connection: Subscribe must not return before the broker knows the subscription
            "sub_delay": (120 if transport == "nats" and pattern in ("plain", "herr") and idx % 3 == 0 else 0)}


def build_script(rng, case, frames, topic):
    """items + captured frames -> the script for ext_c07 and the bookkeeping the oracle needs"""
    script, hold, herr = [], [], []
    pattern = case["pattern"]
    delivered_kinds = ("valid", "rawvalid")
    valid_idx = [j for j, it in enumerate(case["items"]) if it["kind"] in delivered_kinds]
    held = set()
    if pattern in ("hold", "unsub_busy") and valid_idx:
        k = 1 if pattern == "unsub_busy" else rng.randrange(1, min(3, len(valid_idx)) + 1)
        held = set(valid_idx[:1] if pattern == "unsub_busy" else rng.sample(valid_idx, k))
        if pattern == "hold" and case.get("forced"):
            held = set(valid_idx[:1])     # the FIRST delivery is held while the whole backlog builds up behind it
    if pattern == "herr":
        herr = [case["items"][j]["cid"] for j in valid_idx if rng.random() < 0.5]
    unsub_at = None
    if pattern in ("unsub_drained", "unsub_busy"):
        unsub_at = rng.randrange(1, len(case["items"]) + 1)
        if pattern == "unsub_busy" and valid_idx:
            unsub_at = max(unsub_at, valid_idx[0] + 1)
            if len(case["items"]) > 16 and (rng.random() < 0.7 or case.get("forced")):
                unsub_at = len(case["items"]) - rng.randrange(0, 3)
    other_ops = [o for o in case["other_ops"]]
    nvalid_before = 0
    release_later = []
    for j, it in enumerate(case["items"]):
        if unsub_at is not None and j == unsub_at:
            script.append({"k": "flush"})
            if pattern == "unsub_drained":
                script.append({"k": "wait", "starts": nvalid_before, "ends": nvalid_before, "ms": 2500})
            else:
                script.append({"k": "wait", "starts": 1, "ends": 0, "ms": 2500})
            script.append({"k": "unsub", "ms": 300 if pattern == "unsub_busy" else 3000})
            it["after_unsub"] = True
        elif unsub_at is not None and j > unsub_at:
            it["after_unsub"] = True
        base = bytes.fromhex(frames[j]["hex"])
        kind = it["kind"]
        if kind == "valid" or kind == "foreign_var":
            st = {"k": "pub", "cid": it["cid"], "headers": it["headers"], "value": L.to_wire(case["prog"], case["type"], it["value"])}
            if kind == "foreign_var":
                st["vars"] = it["vars"]
                it["topic"] = frames[j]["topic"]
            script.append(st)
        elif kind == "foreign_raw":
            it["topic"] = rng.choice([topic + "x", topic[:-1], "zz." + topic, topic + ".sub", topic.swapcase() if topic.swapcase() != topic else topic + "2"])
            it["frame"] = base
            script.append({"k": "raw", "hex": base.hex(), "topic": it["topic"]})
        elif kind == "rawvalid":
            it["frame"] = (bytes(rng.randrange(256) for _ in range(4)) if rng.random() < 0.5 else base[:4]) + base[4:]
            it["pub_hdrs"] = frames[j]["hdrs"]
            script.append({"k": "raw", "hex": it["frame"].hex()})
        else:
            it["frame"] = craft(rng, kind, base, other_ops)
            script.append({"k": "raw", "hex": it["frame"].hex()})
        it["step"] = len(script) - 1
        if kind in delivered_kinds and not it.get("after_unsub"):
            nvalid_before += 1
        if j in held:
            hold.append(it["cid"])
            release_later.append(it["cid"])
        # release some held handlers a few steps later
        if release_later and rng.random() < 0.35 and pattern == "hold" and not case.get("forced"):
            script.append({"k": "release", "cid": release_later.pop(0)})
    if unsub_at is not None and unsub_at == len(case["items"]):
        script.append({"k": "flush"})
        if pattern == "unsub_drained":
            script.append({"k": "wait", "starts": nvalid_before, "ends": nvalid_before, "ms": 2500})
        else:
            script.append({"k": "wait", "starts": 1, "ends": 0, "ms": 2500})
        script.append({"k": "unsub", "ms": 300 if pattern == "unsub_busy" else 3000})
    for cid in release_later:
        script.append({"k": "release", "cid": cid})
    expect = nvalid_before if pattern != "unsub_busy" else 1
    return {"transport": case["transport"], "workers": case["workers"], "scope": case["key"], "sop": case["op"],
            "vars": case["vars"], "script": script, "expect": expect, "hold": hold, "herr": herr,
            "settle_ms": 150 if unsub_at is not None else 60, "sub_link_delay_ms": case.get("sub_delay", 0)}


# ------------------------------------------------------------------------------------------------
# oracle and judge input for one experiment

def strip_opid(h):
    return {k: v for k, v in (h or {}).items() if k != "_opid"}


def check_case(ctx, case, req, resp, stats, replay_base):
    """direct oracle on the observations; returns the judge case (or None)"""
    p, t = case["prog"], case["type"]
    problems = []
    if resp.get("code") != 0:
        problems.append("experiment failed: code %s %s" % (resp.get("code"), resp.get("err") or resp.get("panic")))
        return None, problems
    events, tap, topic = resp["events"], resp["tap"], resp["topic"]
    if resp.get("sibling_got"):
        problems.append("a sibling subscription made from the same provider on ANOTHER topic received %d message(s) "
                        "published on topic %s" % (resp["sibling_got"], topic))
    by_step = {it["step"]: it for it in case["items"]}
    by_cid = {it["cid"]: it for it in case["items"]}
    # publish events in order; global publish index = position among them
    pub_index, pubs = {}, []
    for e in events:
        if e["e"] == "pub":
            it = by_step[e["i"]]
            pub_index[it["cid"]] = len(pubs)
            pubs.append((it, e))
            if e.get("code") != 0:
                problems.append("publish of %s failed: %s" % (it["cid"], e.get("err")))
    # the tap (a plain subscription on the same destination) must have seen exactly the on-topic publishes, in order
    on_topic = [(it, e) for it, e in pubs if it["kind"] not in ("foreign_raw", "foreign_var")]
    if len(tap) != len(on_topic):
        problems.append("broker delivered %d frames on the topic to a plain subscription, %d were published" % (len(tap), len(on_topic)))
        return None, problems
    for (it, e), fr in zip(on_topic, tap):
        if "frame" in it and it["frame"].hex() != fr:
            problems.append("broker order differs from publish order (plain subscription)")
            return None, problems
        it["wire"] = bytes.fromhex(fr)
    started, ended, unsub_ret_seen = [], set(), False
    for e in events:
        if e["e"] == "start":
            it = by_cid.get(e["cid"])
            if it is None:
                problems.append("handler invoked with an unknown correlation id %r" % e["cid"])
                continue
            if it["kind"] not in ("valid", "rawvalid"):
                problems.append("handler invoked for a %s message (%s)" % (it["kind"], it["cid"]))
            if it.get("after_unsub") and unsub_ret_seen:
                problems.append("handler invocation started for %s, published after Unsubscribe returned" % it["cid"])
            if it["cid"] in [x["cid"] for x, _ in started]:
                problems.append("handler invoked twice for %s" % it["cid"])
            want_h = strip_opid(it.get("pub_hdrs") or dict(pubs[pub_index[it["cid"]]][1].get("hdrs") or {}))
            if strip_opid(e["hdrs"]) != want_h:
                problems.append("headers of %s differ: got %r want %r" % (it["cid"], strip_opid(e["hdrs"]), want_h))
            got = norm_top(p, t, L.from_wire(p, t, e["val"]))
            e["model_val"] = got
            if c02.go_norm(p, t, got) != c02.go_norm(p, t, it["value"]):
                problems.append("payload of %s differs" % it["cid"])
            started.append((it, e))
        elif e["e"] == "end":
            ended.add(e["cid"])
        elif e["e"] == "unsub_ret":
            unsub_ret_seen = True
            if e.get("code") != 0:
                problems.append("Unsubscribe returned an error (code %s)" % e.get("code"))
        elif e["e"] in ("unsub_hang", "wait_timeout", "flush_err"):
            problems.append("%s at step %s" % (e["e"], e.get("i")))
    owed = [it for it, e in pubs if it["kind"] in ("valid", "rawvalid") and not it.get("after_unsub")]
    if case["pattern"] not in ("unsub_busy",):
        # everything owed before Unsubscribe was waited for (unsub_drained) or there is no Unsubscribe
        got_cids = [it["cid"] for it, _ in started]
        for it in owed:
            if it["cid"] not in got_cids:
                problems.append("valid message %s (publish #%d) was never delivered" % (it["cid"], pub_index[it["cid"]]))
        if case["workers"] == 1 and [c for c in got_cids if c in {x["cid"] for x in owed}] != [x["cid"] for x in owed if x["cid"] in got_cids]:
            problems.append("single worker: invocation order %s differs from publish order" % got_cids)
    for it, _ in started:
        if it["cid"] not in ended:
            problems.append("handler for %s never returned" % it["cid"])
    # ---- judge input
    names = case["names"]
    evs = []
    for e in events:
        if e["e"] == "pub":
            it = by_step[e["i"]]
            if it["kind"] in ("foreign_raw", "foreign_var"):
                evs.append([0, it["topic"].encode(), it.get("frame", b"")])
            else:
                evs.append([0, topic.encode(), it["wire"]])
        elif e["e"] == "start" and e["cid"] in pub_index and "model_val" in e:
            hp = sorted((k.encode(), v.encode()) for k, v in strip_opid(e["hdrs"]).items())
            evs.append([1, pub_index[e["cid"]], [[k, v] for k, v in hp], c02.val_tok(p, t, e["model_val"])])
        elif e["e"] == "end" and e["cid"] in pub_index:
            evs.append([2, pub_index[e["cid"]], 1 if e["cid"] in req["herr"] else 0])
        elif e["e"] == "unsub_call":
            evs.append([3])
        elif e["e"] == "unsub_ret":
            evs.append([4])
        elif e["e"] == "final":
            evs.append([5])
    fake = {"name": "__c07_payload", "kind": "struct", "fields": [{"id": 1, "name": "x", "mod": "default", "type": t, "default": None}]}
    jc = [0 if case["transport"] == "nats" else 1, case["workers"], CAP[case["transport"]], topic.encode(), case["op"].encode(),
          c02.env_tok(p, names, fake, case["fn"], 900000), c02.type_tok(p, names, t), evs]
    stats["pubs"] += len(pubs)
    stats["starts"] += len(started)
    for it, _ in pubs:
        stats["kind/" + it["kind"]] += 1
    return jc, problems


# ------------------------------------------------------------------------------------------------

def scope_key(fn, sc):
    return "%s.%s" % (L.go_pkg(fn), L.snake_to_camel(sc["name"]))


def run_program(ctx, prog, lab_id, ncases, stats, jcases, jmeta, thorough, stomp_unsub):
    rng = ctx.rng
    lb = lab.Lab(prog, lab_id=lab_id, extra_imports=["verifharness/lab/ext_c07"])
    try:
        lb.build()
    except lab.LabError as e:
        ctx.violation("C07: generated program with scopes does not build (%s)" % e.stage,
                      {"program": prog["id"], "idl": L.render(prog), "stage": e.stage, "log": e.log[-2500:],
                       "no_failing_input_found": True, "broken": "laboratory build"})
        lb.remove()
        return
    try:
        names = {}
        for fn in prog["order"]:
            f = prog["files"][fn]
            for d in f["typedefs"] + f["enums"] + f["structs"]:
                names[(fn, d["name"])] = len(names) + 1
        types = lb.run([{"op": "types"}])[0]
        ops = [(fn, sc, op) for fn in prog["order"] for sc in prog["files"][fn]["scopes"] for op in sc["ops"]]
        cases = []
        # always present: Unsubscribe while the handler runs with a few / more than cap(sub.C) / more than
        # cap(workC) messages behind it, and a short frame in front of valid ones for a single worker
        forced = [("stomp", 1, ("unsub_busy", 6)), ("stomp", 1, ("unsub_busy", 12)), ("stomp", 1, ("unsub_busy", 9)),
                  ("stomp", 1, ("unsub_busy", 14)), ("stomp", 1, ("unsub_busy", 30)), ("stomp", 1, ("unsub_busy", 40)),
                  ("nats", 1, ("unsub_busy", 80)), ("nats", 2, ("unsub_busy", 12)), ("nats", 1, ("plain", 90)),
                  ("nats", 1, ("hold", 95)),      # backlog larger than the work queue behind a held handler: order must survive
                  ("nats", 1, ("hold", 99)), ("nats", 1, ("hold", 88)),
                  ("stomp", 1, ("plain", 40))]
        for i in range(ncases):
            fn, sc, op = ops[i % len(ops)]
            transport = "stomp" if i % 3 == 2 else "nats"
            workers = [1, 2, 1, 3, 4][i % 5]
            force = None
            if i < len(forced):
                transport, workers, force = forced[i]
            c = gen_case(rng, prog, fn, sc, op, transport, workers, len(jcases) * 1000 + i, thorough, stomp_unsub, force)
            c.update({"prog": prog, "names": names, "key": scope_key(fn, sc),
                      "other_ops": [o["name"] for o in sc["ops"] if o["name"] != op["name"]] or ["Nope"]})
            if c["key"] not in (types.get("scopes") or []):
                raise RuntimeError("scope %s not in the registry %s" % (c["key"], types.get("scopes")))
            cases.append(c)
        # phase 1: the frames the generated publisher emits for every item (for crafting and for the topic)
        freqs = [{"op": "c07_frames", "scope": c["key"], "sop": c["op"],
                  "items": [{"cid": it["cid"], "headers": it["headers"], "vars": it.get("vars", c["vars"]),
                             "value": L.to_wire(prog, c["type"], it["value"])} for it in c["items"]]} for c in cases]
        fres = lb.run(freqs)
        reqs = []
        for c, fr in zip(cases, fres):
            if fr.get("code") != 0 or any(x.get("code") != 0 or "hex" not in x for x in fr.get("items", [])):
                ctx.violation("C07: the generated publisher failed on a generated value",
                              {"program": prog["id"], "idl": L.render(prog), "scope": c["key"], "op": c["op"],
                               "failed_items": [{"value": c["items"][n]["value"] if n < len(c["items"]) else None, "response": x}
                                                for n, x in enumerate(fr.get("items", []))
                                                if x.get("code") != 0 or "hex" not in x][:3],
                               "response": str(fr)[:1500]})
                reqs.append(None)
                continue
            own = [x["topic"] for x, it in zip(fr["items"], c["items"]) if it["kind"] != "foreign_var"]
            reqs.append(build_script(rng, c, fr["items"], own[0]))
        # phase 2: the experiments, a few at a time in one driver process each
        todo = [(c, r) for c, r in zip(cases, reqs) if r is not None]
        batches = [todo[i:i + 6] for i in range(0, len(todo), 6)]

        def run_batch(b):
            return lb.run([{"op": "c07_run", "cases": [r for _, r in b]}], timeout=120)
        with ThreadPoolExecutor(max_workers=4) as ex:
            results = list(ex.map(run_batch, batches))
        for b, res in zip(batches, results):
            r0 = res[0] if res else {"code": 103, "err": "no response"}
            outs = r0.get("cases") if r0.get("code") == 0 else None
            for k, (c, r) in enumerate(b):
                resp = outs[k] if outs else {"code": r0.get("code"), "err": r0.get("err"), "panic": r0.get("panic")}
                rep = {"program": prog["id"], "transport": c["transport"], "workers": c["workers"], "scope": c["key"], "op": c["op"],
                       "pattern": c["pattern"], "request": r, "items": [{k2: (v.hex() if isinstance(v, bytes) else v) for k2, v in it.items()
                                                                          if k2 in ("kind", "cid", "frame", "topic", "after_unsub")} for it in c["items"]]}
                stats["cases"] += 1
                stats["transport/" + c["transport"]] += 1
                stats["workers/%d" % c["workers"]] += 1
                stats["pattern/" + c["pattern"]] += 1
                if c.get("sub_delay"):
                    stats["slow_subscriber_uplink_cases"] += 1
                jc, problems = check_case(ctx, c, r, resp, stats, rep)
                for why in problems[:3]:
                    ctx.violation("C07 oracle (%s, %d worker(s), %s): %s" % (c["transport"], c["workers"], c["pattern"], why),
                                  dict(rep, idl=L.render(prog), observed=str(resp)[:3000]))
                if jc is not None and not problems:
                    jcases.append(jc)
                    jmeta.append(rep)
    finally:
        lb.remove()


def run(ctx, br):
    quick = ctx.tier == "quick"
    stats = collections.Counter()
    jcases, jmeta = [], []
    tag = "c07_%d" % (ctx.seed % 100000)
    stomp_unsub = True
    plan = [("small", 36), ("small", 36)] if quick else [(("small", "medium")[i % 2], 90) for i in range(10)]
    nprog = 0
    for i, (size, ncases) in enumerate(plan):
        prog = None
        for _ in range(40):
            cand = L.gen_program(ctx.rng, "%sp%d" % (tag.replace("_", ""), i), size)
            if any(cand["files"][fn]["scopes"] for fn in cand["order"]):
                prog = cand
                break
        if prog is None:
            raise RuntimeError("no generated program with a scope")
        nprog += 1
        before = len(ctx.violations)
        run_program(ctx, prog, "%s_%d" % (tag, i), ncases, stats, jcases, jmeta, not quick, stomp_unsub)
        if len(ctx.violations) - before > 30:
            break
    verdicts = vlib.run_judge(ctx.rundir, "JPubSub", "judge", jcases, shard=600000) if jcases else []
    tagbits = collections.Counter()
    mism = 0
    distinct = set()
    for jc, meta, v in zip(jcases, jmeta, verdicts):
        if v < 0:
            mism += 1
            rep = dict(meta)
            rep["no_failing_input_found"] = True
            rep["rejected_event_index"] = -v - 1
            rep["broken"] = "correspondence JPubSub.judge (Model/PubSub.v does not reproduce this observed experiment)"
            ctx.violation("C07 correspondence: the model does not reproduce an observed %s experiment (event %d)"
                          % (meta["transport"], -v - 1), rep)
        else:
            distinct.add((meta["transport"], meta["workers"], meta["pattern"], v, tuple(it["kind"] for it in meta["items"])))
            for b in TAGS:
                if v & b:
                    tagbits[TAGS[b]] += 1
    ctx.assumptions += [
        "broker (embedded nats-server / go-stomp server) is a topic-filtered FIFO: checked on every experiment by a plain "
        "subscription on the same destination (its frames, in order, are the judge's publish events)",
        "quiescence is observed as: all sends acknowledged by the broker, the owed number of invocations seen (or 2.5 s), then a settle period",
        "payload codec is C02's model (gread of the operation's type); Go map iteration order of headers is whatever the frame on the wire shows",
    ]
    return {
        "evaluations": stats["pubs"],
        "distinct_nontrivial": len(distinct),
        "rule": "one experiment = one generated subscriber (scope operation of a seeded IDL program) over an embedded broker with a script of "
                "valid / malformed / foreign-topic publishes, held handlers, handler errors and Unsubscribe; distinct = distinct "
                "(transport, workers, pattern, message-kind sequence, model branch set)",
        "programs": nprog,
        "experiments": stats["cases"],
        "handler_invocations_observed": stats["starts"],
        "traces_validated_against_impl": sum(1 for v in verdicts if v >= 0),
        "judge_cases": len(jcases),
        "judge_mismatches": mism,
        "model_branch_hits": dict(tagbits),
        "input_histogram": dict(stats),
        "samples": [{k: str(v)[:300] for k, v in m.items() if k != "request"} for m in jmeta[:3]],
    }
