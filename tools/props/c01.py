"""C01 — under multiplexing every RPC gets exactly its own response."""
import json

import vlib
from props import reg_common as rc

HARNESS_BINS = ["vh_reg"]
PROFILES = ["mixed", "mixed", "wedge", "senderr", "timeouts"]
NATS_PROFILES = ["mixed", "status", "wedge", "noresp", "timeouts", "mixed", "puberr"]
PROP = "C01"


def run(ctx, br, profiles=None, prop=None, nats_profiles=None):
    prop = prop or PROP
    quick = ctx.tier == "quick"
    n = 150 if quick else 4000
    reqs = rc.gen_reqs(ctx.rng, n, profiles or PROFILES, max_callers=(6 if quick else 12),
                       steps=((25, 60) if quick else (30, 120)))
    n_nats = 150 if quick else 3000
    reqs += rc.gen_nats_reqs(ctx.rng, n_nats, nats_profiles or NATS_PROFILES, max_callers=(6 if quick else 10),
                             steps=((25, 60) if quick else (30, 120)))
    resps = rc.run_reg(reqs)
    bad = 0
    for q, r in zip(reqs, resps):
        why = rc.oracle(q, r)
        if why:
            bad += 1
            ctx.violation("%s oracle (%s transport): %s" % (prop, q.get("transport", "adapter"), why),
                          {"schedule": q, "events": r.get("events"), "opids": r.get("opids"), "datakinds": r.get("datakinds")})
    ok = [(q, r) for q, r in zip(reqs, resps) if not r.get("panic") and not r.get("hang")]
    verdicts = vlib.run_judge(ctx.rundir, "JRegistry", "judge", [rc.tok_case(q, r) for q, r in ok])
    mism = 0
    for (q, r), v in zip(ok, verdicts):
        if v < 0:
            mism += 1
            rep = {"schedule": q, "events": r["events"], "opids": r["opids"], "reglen": r["reglen"], "fresh": r["fresh"],
                   "datakinds": r.get("datakinds")}
            if not rc.oracle(q, r):
                rep["no_failing_input_found"] = True
                rep["broken"] = "correspondence JRegistry.judge (Model/Registry.v does not accept this observed schedule)"
            ctx.violation("%s correspondence (%s transport): the model does not reproduce an observed schedule"
                          % (prop, q.get("transport", "adapter")), rep)
    kinds = {}
    dup = unknown = late = drops = 0
    nats = {"schedules": 0, "outcomes": {}, "register_errors": 0, "malformed_opid_refused": 0, "empty_frames": 0, "not_open": 0, "oversize_after_register": 0,
            "publish_errors": 0, "status_503_found": 0, "status_503_miss": 0, "status_503_from_server": 0,
            "discarded_messages": 0, "frames_into_oversize_or_parked_request": 0}
    for q, r in zip(reqs, resps):
        seen_for = {}
        done = set()
        parked = set()
        isn = q.get("transport") == "nats"
        if isn:
            nats["schedules"] += 1
            nats["status_503_from_server"] += r.get("server_status", 0)
        for e in r.get("events") or []:
            kinds[e[0]] = kinds.get(e[0], 0) + 1
            if isn:
                if e[0] == 8:
                    nats["outcomes"][str(e[2])] = nats["outcomes"].get(str(e[2]), 0) + 1
                    nats["oversize_after_register"] += e[2] == 6
                elif e[0] == 5 and e[3] == 1 and e[1] in parked:
                    nats["frames_into_oversize_or_parked_request"] += 1
                elif e[0] == 2:
                    parked.discard(e[1])
                elif e[0] == 1:
                    if e[2] == 0:
                        parked.add(e[1])
                    nats["register_errors"] += e[2] == 1
                    nats["malformed_opid_refused"] += e[2] == 1 and r["opids"][e[1]] == "-1"
                    nats["empty_frames"] += e[2] == 2
                elif e[0] == 9:
                    nats["not_open"] += 1
                elif e[0] == 10:
                    nats["publish_errors"] += 1
                elif e[0] == 11:
                    nats["status_503_found" if e[3] == 1 else "status_503_miss"] += 1
                elif e[0] == 12:
                    nats["discarded_messages"] += 1
            if e[0] == 8:
                done.add(e[1])
            if e[0] == 5:
                if e[1] < 0:
                    unknown += 1
                else:
                    seen_for[e[1]] = seen_for.get(e[1], 0) + 1
                    if seen_for[e[1]] > 1:
                        dup += 1
                    if e[1] in done:
                        late += 1
            if e[0] == 6 and e[1] == 0:
                drops += 1
    distinct = len({json.dumps([q.get("transport", "adapter"), r.get("events")]) for q, r in zip(reqs, resps)
                    if len({e[0] for e in r.get("events") or []}) >= 5})
    ctx.assumptions += ["sync.RWMutex gives mutual exclusion and Go channels behave as specified; goroutines are cut at the verif yield "
                        "points (after Register, between lookup and channel send, after the select) and at the scripted transport's Write",
                        "op ids of concurrently used FContexts are pairwise distinct (C17) - except in the NATS schedules that share an "
                        "FContext on purpose, where the theorems that need no distinctness apply",
                        "NATS: the embedded server delivers each published message once and in publication order to the inbox "
                        "subscription; nats.go runs one callback goroutine per subscription (the single reader)"]
    return {
        "evaluations": len(reqs),
        "distinct_nontrivial": distinct,
        "rule": "seeded random walks over the events the IMPLEMENTATION offers (1..%d concurrent callers on one adapter transport, some "
                "with a foreign FContext implementation that is held inside its op id read while the others go on; arrivals: "
                "responses in any order, duplicates, unknown op ids, late frames, frames with user headers that look like the op id header; lookup/deliver/unregister interleavings forced through "
                "yield points; send ok / send failure; short timeouts) and the same on one NATS transport against an embedded server "
                "(responses / duplicates / unknown ids / late frames published onto <inbox>.<token>, status 503 messages from the harness "
                "and from the server itself (no responders), messages that must be discarded before dispatch, empty and oversize "
                "requests, FContexts shared by concurrent requests (Register error), publish errors, requests on a closed transport); "
                "every event and its observed effect is replayed on the model; "
                "non-trivial = at least 5 different event kinds; distinct by transport + event log" % (6 if quick else 12),
        "traces_validated_against_impl": sum(1 for v in verdicts if v >= 0),
        "trace_steps_validated": sum(v for v in verdicts if v >= 0),
        "judge_mismatches": mism,
        "oracle_failures": bad,
        "hangs_not_reproduced_with_5x_patience": rc.HANGS_NOT_REPRODUCED,
        "event_kind_histogram": {str(k): v for k, v in sorted(kinds.items())},
        "duplicate_arrivals": dup, "unknown_opid_arrivals": unknown, "late_arrivals": late, "dropped_duplicates": drops,
        "nats": nats,
        "callers_held_in_a_foreign_fcontext_op_id_read": sum(r.get("slow_parked", 0) for r in resps),
        "frames_dispatched_while_a_caller_was_held_there": sum(r.get("slow_arrivals", 0) for r in resps),
        "frames_with_lookalike_opid_headers": "3 in 4 (a name ending in _opid / a value holding a whole _opid pair, before, after or around the real pair)",
        "samples": [{"schedule": reqs[0], "events": resps[0].get("events")[:25]},
                    {"schedule": reqs[-1], "events": resps[-1].get("events")[:25]}],
    }
