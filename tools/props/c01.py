"""C01 — under multiplexing every RPC gets exactly its own response."""
import json

import vlib
from props import reg_common as rc

HARNESS_BINS = ["vh_reg"]
PROFILES = ["mixed", "mixed", "wedge", "senderr", "timeouts"]
PROP = "C01"


def run(ctx, br, profiles=None, prop=None):
    prop = prop or PROP
    quick = ctx.tier == "quick"
    n = 150 if quick else 4000
    reqs = rc.gen_reqs(ctx.rng, n, profiles or PROFILES, max_callers=(6 if quick else 12),
                       steps=((25, 60) if quick else (30, 120)))
    resps = rc.run_reg(reqs)
    bad = 0
    for q, r in zip(reqs, resps):
        why = rc.oracle(q, r)
        if why:
            bad += 1
            ctx.violation("%s oracle: %s" % (prop, why), {"schedule": q, "events": r.get("events"), "opids": r.get("opids")})
    ok = [(q, r) for q, r in zip(reqs, resps) if not r.get("panic") and not r.get("hang")]
    verdicts = vlib.run_judge(ctx.rundir, "JRegistry", "judge", [rc.tok_case(q, r) for q, r in ok])
    mism = 0
    for (q, r), v in zip(ok, verdicts):
        if v < 0:
            mism += 1
            rep = {"schedule": q, "events": r["events"], "opids": r["opids"], "reglen": r["reglen"], "fresh": r["fresh"]}
            if not rc.oracle(q, r):
                rep["no_failing_input_found"] = True
                rep["broken"] = "correspondence JRegistry.judge (Model/Registry.v does not accept this observed schedule)"
            ctx.violation("%s correspondence: the model does not reproduce an observed schedule" % prop, rep)
    kinds = {}
    dup = unknown = late = drops = 0
    for r in resps:
        seen_for = {}
        done = set()
        for e in r.get("events") or []:
            kinds[e[0]] = kinds.get(e[0], 0) + 1
            if e[0] == 8:
                done.add(e[1])
            if e[0] == 5:
                if e[1] < 0:
                    unknown += 1
                else:
                    seen_for[e[1]] = seen_for.get(e[1], 0) + 1
                    if seen_for[e[1]] > 1:
                        dup += 1
                    if e[1] in done:
                        late += 1
            if e[0] == 6 and e[1] == 0:
                drops += 1
    distinct = len({json.dumps(r.get("events")) for r in resps if len({e[0] for e in r.get("events") or []}) >= 5})
    ctx.assumptions += ["sync.RWMutex gives mutual exclusion and Go channels behave as specified; goroutines are cut at the verif yield "
                        "points (after Register, between lookup and channel send, after the select) and at the scripted transport's Write",
                        "op ids of concurrently used FContexts are pairwise distinct (C17)"]
    return {
        "evaluations": len(reqs),
        "distinct_nontrivial": distinct,
        "rule": "seeded random walks over the events the IMPLEMENTATION offers (1..%d concurrent callers on one adapter transport; arrivals: "
                "responses in any order, duplicates, unknown op ids, late frames; lookup/deliver/unregister interleavings forced through "
                "yield points; send ok / send failure; short timeouts); every event and its observed effect is replayed on the model; "
                "non-trivial = at least 5 different event kinds; distinct by event log" % (6 if quick else 12),
        "traces_validated_against_impl": sum(1 for v in verdicts if v >= 0),
        "trace_steps_validated": sum(v for v in verdicts if v >= 0),
        "judge_mismatches": mism,
        "oracle_failures": bad,
        "hangs_not_reproduced_with_5x_patience": rc.HANGS_NOT_REPRODUCED,
        "event_kind_histogram": {str(k): v for k, v in sorted(kinds.items())},
        "duplicate_arrivals": dup, "unknown_opid_arrivals": unknown, "late_arrivals": late, "dropped_duplicates": drops,
        "samples": [{"schedule": reqs[0], "events": resps[0].get("events")[:25]}],
    }
