"""C11, validation pass and include resolution (Model/CompilerValidate.v, Judge/JCompilerValidate.v).

Seeded programs (valid by construction, invalid by construction through one named mutation, text-mutated),
the real parser.ParseFrugal / Frugal.validate through vh_c11 "validate", a direct oracle on the observations
(accept / reject with the expected diagnostic, no crash; on every accepted tree the facts the generators rely
on, recomputed here without the model), and the Coq judge replaying the model on the same parse trees."""
import json
import os
import re
import subprocess

import vlib
from props import c11_idlgen as G
from props import c10_gen

VH = os.path.join(vlib.BIN, "vh_c11")

BASE = {"bool", "byte", "i8", "i16", "i32", "i64", "double", "string", "binary"}
CONTAINERS = {"list", "set", "map"}


# ------------------------------------------------------------------------------------------------
# mutations: (name, function(rng, files, victim) -> None (edits files), expected: None = accept | regex)

FAR = ('service ZqFar { void zqFar() }\nexception ZqFarErr { 1: string m }\ntypedef ZqFarErr ZqFarAlias\n'
       'enum ZqColor { RED, GREEN }\nconst i32 zqFarConst = 3\nstruct ZqFarS { 1: i32 a }\n')


def _append(text):
    def f(rng, files, victim):
        files[victim] = files[victim] + "\n" + text + "\n"
    return f


def _with_far(text):
    def f(rng, files, victim):
        d = os.path.dirname(victim)
        files[os.path.join(d, "zqinc.frugal")] = FAR
        files[victim] = 'include "zqinc.frugal"\n' + files[victim] + "\n" + text + "\n"
    return f


def _include_cycle(rng, files, victim):
    # the victim includes a new file which includes the victim again
    d = os.path.dirname(victim)
    files[os.path.join(d, "zqloop.frugal")] = 'include "%s"\nstruct ZqLoop {}\n' % os.path.basename(victim)
    files[victim] = 'include "zqloop.frugal"\n' + files[victim]


def _typedef_two_files(rng, files, victim):
    d = os.path.dirname(victim)
    files[os.path.join(d, "zqa.frugal")] = 'include "zqb.frugal"\ntypedef zqb.T T\n'
    files[os.path.join(d, "zqb.frugal")] = 'include "zqa.frugal"\ntypedef zqa.T T\n'
    files[victim] = 'include "zqa.frugal"\n' + files[victim] + "\nstruct ZqUse { 1: zqa.T a }\n"


def _typedef_two_files_noinc(rng, files, victim):
    d = os.path.dirname(victim)
    files[os.path.join(d, "zqa.frugal")] = 'include "zqb.frugal"\ntypedef zqb.T T\n'
    files[os.path.join(d, "zqb.frugal")] = 'typedef zqa.T T\n'
    files[victim] = 'include "zqa.frugal"\n' + files[victim] + "\nstruct ZqUse { 1: zqa.T a }\n"


def _same_name_other_dir(rng, files, victim):
    # a file including a DIFFERENT file of the same name in another directory: not a cycle; rejected
    # because includes and generated code are named after the file name (repaired C11-K14: the
    # diagnostic used to be 'Circular include')
    d = os.path.dirname(victim)
    base = os.path.basename(victim)
    files[os.path.join(d, "zqsub", base)] = "struct ZqDeep {}\n"
    files[victim] = 'include "zqsub/%s"\n' % base + files[victim]


def _same_name_cycle(rng, files, victim):
    # a real cycle through two files of the same name: victim -> zqsub/victim -> ../victim
    d = os.path.dirname(victim)
    base = os.path.basename(victim)
    files[os.path.join(d, "zqsub", base)] = 'include "../%s"\nstruct ZqDeep {}\n' % base
    files[victim] = 'include "zqsub/%s"\n' % base + files[victim]


def _same_name_via_third(rng, files, victim):
    # victim -> zqmid.frugal -> zqsub/victim (another file of the victim's name further down the chain)
    d = os.path.dirname(victim)
    base = os.path.basename(victim)
    files[os.path.join(d, "zqsub", base)] = "struct ZqDeep {}\n"
    files[os.path.join(d, "zqmid.frugal")] = 'include "zqsub/%s"\nstruct ZqMid {}\n' % base
    files[victim] = 'include "zqmid.frugal"\n' + files[victim]


def _self_by_other_spelling(rng, files, victim):
    # the file includes itself under a path that is spelled differently: a cycle by cleaned path
    base = os.path.basename(victim)
    files[victim] = 'include "zqnodir/../%s"\n' % base + files[victim]


def _same_name_off_chain(rng, files, victim):
    # two different files of one name which are never on one chain of includes: accepted
    d = os.path.dirname(victim)
    files[os.path.join(d, "zqp", "zqcommon.frugal")] = "struct ZqP {}\nconst i32 zqk = 1\n"
    files[os.path.join(d, "zqq", "zqcommon.frugal")] = "struct ZqQ {}\nconst string zqk = \"q\"\n"
    files[os.path.join(d, "zqa.frugal")] = 'include "zqp/zqcommon.frugal"\nstruct ZqA { 1: zqcommon.ZqP p, 2: i32 k = zqcommon.zqk }\n'
    files[os.path.join(d, "zqb.frugal")] = 'include "zqq/zqcommon.frugal"\nstruct ZqB { 1: zqcommon.ZqQ q, 2: string k = zqcommon.zqk }\n'
    files[victim] = 'include "zqa.frugal"\ninclude "zqb.frugal"\n' + files[victim] + "\nstruct ZqAB { 1: zqa.ZqA a, 2: zqb.ZqB b }\n"


def _diamond(rng, files, victim):
    # the same file reached along two chains (and once more under another spelling): no cycle
    d = os.path.dirname(victim)
    files[os.path.join(d, "zqleaf.frugal")] = "struct ZqLeaf {}\n"
    files[os.path.join(d, "zql.frugal")] = 'include "zqleaf.frugal"\nstruct ZqL { 1: zqleaf.ZqLeaf a }\n'
    files[os.path.join(d, "zqr.frugal")] = 'include "zqnodir/../zqleaf.frugal"\nstruct ZqR { 1: zqleaf.ZqLeaf a }\n'
    files[victim] = 'include "zql.frugal"\ninclude "zqr.frugal"\ninclude "zqleaf.frugal"\n' + files[victim]


# declarations the value mutations lean on (every kind of type a value can be declared with, through typedefs
# and an include)
VFAR = ('enum ZqColor { RED = 1, GREEN = 2 }\nstruct ZqFarS { 1: i32 a, 2: list<string> l, 3: ZqColor c = ZqColor.RED }\n'
        'typedef ZqFarS ZqFarT\ntypedef list<ZqColor> ZqColors\nconst i32 zqFarInt = 3\nconst string zqFarStr = "s"\n'
        'const ZqFarS zqFarStruct = {"a": 1}\nconst list<i32> zqFarList = [1]\ntypedef i16 ZqShort\n'
        'union ZqFarU { 1: i32 i, 2: string s }\nexception ZqFarX { 1: string m = "boom" }\n')
VNEAR = ('enum ZqE { A = 1, B = 5 }\nenum ZqF { A = 1 }\ntypedef i32 ZqInt\ntypedef ZqInt ZqInt2\ntypedef list<ZqInt2> ZqInts\n'
         'typedef map<string, ZqInts> ZqTable\ntypedef ZqE ZqE2\nstruct ZqIn { 1: i32 n, 2: ZqE2 e }\n'
         'struct ZqS { 1: ZqInt2 a, 2: string s, 3: ZqInts l, 4: ZqIn inner, 5: zqvinc.ZqFarT far, 6: set<i8> tiny, 7: double d, 8: binary b, 9: bool flag }\n'
         'typedef ZqS ZqS2\nconst i32 zqOne = 1\nconst i64 zqBig = 5000000000\nconst double zqHalf = 0.5\nconst string zqStr = "x"\n'
         'const bool zqYes = true\nconst ZqInts zqL = [1, 2]\nconst ZqS zqStruct = {"a": 1}\nconst ZqE zqEn = ZqE.B\n')


def _values(text):
    def f(rng, files, victim):
        d = os.path.dirname(victim)
        files[os.path.join(d, "zqvinc.frugal")] = VFAR
        files[victim] = 'include "zqvinc.frugal"\n' + files[victim] + "\n" + VNEAR + text + "\n"
    return f


VALID = [
    ("v_extends_chain", _append("service ZqBase {}\nservice ZqMid extends ZqBase {}\n"
                                "service ZqTop extends ZqMid { void zqPing() }"), None),
    ("v_extends_include", _with_far("service ZqNear extends zqinc.ZqFar { void zqNear() throws (1: zqinc.ZqFarErr a, "
                                    "2: zqinc.ZqFarAlias b) }"), None),
    ("v_throws_typedef", _append("exception ZqErr {}\ntypedef ZqErr ZqErrT\ntypedef ZqErrT ZqErrTT\n"
                                 "service ZqThrower { void zqT() throws (1: ZqErr a, 2: ZqErrTT b) }"), None),
    ("v_const_refs", _with_far("const zqinc.ZqColor zqc = zqinc.ZqColor.GREEN\nconst i32 zqd = zqinc.zqFarConst\n"
                               "enum ZqLocal { A, B }\nconst ZqLocal zql = ZqLocal.B\nconst i32 zqe = zqd"), None),
    ("v_typedef_chain", _append("typedef i32 ZqT1\ntypedef ZqT3 ZqT4\ntypedef ZqT2 ZqT3\ntypedef ZqT1 ZqT2\n"
                                "typedef map<string, list<ZqT4>> ZqT5\nstruct ZqUses { 1: ZqT5 a, 2: ZqT4 b }"), None),
    ("v_same_name_off_chain", _same_name_off_chain, None),
    ("v_include_diamond", _diamond, None),
    ("v_values_base", _values('const i8 zq1 = -128\nconst byte zq2 = 127\nconst i16 zq3 = 32767\nconst i32 zq4 = -2147483648\n'
                              'const i64 zq5 = 9223372036854775807\nconst double zq6 = 7\nconst double zq7 = -1.5e3\n'
                              'const string zq8 = "s"\nconst binary zq9 = \'b\'\nconst bool zq10 = false\nconst ZqInt2 zq11 = 2147483647\n'
                              'const zqvinc.ZqShort zq12 = -32768'), None),
    ("v_values_containers", _values('const list<i32> zq1 = []\nconst set<string> zq2 = ["a", "b"]\nconst map<string, list<i32>> zq3 = {"a": [1, 2], "b": []}\n'
                                    'const ZqTable zq4 = {"k": [1], zqStr: zqL}\nconst map<i32, map<i32, bool>> zq5 = {1: {2: true}}\n'
                                    'const map<ZqE, string> zq6 = {ZqE.A: "a", 5: "b"}\nconst zqvinc.ZqColors zq7 = [1, zqvinc.ZqColor.GREEN, 2]\n'
                                    'const list<ZqS> zq8 = [{"a": 1}, zqStruct, {}]\nconst map<string, string> zq9 = {}'), None),
    ("v_values_enums", _values('const ZqE zq1 = 5\nconst ZqE2 zq2 = ZqE.A\nconst ZqE2 zq3 = 1\nconst zqvinc.ZqColor zq4 = zqvinc.ZqColor.RED\n'
                               'const zqvinc.ZqColor zq5 = 2\nconst ZqE zq6 = zqEn'), None),
    ("v_values_structs", _values('const ZqS zq1 = {"a": 1, "s": "t", "l": [1, 2], "inner": {"n": 1, "e": ZqE.B}, "far": {"a": 2, "l": ["x"], "c": 1}, '
                                 '"tiny": [-128, 127], "d": 1, "b": "bin", "flag": true}\n'
                                 'const ZqS2 zq2 = {a: zqOne, s: zqStr, nosuchfield: [1, "two", zqnope], "alsonot": 5}\n'
                                 'const zqvinc.ZqFarT zq3 = {"a": zqvinc.zqFarInt, "c": zqvinc.ZqColor.GREEN}\n'
                                 'const zqvinc.ZqFarU zq4 = {"s": "u"}\nconst zqvinc.ZqFarX zq5 = {"m": zqvinc.zqFarStr}\n'
                                 'const zqvinc.ZqFarS zq6 = zqvinc.zqFarStruct'), None),
    ("v_values_refs", _values('const i64 zq1 = zqOne\nconst i8 zq2 = zqBig\nconst double zq3 = zqOne\nconst double zq4 = zqHalf\n'
                              'const binary zq5 = zqStr\nconst bool zq6 = zqYes\nconst list<i64> zq7 = zqL\nconst list<i32> zq8 = zqvinc.zqFarList\n'
                              'const ZqS2 zq9 = zqStruct\nconst i32 zq10 = zq11\nconst i32 zq11 = 4'), None),
    ("v_values_defaults", _values('struct ZqD { 1: i32 a = 1, 2: optional string s = "x", 3: ZqInts l = [1], 4: ZqE e = ZqE.A, 5: ZqE2 e2 = 5, '
                                  '6: ZqIn inner = {"n": 2}, 7: zqvinc.ZqFarT far = {"c": 2}, 8: double d = zqOne, 9: map<string, i32> m = {"a": zqOne}, 10: bool b = zqYes }\n'
                                  'union ZqDU { 1: i32 a = 1, 2: string s = "u" }\nexception ZqDX { 1: string m = "boom", 2: i16 code = -1 }\n'
                                  'service ZqDSv { void f(1: i32 a = 5, 2: list<string> l = ["a"], 3: ZqS s = {"a": 1}) throws (1: ZqDX x = {"code": 3}) }'), None),
    ("v_same_ids_other_structs", _append("struct ZqP { 1: i32 a }\nstruct ZqQ { 1: i32 a }\n"
                                         "service ZqTwo { void f(1: i32 a) void g(1: i32 a) }"), None),
]

INVALID = [
    ("dangling_field", _append("struct ZqS { 1: NoSuchTypeZq a }"), r"Invalid type NoSuchTypeZq on struct ZqS$"),
    ("dangling_include_type", _append("struct ZqS { 1: zqnoinc.T a }"), r"Invalid type zqnoinc\.T on struct ZqS$"),
    ("dangling_far_name", _with_far("struct ZqS { 1: zqinc.Nope a }"), r"Invalid type zqinc\.Nope on struct ZqS$"),
    ("dangling_in_container", _append("union ZqU { 1: list<map<string, NoSuchTypeZq>> a }"),
     r"Invalid type list<map<string,NoSuchTypeZq>> on struct ZqU$"),
    ("dangling_exception_field", _append("exception ZqX { 1: set<NoSuchTypeZq> a }"),
     r"Invalid type set<NoSuchTypeZq> on struct ZqX$"),
    ("dangling_typedef", _append("typedef NoSuchTypeZq ZqT"), r"Invalid alias ZqT, type NoSuchTypeZq doesn't exist$"),
    ("dangling_const", _append("const NoSuchTypeZq zqc = 1"), r"Invalid type NoSuchTypeZq$"),
    ("dangling_return", _append("service ZqSv { NoSuchTypeZq f() }"), r"Invalid return type NoSuchTypeZq for ZqSv\.f$"),
    ("dangling_arg", _append("service ZqSv { void f(1: NoSuchTypeZq a) }"), r"Invalid argument type NoSuchTypeZq for ZqSv\.f$"),
    ("dangling_throws", _append("service ZqSv { void f() throws (1: NoSuchTypeZq a) }"),
     r"Invalid exception type NoSuchTypeZq for ZqSv\.f$"),
    ("dangling_op", _append("scope ZqSc { op: NoSuchTypeZq }"), r"Invalid operation type NoSuchTypeZq for ZqSc\.op$"),
    ("bare_container", _append("struct ZqS { 1: list a }"), r"Invalid type list<<nil>> on struct ZqS$"),
    ("cyclic_typedef", _append("typedef ZqB ZqA\ntypedef ZqA ZqB"), r"Circular typedef ZqA$"),
    ("cyclic_typedef_3", _append("typedef i32 ZqOk\ntypedef ZqB ZqA\ntypedef ZqC ZqB\ntypedef list<ZqA> ZqC\ntypedef ZqOk ZqD"),
     r"Circular typedef ZqA$"),
    ("self_typedef", _append("typedef ZqA ZqA"), r"Circular typedef ZqA$"),
    ("typedef_depends_on_cycle", _append("typedef ZqA ZqZ\ntypedef ZqB ZqA\ntypedef ZqA ZqB"), r"Circular typedef ZqZ$"),
    ("cyclic_typedef_two_files", _typedef_two_files, r"Circular include: \["),
    ("cyclic_typedef_two_files_no_include", _typedef_two_files_noinc, r"Invalid alias T, type zqa\.T doesn't exist$"),
    ("dup_field_id", _append("struct ZqS { 1: i32 a, 2: i32 b, 1: i32 c }"), r"Duplicate field id 1 in struct ZqS$"),
    ("dup_field_id_union", _append("union ZqU { 7: i32 a, 7: string b }"), r"Duplicate field id 7 in struct ZqU$"),
    ("dup_field_id_exception", _append("exception ZqX { 3: i32 a, 3: string b }"), r"Duplicate field id 3 in struct ZqX$"),
    ("dup_field_id_negative", _append("struct ZqS { -4: i32 a, -4: i32 b }"), r"Duplicate field id -4 in struct ZqS$"),
    ("dup_field_name", _append("struct ZqS { 1: i32 a, 2: string a }"), r"Duplicate field name a in struct ZqS$"),
    ("dup_arg_id", _append("service ZqSv { void f(1: i32 a, 1: i32 b) }"), r"Duplicate field id 1 in method ZqSv\.f$"),
    ("dup_arg_name", _append("service ZqSv { void f(1: i32 a, 2: i32 a) }"), r"Duplicate field name a in method ZqSv\.f$"),
    ("dup_throws_id", _append("exception ZqX {}\nservice ZqSv { void f() throws (1: ZqX a, 1: ZqX b) }"),
     r"Duplicate field id 1 in method ZqSv\.f$"),
    ("dup_throws_name", _append("exception ZqX {}\nservice ZqSv { void f() throws (1: ZqX a, 2: ZqX a) }"),
     r"Duplicate field name a in method ZqSv\.f$"),
    ("oneway_return", _append("service ZqSv { oneway i32 f() }"), r"Void method ZqSv\.f cannot return i32$"),
    ("oneway_return_container", _append("service ZqSv { oneway map<string, list<i32>> f() }"),
     r"Void method ZqSv\.f cannot return map<string,list<i32>>$"),
    ("oneway_throws", _append("exception ZqX {}\nservice ZqSv { oneway void f() throws (1: ZqX a) }"),
     r"Oneway method ZqSv\.f cannot throw an exception$"),
    ("throws_struct", _append("struct ZqS { 1: i32 a }\nservice ZqSv { void f() throws (1: ZqS a) }"),
     r"Invalid exception type ZqS for ZqSv\.f: not an exception$"),
    ("throws_union", _append("union ZqU { 1: i32 a }\nservice ZqSv { void f() throws (1: ZqU a) }"),
     r"Invalid exception type ZqU for ZqSv\.f: not an exception$"),
    ("throws_enum", _append("enum ZqE { A }\nservice ZqSv { void f() throws (1: ZqE a) }"),
     r"Invalid exception type ZqE for ZqSv\.f: not an exception$"),
    ("throws_base", _append("service ZqSv { void f() throws (1: i32 a) }"),
     r"Invalid exception type i32 for ZqSv\.f: not an exception$"),
    ("throws_container", _append("exception ZqX {}\nservice ZqSv { void f() throws (1: list<ZqX> a) }"),
     r"Invalid exception type list for ZqSv\.f: not an exception$"),
    ("throws_typedef_of_struct", _append("struct ZqS {}\ntypedef ZqS ZqT\ntypedef ZqT ZqTT\nservice ZqSv { void f() throws (1: ZqTT a) }"),
     r"Invalid exception type ZqTT for ZqSv\.f: not an exception$"),
    ("throws_far_struct", _with_far("service ZqSv { void f() throws (1: zqinc.ZqFarS a) }"),
     r"Invalid exception type zqinc\.ZqFarS for ZqSv\.f: not an exception$"),
    ("extends_missing", _append("service ZqSv extends ZqNope { void f() }"), r"Invalid extends ZqNope for service ZqSv$"),
    ("extends_missing_include", _append("service ZqSv extends zqnoinc.X { void f() }"),
     r"Invalid extends zqnoinc\.X for service ZqSv$"),
    ("extends_missing_far_service", _with_far("service ZqSv extends zqinc.ZqNope { void f() }"),
     r"Invalid extends zqinc\.ZqNope for service ZqSv$"),
    ("extends_three_parts", _with_far("service ZqSv extends zqinc.ZqFar.x { void f() }"),
     r"Invalid extends zqinc\.ZqFar\.x for service ZqSv$"),
    ("extends_parent_dangling", _append("service ZqA extends ZqB {}\nservice ZqB extends ZqNope {}"),
     r"Invalid extends ZqNope for service ZqB$"),
    ("extends_self", _append("service ZqSv extends ZqSv { void f() }"), r"Circular extends ZqSv$"),
    ("extends_cycle_2", _append("service ZqA extends ZqB {}\nservice ZqB extends ZqA {}"), r"Circular extends ZqA$"),
    ("extends_cycle_3", _append("service ZqA extends ZqB {}\nservice ZqB extends ZqC {}\nservice ZqC extends ZqA {}"),
     r"Circular extends ZqA$"),
    ("extends_into_cycle", _append("service ZqZ extends ZqA {}\nservice ZqA extends ZqB {}\nservice ZqB extends ZqA {}"),
     r"Circular extends ZqZ$"),
    ("include_cycle", _include_cycle, r"Circular include: \["),
    ("include_same_name_other_dir", _same_name_other_dir,
     r"Duplicate file name (\w+): \S*zqsub/\1\.frugal is included by way of \S*\1\.frugal \(includes and generated code are named after the file name\)$"),
    ("include_same_name_cycle", _same_name_cycle, r"Duplicate file name (\w+): \S*zqsub/\1\.frugal is included by way of "),
    ("include_same_name_via_third", _same_name_via_third, r"Include zqmid\.frugal: Include zqsub/(\w+)\.frugal: Duplicate file name \1: "),
    ("include_self_other_spelling", _self_by_other_spelling, r"Include zqnodir/\.\./(\w+)\.frugal: Circular include: \[(\w+ )*\1 \1\]$"),
    ("include_self", lambda rng, files, victim: files.__setitem__(victim, 'include "%s"\n' % os.path.basename(victim) + files[victim]),
     r"Circular include: \["),
    ("include_missing", _append('include "zqnothere.frugal"'), r"open .*zqnothere\.frugal: no such file or directory$"),
    ("include_bad_ext", _append('include "zqx.txt"'), r"Bad include name: zqx\.txt$"),
    ("include_dup", _with_far('include "zqinc.frugal"'), r"Duplicate include: zqinc$"),
    ("dup_service", _append("service ZqSv {}\nservice ZqSv {}"), r"Duplicate service name ZqSv$"),
    ("case_conflict_service", _append("service zqSv {}\nservice ZqSv {}"), r"Services ZqSv and zqSv conflict\."),
    ("dup_method", _append("service ZqSv { void f() void f() }"), r"Duplicate method name f$"),
    ("case_conflict_method", _append("service ZqSv { void foo() void Foo() }"), r"Methods Foo and foo conflict\."),
    ("dup_scope", _append("struct ZqE {}\nscope ZqSc { x: ZqE }\nscope ZqSc { y: ZqE }"), r"Duplicate scope name ZqSc$"),
    ("case_conflict_scope", _append("struct ZqE {}\nscope ZqSc { x: ZqE }\nscope zqSc { y: ZqE }"), r"Scopes zqSc and ZqSc conflict\."),
    ("dup_prefix_variable", _append("struct ZqE {}\nscope ZqSc prefix a.{zone}.b.{zone} { x: ZqE }"),
     r"Duplicate prefix variable zone in scope ZqSc$"),
    ("dup_prefix_variable_after_valid", _append("struct ZqE {}\nscope ZqSc prefix p.{uu}.{vv}.{uu} { x: NoSuchTypeZq }"),
     r"Duplicate prefix variable uu in scope ZqSc$"),
    ("dup_op", _append("struct ZqE {}\nscope ZqSc { x: ZqE, x: ZqE }"), r"Duplicate operation name x$"),
    ("case_conflict_op", _append("struct ZqE {}\nscope ZqSc { xy: ZqE, Xy: ZqE }"), r"Operations Xy and xy conflict\."),
    ("wildcard_vendor", _append('namespace * zqfoo (vendor="x")'), r'"vendor" annotation not compatible with \* namespace$'),
    ("const_ref_1", _append("const i32 zqa = zqnope"), r"Referenced constant zqnope not found$"),
    ("const_ref_2_include", _append("const i32 zqa = zqnoinc.b"), r"Include zqnoinc not found$"),
    ("const_ref_2_far", _with_far("const i32 zqa = zqinc.nope"), r"Referenced constant nope from include zqinc not found$"),
    ("const_ref_3", _with_far("const i32 zqa = zqinc.ZqColor.BLUE"), r"Invalid constant name zqinc\.ZqColor\.BLUE$"),
    ("const_ref_3_noinc", _append("const i32 zqa = zqnoinc.E.V"), r"Invalid constant name zqnoinc\.E\.V$"),
    ("const_ref_4", _append("const i32 zqa = x.y.z.w"), r"Invalid constant name x\.y\.z\.w$"),
]

# values which do not conform to the declared type (repaired C11-K13): (name, declarations, regex of the diagnostic)
def _iv(what, expected, got):
    return r"Invalid value for %s: expected %s, got %s$" % (what, expected, got)


VALUE_MISMATCH = [
    # literals of the wrong kind for every base type
    ("const_string_for_int", 'const i32 zqx = "hello"', _iv("constant zqx", "i32", "a string")),
    ("const_double_for_int", "const i64 zqx = 1.5", _iv("constant zqx", "i64", "a double")),
    ("const_bool_for_int", "const i16 zqx = true", _iv("constant zqx", "i16", "a bool")),
    ("const_list_for_int", "const i8 zqx = [1]", _iv("constant zqx", "i8", "a list")),
    ("const_map_for_int", "const byte zqx = {}", _iv("constant zqx", "byte", "a map")),
    ("const_int_for_bool", "const bool zqx = 1", _iv("constant zqx", "bool", "integer 1")),
    ("const_string_for_bool", 'const bool zqx = "true"', _iv("constant zqx", "bool", "a string")),
    ("const_string_for_double", 'const double zqx = "1.5"', _iv("constant zqx", "double", "a string")),
    ("const_bool_for_double", "const double zqx = false", _iv("constant zqx", "double", "a bool")),
    ("const_int_for_string", "const string zqx = 7", _iv("constant zqx", "string", "integer 7")),
    ("const_double_for_binary", "const binary zqx = 7.5", _iv("constant zqx", "binary", "a double")),
    ("const_list_for_string", 'const string zqx = ["a"]', _iv("constant zqx", "string", "a list")),
    ("const_typedef_wrong_kind", 'const ZqInt2 zqx = "one"', _iv("constant zqx", "i32", "a string")),
    # integers out of the range of the type
    ("const_i8_high", "const i8 zqx = 128", _iv("constant zqx", "i8", "integer 128")),
    ("const_byte_low", "const byte zqx = -129", _iv("constant zqx", "byte", "integer -129")),
    ("const_i16_high", "const i16 zqx = 32768", _iv("constant zqx", "i16", "integer 32768")),
    ("const_i32_low", "const i32 zqx = -2147483649", _iv("constant zqx", "i32", "integer -2147483649")),
    ("const_typedef_range", "const zqvinc.ZqShort zqx = 40000", _iv("constant zqx", "i16", "integer 40000")),
    ("const_set_element_range", "const ZqS zqx = {\"tiny\": [1, 300]}", _iv("constant zqx", "i8", "integer 300")),
    # containers
    ("const_int_for_list", "const list<i32> zqx = 5", _iv("constant zqx", "list<i32>", "integer 5")),
    ("const_map_for_list", 'const list<string> zqx = {"a": "b"}', _iv("constant zqx", "list<string>", "a map")),
    ("const_string_for_set", 'const set<string> zqx = "a"', _iv("constant zqx", "set<string>", "a string")),
    ("const_list_for_map", "const map<string, i32> zqx = [1, 2]", _iv("constant zqx", "map<string,i32>", "a list")),
    ("const_int_for_typedef_list", "const ZqInts zqx = 1", _iv("constant zqx", "list<ZqInt2>", "integer 1")),
    ("const_bad_element", 'const list<i32> zqx = [1, "two", 3]', _iv("constant zqx", "i32", "a string")),
    ("const_bad_nested_element", 'const list<list<i32>> zqx = [[1], [2, [3]]]', _iv("constant zqx", "i32", "a list")),
    ("const_bad_map_key", 'const map<i32, string> zqx = {1: "a", "b": "b"}', _iv("constant zqx", "i32", "a string")),
    ("const_bad_map_value", 'const map<string, i32> zqx = {"a": 1, "b": "c"}', _iv("constant zqx", "i32", "a string")),
    ("const_bad_typedef_table", 'const ZqTable zqx = {"k": [1, true]}', _iv("constant zqx", "i32", "a bool")),
    ("const_nested_dangling_ref", "const list<i32> zqx = [zqnope]", r"Referenced constant zqnope not found$"),
    ("const_nested_dangling_include", "const map<string, i32> zqx = {\"a\": zqnoinc.k}", r"Include zqnoinc not found$"),
    ("const_nested_dangling_far", "const list<i32> zqx = [zqvinc.nope]", r"Referenced constant nope from include zqvinc not found$"),
    ("const_nested_bad_enum_ref", "const list<zqvinc.ZqColor> zqx = [zqvinc.ZqColor.BLUE]", r"Invalid constant name zqvinc\.ZqColor\.BLUE$"),
    # enums
    ("const_enum_undeclared_number", "const ZqE zqx = 7", _iv("constant zqx", "ZqE", "integer 7")),
    ("const_enum_string", 'const ZqE zqx = "A"', _iv("constant zqx", "ZqE", "a string")),
    ("const_enum_typedef_number", "const ZqE2 zqx = 2", _iv("constant zqx", "ZqE", "integer 2")),
    ("const_enum_other_enum", "const ZqE zqx = ZqF.A", _iv("constant zqx", "ZqE", r"identifier ZqF\.A")),
    ("const_enum_far_number", "const zqvinc.ZqColor zqx = 3", _iv("constant zqx", r"zqvinc\.ZqColor", "integer 3")),
    ("const_enum_value_for_int", "const i32 zqx = ZqE.A", _iv("constant zqx", "i32", r"identifier ZqE\.A")),
    ("const_enum_far_for_near", "const ZqE zqx = zqvinc.ZqColor.RED", _iv("constant zqx", "ZqE", r"identifier zqvinc\.ZqColor\.RED")),
    ("const_enum_map", "const ZqE zqx = {}", _iv("constant zqx", "ZqE", "a map")),
    # structs
    ("const_int_for_struct", "const ZqS zqx = 5", _iv("constant zqx", "ZqS", "integer 5")),
    ("const_list_for_struct", "const ZqS2 zqx = []", _iv("constant zqx", "ZqS", "a list")),
    ("const_struct_bad_field", 'const ZqS zqx = {"a": "one"}', _iv("constant zqx", "i32", "a string")),
    ("const_struct_bad_ident_key_field", "const ZqS zqx = {s: 1}", _iv("constant zqx", "string", "integer 1")),
    ("const_struct_int_key", "const ZqS zqx = {1: 2}", r"Invalid value for constant zqx: expected a field name of ZqS, got integer 1$"),
    ("const_struct_list_key", 'const ZqS zqx = {["a"]: 2}', r"Invalid value for constant zqx: expected a field name of ZqS, got a list$"),
    ("const_struct_nested_bad", 'const ZqS zqx = {"inner": {"n": "x"}}', _iv("constant zqx", "i32", "a string")),
    ("const_struct_nested_enum_bad", 'const ZqS zqx = {"inner": {"e": 3}}', _iv("constant zqx", "ZqE", "integer 3")),
    ("const_struct_far_bad", 'const ZqS zqx = {"far": {"l": [1]}}', _iv("constant zqx", "string", "integer 1")),
    ("const_struct_far_enum_bad", 'const zqvinc.ZqFarT zqx = {"c": ZqE.A}', _iv("constant zqx", "ZqColor", r"identifier ZqE\.A")),
    ("const_union_bad", 'const zqvinc.ZqFarU zqx = {"i": "s"}', _iv("constant zqx", "i32", "a string")),
    ("const_exception_bad", 'const zqvinc.ZqFarX zqx = {"m": 1}', _iv("constant zqx", "string", "integer 1")),
    ("const_list_of_struct_bad", 'const list<ZqS> zqx = [{"a": 1}, 2]', _iv("constant zqx", "ZqS", "integer 2")),
    # identifiers naming a constant of another kind
    ("const_ref_int_for_string", "const string zqx = zqOne", _iv("constant zqx", "string", "identifier zqOne")),
    ("const_ref_string_for_int", "const i32 zqx = zqStr", _iv("constant zqx", "i32", "identifier zqStr")),
    ("const_ref_double_for_int", "const i32 zqx = zqHalf", _iv("constant zqx", "i32", "identifier zqHalf")),
    ("const_ref_int_for_bool", "const bool zqx = zqOne", _iv("constant zqx", "bool", "identifier zqOne")),
    ("const_ref_list_for_set", "const set<i32> zqx = zqL", _iv("constant zqx", "set<i32>", "identifier zqL")),
    ("const_ref_list_for_int", "const i32 zqx = zqL", _iv("constant zqx", "i32", "identifier zqL")),
    ("const_ref_struct_for_list", "const ZqInts zqx = zqStruct", _iv("constant zqx", "list<ZqInt2>", "identifier zqStruct")),
    ("const_ref_enum_const_for_int", "const i32 zqx = zqEn", _iv("constant zqx", "i32", "identifier zqEn")),
    ("const_ref_int_for_enum", "const ZqE zqx = zqOne", _iv("constant zqx", "ZqE", "identifier zqOne")),
    ("const_ref_far_struct_for_near", "const ZqS zqx = zqvinc.zqFarStruct", _iv("constant zqx", "ZqS", r"identifier zqvinc\.zqFarStruct")),
    ("const_ref_far_string_for_int", "const list<i32> zqx = [zqvinc.zqFarStr]", _iv("constant zqx", "i32", r"identifier zqvinc\.zqFarStr")),
    ("const_ref_in_struct", 'const ZqS zqx = {"s": zqOne}', _iv("constant zqx", "string", "identifier zqOne")),
    # default values
    ("default_string_for_int", 'struct ZqD { 1: i32 a = "x" }', _iv("field a of struct ZqD", "i32", "a string")),
    ("default_int_for_list", "struct ZqD { 1: i32 ok = 1, 2: list<i32> a = 5 }", _iv("field a of struct ZqD", "list<i32>", "integer 5")),
    ("default_range", "struct ZqD { 1: i8 a = 1000 }", _iv("field a of struct ZqD", "i8", "integer 1000")),
    ("default_enum_number", "struct ZqD { 1: ZqE2 a = 9 }", _iv("field a of struct ZqD", "ZqE", "integer 9")),
    ("default_struct_bad", 'struct ZqD { 1: ZqIn a = {"n": []} }', _iv("field a of struct ZqD", "i32", "a list")),
    ("default_dangling_ref", "struct ZqD { 1: i32 a = zqnope }", r"Referenced constant zqnope not found$"),
    ("default_dangling_nested_ref", "struct ZqD { 1: list<i32> a = [1, zqnope] }", r"Referenced constant zqnope not found$"),
    ("default_ref_wrong_kind", "struct ZqD { 1: string a = zqOne }", _iv("field a of struct ZqD", "string", "identifier zqOne")),
    ("default_union", 'union ZqD { 1: i32 a, 2: string s = 1 }', _iv("field s of struct ZqD", "string", "integer 1")),
    ("default_exception", 'exception ZqD { 1: string m = ["x"] }', _iv("field m of struct ZqD", "string", "a list")),
    ("default_argument", 'service ZqDSv { void f(1: i32 a = "x") }', _iv(r"field a of method ZqDSv\.f", "i32", "a string")),
    ("default_argument_container", "service ZqDSv { void g() void f(1: i32 ok = 1, 2: map<string, i32> a = {\"k\": \"v\"}) }",
     _iv(r"field a of method ZqDSv\.f", "i32", "a string")),
    ("default_throws", 'exception ZqDX {}\nservice ZqDSv { void f() throws (1: ZqDX x = 5) }',
     _iv(r"field x of method ZqDSv\.f", "ZqDX", "integer 5")),
    ("default_far_struct", 'struct ZqD { 1: zqvinc.ZqFarT a = {"a": "x"} }', _iv("field a of struct ZqD", "i32", "a string")),
]
INVALID += [(n, _values(text), rx) for n, text, rx in VALUE_MISMATCH]

# invalid programs validation is known to accept (known_findings.json; the signature is given to ctx.violation so that
# exactly this is reported as KNOWN-FINDING): constants defined in terms of each other in a circle -- every reference
# names a constant of the right kind, the generators write the references out (Go: initialization cycle)
KNOWN_ACCEPTED = {
    "const_ref_cycle": {"class": "invalid_accepted", "kind": "const_ref_cycle"},
}
INVALID += [
    ("const_ref_cycle", _append("const i32 zqca = zqcb\nconst i32 zqcb = zqcc\nconst i32 zqcc = zqca"), r"[Cc]ircular"),
]


def reachable(files, main):
    """files reachable from main through include statements (textual scan; the generators write one
    include per line)"""
    seen, todo = [], [main]
    while todo:
        n = todo.pop()
        if n in seen or n not in files:
            continue
        seen.append(n)
        for m in re.finditer(r'^\s*include\s+"([^"]+)"', files[n], re.M):
            todo.append(os.path.normpath(os.path.join(os.path.dirname(n), m.group(1))))
    return seen


def make_case(rng, idx, quota):
    """one program: valid base (c11_idlgen) + one mutation"""
    size = rng.choice([0.3, 0.5, 0.8, 1.2])
    base = G.valid_program(rng, exotic=False, size=size)
    files = dict(base["files"])
    main = base["main"]
    pool = VALID + INVALID
    # every mutation at least once per run, then at random; a share of untouched and text-mutated programs
    if idx < len(pool):
        name, fn, expect = pool[idx]
    else:
        r = rng.random()
        if r < 0.10:
            return {"files": files, "main": main, "mutation": "none", "expect": None, "victim": None}
        if r < 0.22:
            victim = rng.choice(sorted(files))
            data, how = G.mutate(rng, files[victim])
            if isinstance(data, bytes):
                data = data.decode("latin1")
            files[victim] = data
            return {"files": files, "main": main, "mutation": "text:" + how, "expect": "ANY", "victim": victim}
        name, fn, expect = rng.choice(pool)
    victim = rng.choice(reachable(files, main))
    fn(rng, files, victim)
    # a second, independent valid addition now and then (more services / typedefs around the defect)
    if rng.random() < 0.3:
        n2, f2, _ = rng.choice([v for v in VALID if v[0] in ("v_extends_chain", "v_throws_typedef", "v_typedef_chain",
                                                                 "v_same_ids_other_structs")])
        if n2 != name:
            f2(rng, files, victim)
    return {"files": files, "main": main, "mutation": name, "expect": expect, "victim": victim}


# ------------------------------------------------------------------------------------------------
# the facts the generators rely on, recomputed on an accepted tree (no model): direct oracle

def _b(h):
    return bytes.fromhex(h).decode("latin1")


class Node:
    def __init__(self, t):
        self.name = _b(t[0])
        fr = t[1]
        self.typedefs = {}
        for td in fr[2]:
            self.typedefs[_b(td[1])] = td[2]          # last declaration wins
        self.enums = {_b(e[1]) for e in fr[4]}
        self.structs = {_b(s[1]) for s in fr[5]}
        self.exceptions = {_b(s[1]) for s in fr[6]}
        self.unions = {_b(s[1]) for s in fr[7]}
        self.services = {_b(s[1]): _b(s[2]) for s in fr[8]}
        self.fr = fr
        self.incs = {_b(k): Node(sub) for k, sub in t[2]}

    def names(self):
        return self.enums | self.structs | self.exceptions | self.unions | set(self.typedefs)


def all_types(fr):
    for td in fr[2]:
        yield "typedef", td[2]
    for c in fr[3]:
        yield "const", c[2]
    for group in (fr[5], fr[6], fr[7]):
        for s in group:
            for f in s[2]:
                yield "field", f[4]
    for sv in fr[8]:
        for m in sv[3]:
            for r in m[3]:
                yield "return", r
            for f in m[4]:
                yield "arg", f[4]
            for f in m[5]:
                yield "throws", f[4]
    for sc in fr[9]:
        for o in sc[3]:
            yield "op", o[2]


def resolves(node, t):
    n = _b(t[0])
    if n in BASE:
        return True
    if n in ("list", "set"):
        return len(t[2]) == 1 and resolves(node, t[2][0])
    if n == "map":
        return len(t[1]) == 1 and len(t[2]) == 1 and resolves(node, t[1][0]) and resolves(node, t[2][0])
    if "." in n:
        inc, pn = n.split(".", 1)
        if inc != "":
            return inc in node.incs and pn in node.incs[inc].names()
        n = pn
    return n in node.names()


def chain_end(node, t, budget=200):
    """follow typedefs, each in the file that declares it; returns (node, name) of the end or None"""
    while budget > 0:
        budget -= 1
        n = _b(t[0])
        if n in BASE or n in CONTAINERS:
            return node, n
        if "." in n and n.split(".", 1)[0] != "":
            inc, pn = n.split(".", 1)
            if inc not in node.incs:
                return node, n
            node, n = node.incs[inc], pn
        elif "." in n:
            n = n.split(".", 1)[1]
        if n in node.typedefs:
            t = node.typedefs[n]
            continue
        return node, n
    return None


def soundness(tree):
    """list of (fact, detail) that do NOT hold on an accepted tree"""
    bad = []

    def walk(node):
        for where, t in all_types(node.fr):
            if not resolves(node, t):
                bad.append(("type_resolves", "%s %s in file %s" % (where, _b(t[0]), node.name)))
                continue
            end = chain_end(node, t)
            if end is None:
                bad.append(("typedef_chain_ends", "%s in file %s" % (_b(t[0]), node.name)))
            elif where == "throws":
                en, nm = end
                if nm not in en.exceptions:
                    bad.append(("throws_is_exception", "%s in file %s ends in %s" % (_b(t[0]), node.name, nm)))
        for sv, ext in node.services.items():
            seen, cur_node, cur = set(), node, sv
            while True:
                e = cur_node.services.get(cur)
                if e is None:
                    bad.append(("extends_resolves", "service %s of file %s: %s not found" % (sv, node.name, cur)))
                    break
                if e == "":
                    break
                if (id(cur_node), cur) in seen:
                    bad.append(("extends_acyclic", "service %s of file %s" % (sv, node.name)))
                    break
                seen.add((id(cur_node), cur))
                parts = e.split(".")
                if len(parts) == 2:
                    if parts[0] not in cur_node.incs:
                        bad.append(("extends_resolves", "service %s of file %s: include %s" % (sv, node.name, parts[0])))
                        break
                    cur_node, cur = cur_node.incs[parts[0]], parts[1]
                else:
                    cur = e
        for sub in node.incs.values():
            walk(sub)
    walk(Node(tree))
    return bad


# ------------------------------------------------------------------------------------------------

def run_harness(reqs, timeout=900):
    data = "".join(json.dumps(r) + "\n" for r in reqs)
    p = subprocess.run([VH], input=data.encode(), stdout=subprocess.PIPE, stderr=subprocess.PIPE, timeout=timeout)
    lines = [l for l in p.stdout.decode().split("\n") if l.strip()]
    out = [json.loads(l) for l in lines]
    while len(out) < len(reqs):
        out.append({"code": 104, "died": p.stderr.decode()[-800:]})
    return out


def run(ctx, quick):
    rng = ctx.rng
    n = 230 if quick else 1700
    cases = [make_case(rng, i, n) for i in range(n)]
    wd = os.path.join(ctx.rundir, "validate")
    reqs = [{"op": "validate", "dir": os.path.join(wd, str(i)), "files": c["files"], "main": c["main"]}
            for i, c in enumerate(cases)]
    resps = run_harness(reqs)

    viol = 0
    jcases, jsrc = [], []
    hist, outcome = {}, {"accepted": 0, "rejected": 0}
    facts_checked = 0
    err_classes = {}
    for c, r in zip(cases, resps):
        kind = c["mutation"].split(":")[0]
        hist[kind] = hist.get(kind, 0) + 1
        rep = {"kind": "validate", "mutation": c["mutation"], "mutated_file": c["victim"], "files": c["files"],
               "main": c["main"], "observed": {k: r.get(k) for k in ("code", "parse_ok", "parse_err", "link_err", "panic", "died")}}
        if r.get("code") != 0:
            viol += 1
            ctx.violation("C11 oracle: parsing/validation crashed or hung on %s: %s" %
                          (c["mutation"], (r.get("panic") or r.get("died") or "hang")[:300]), rep)
            continue
        ok = r["parse_ok"]
        outcome["accepted" if ok else "rejected"] += 1
        err = r.get("parse_err", "")
        if not ok:
            m = re.search(r"(?:Include [^:]*: )*(\S+(?: \S+)?)", err)
            key = m.group(1) if m else "?"
            err_classes[key] = err_classes.get(key, 0) + 1
        # harness self-check: the step-by-step replay ends as ParseFrugal does
        if (r.get("link_err") or "") != err:
            viol += 1
            ctx.violation("C11 harness self-check: step-by-step parseFrugal ends differently from ParseFrugal", rep)
        exp = c["expect"]
        if exp is None and not ok:
            viol += 1
            ctx.violation("C11 oracle: valid program (%s) rejected: %s" % (c["mutation"], err[:300]), rep)
        elif exp not in (None, "ANY"):
            if ok:
                viol += 1
                ctx.violation("C11 oracle: invalid input (%s) accepted by validation" % c["mutation"], rep,
                              signature=KNOWN_ACCEPTED.get(c["mutation"]))
            elif not re.search(exp, err):
                viol += 1
                ctx.violation("C11 oracle: %s rejected with an unexpected diagnostic: %s" % (c["mutation"], err[:300]), rep)
        if ok:
            bad = soundness(r["vtree"])
            facts_checked += 1
            for fact, detail in bad:
                viol += 1
                ctx.violation("C11 oracle: accepted program violates %s: %s" % (fact, detail), rep)
        # judge cases
        for call in r.get("calls", []):
            code = 0 if call.get("ok") else (100 if call.get("panic") else 1)
            jcases.append([1, c10_gen.from_json(call["tree"]), code, (call.get("err") or "").encode("latin1", "replace")])
            jsrc.append(("validate_call", c, r, call))
        entries = []
        for e in r.get("entries", []):
            if e.get("ok"):
                entries.append([e["path"].encode(), 0, c10_gen.from_json(e["ast"])])
            else:
                entries.append([e["path"].encode(), 1, e.get("err", "").encode("utf8")])
        obs = c10_gen.from_json(r["vtree"]) if ok else err.encode("utf8")
        jcases.append([2, entries, c["main"].encode(), 0 if ok else 1, obs])
        jsrc.append(("program", c, r, None))

    verdicts = vlib.run_judge(ctx.rundir, "JCompilerValidate", "judge", jcases, shard=600000, name="jv")
    tags = {}
    mism = 0
    for (kind, c, r, call), v in zip(jsrc, verdicts):
        if v >= 0:
            tags[v] = tags.get(v, 0) + 1
            continue
        mism += 1
        rep = {"kind": kind, "no_failing_input_found": True,
               "broken": "correspondence JCompilerValidate.judge (Model/CompilerValidate.v %s disagrees with the implementation; "
                         "theorems c11_validate_total / c11_validated_* are about that function)" %
                         ("cvalidate" if kind == "validate_call" else "cparse_program"),
               "mutation": c["mutation"], "files": c["files"], "main": c["main"],
               "observed": {"parse_ok": r.get("parse_ok"), "parse_err": r.get("parse_err"),
                            "call_err": call.get("err") if call else None, "call_ok": call.get("ok") if call else None}}
        ctx.violation("C11 correspondence: validation model and implementation disagree (%s, %s)" % (kind, c["mutation"]), rep)
    cov = {
        "validate_programs": len(cases),
        "validate_accepted": outcome["accepted"],
        "validate_rejected": outcome["rejected"],
        "validate_calls_judged": sum(1 for s in jsrc if s[0] == "validate_call"),
        "validate_programs_judged": sum(1 for s in jsrc if s[0] == "program"),
        "validate_judge_mismatches": mism,
        "validate_model_branch_tags": len(tags),
        "validate_tag_histogram": {str(k): v for k, v in sorted(tags.items())},
        "validate_soundness_facts_checked_on": facts_checked,
        "validate_mutation_histogram": hist,
        "validate_diagnostics": err_classes,
        "validate_oracle_failures": viol,
    }
    distinct = len({json.dumps(c["files"], sort_keys=True) for c in cases})
    return cov, len(cases), distinct, len([v for v in verdicts if v >= 0]), viol
