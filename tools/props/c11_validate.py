"""C11, validation pass and include resolution (Model/CompilerValidate.v, Judge/JCompilerValidate.v).

Seeded programs (valid by construction, invalid by construction through one named mutation, text-mutated),
the real parser.ParseFrugal / Frugal.validate through vh_c11 "validate", a direct oracle on the observations
(accept / reject with the expected diagnostic, no crash; on every accepted tree the facts the generators rely
on, recomputed here without the model), and the Coq judge replaying the model on the same parse trees."""
import json
import os
import re
import subprocess

import vlib
from props import c11_idlgen as G
from props import c10_gen

VH = os.path.join(vlib.BIN, "vh_c11")

BASE = {"bool", "byte", "i8", "i16", "i32", "i64", "double", "string", "binary"}
CONTAINERS = {"list", "set", "map"}


# ------------------------------------------------------------------------------------------------
# mutations: (name, function(rng, files, victim) -> None (edits files), expected: None = accept | regex)

FAR = ('service ZqFar { void zqFar() }\nexception ZqFarErr { 1: string m }\ntypedef ZqFarErr ZqFarAlias\n'
       'enum ZqColor { RED, GREEN }\nconst i32 zqFarConst = 3\nstruct ZqFarS { 1: i32 a }\n')


def _append(text):
    def f(rng, files, victim):
        files[victim] = files[victim] + "\n" + text + "\n"
    return f


def _with_far(text):
    def f(rng, files, victim):
        d = os.path.dirname(victim)
        files[os.path.join(d, "zqinc.frugal")] = FAR
        files[victim] = 'include "zqinc.frugal"\n' + files[victim] + "\n" + text + "\n"
    return f


def _include_cycle(rng, files, victim):
    # the victim includes a new file which includes the victim again
    d = os.path.dirname(victim)
    files[os.path.join(d, "zqloop.frugal")] = 'include "%s"\nstruct ZqLoop {}\n' % os.path.basename(victim)
    files[victim] = 'include "zqloop.frugal"\n' + files[victim]


def _typedef_two_files(rng, files, victim):
    d = os.path.dirname(victim)
    files[os.path.join(d, "zqa.frugal")] = 'include "zqb.frugal"\ntypedef zqb.T T\n'
    files[os.path.join(d, "zqb.frugal")] = 'include "zqa.frugal"\ntypedef zqa.T T\n'
    files[victim] = 'include "zqa.frugal"\n' + files[victim] + "\nstruct ZqUse { 1: zqa.T a }\n"


def _typedef_two_files_noinc(rng, files, victim):
    d = os.path.dirname(victim)
    files[os.path.join(d, "zqa.frugal")] = 'include "zqb.frugal"\ntypedef zqb.T T\n'
    files[os.path.join(d, "zqb.frugal")] = 'typedef zqa.T T\n'
    files[victim] = 'include "zqa.frugal"\n' + files[victim] + "\nstruct ZqUse { 1: zqa.T a }\n"


def _same_name_other_dir(rng, files, victim):
    # parseFrugal detects cycles by file NAME: a file including a file of the same name in another directory
    d = os.path.dirname(victim)
    base = os.path.basename(victim)
    files[os.path.join(d, "zqsub", base)] = "struct ZqDeep {}\n"
    files[victim] = 'include "zqsub/%s"\n' % base + files[victim]


VALID = [
    ("v_extends_chain", _append("service ZqBase {}\nservice ZqMid extends ZqBase {}\n"
                                "service ZqTop extends ZqMid { void zqPing() }"), None),
    ("v_extends_include", _with_far("service ZqNear extends zqinc.ZqFar { void zqNear() throws (1: zqinc.ZqFarErr a, "
                                    "2: zqinc.ZqFarAlias b) }"), None),
    ("v_throws_typedef", _append("exception ZqErr {}\ntypedef ZqErr ZqErrT\ntypedef ZqErrT ZqErrTT\n"
                                 "service ZqThrower { void zqT() throws (1: ZqErr a, 2: ZqErrTT b) }"), None),
    ("v_const_refs", _with_far("const zqinc.ZqColor zqc = zqinc.ZqColor.GREEN\nconst i32 zqd = zqinc.zqFarConst\n"
                               "enum ZqLocal { A, B }\nconst ZqLocal zql = ZqLocal.B\nconst i32 zqe = zqd"), None),
    ("v_typedef_chain", _append("typedef i32 ZqT1\ntypedef ZqT3 ZqT4\ntypedef ZqT2 ZqT3\ntypedef ZqT1 ZqT2\n"
                                "typedef map<string, list<ZqT4>> ZqT5\nstruct ZqUses { 1: ZqT5 a, 2: ZqT4 b }"), None),
    # no cycle: a file including a different file of the same name (known finding C11-K14: rejected)
    ("v_include_same_name_other_dir", _same_name_other_dir, None),
    ("v_same_ids_other_structs", _append("struct ZqP { 1: i32 a }\nstruct ZqQ { 1: i32 a }\n"
                                         "service ZqTwo { void f(1: i32 a) void g(1: i32 a) }"), None),
]

INVALID = [
    ("dangling_field", _append("struct ZqS { 1: NoSuchTypeZq a }"), r"Invalid type NoSuchTypeZq on struct ZqS$"),
    ("dangling_include_type", _append("struct ZqS { 1: zqnoinc.T a }"), r"Invalid type zqnoinc\.T on struct ZqS$"),
    ("dangling_far_name", _with_far("struct ZqS { 1: zqinc.Nope a }"), r"Invalid type zqinc\.Nope on struct ZqS$"),
    ("dangling_in_container", _append("union ZqU { 1: list<map<string, NoSuchTypeZq>> a }"),
     r"Invalid type list<map<string,NoSuchTypeZq>> on struct ZqU$"),
    ("dangling_exception_field", _append("exception ZqX { 1: set<NoSuchTypeZq> a }"),
     r"Invalid type set<NoSuchTypeZq> on struct ZqX$"),
    ("dangling_typedef", _append("typedef NoSuchTypeZq ZqT"), r"Invalid alias ZqT, type NoSuchTypeZq doesn't exist$"),
    ("dangling_const", _append("const NoSuchTypeZq zqc = 1"), r"Invalid type NoSuchTypeZq$"),
    ("dangling_return", _append("service ZqSv { NoSuchTypeZq f() }"), r"Invalid return type NoSuchTypeZq for ZqSv\.f$"),
    ("dangling_arg", _append("service ZqSv { void f(1: NoSuchTypeZq a) }"), r"Invalid argument type NoSuchTypeZq for ZqSv\.f$"),
    ("dangling_throws", _append("service ZqSv { void f() throws (1: NoSuchTypeZq a) }"),
     r"Invalid exception type NoSuchTypeZq for ZqSv\.f$"),
    ("dangling_op", _append("scope ZqSc { op: NoSuchTypeZq }"), r"Invalid operation type NoSuchTypeZq for ZqSc\.op$"),
    ("bare_container", _append("struct ZqS { 1: list a }"), r"Invalid type list<<nil>> on struct ZqS$"),
    ("cyclic_typedef", _append("typedef ZqB ZqA\ntypedef ZqA ZqB"), r"Circular typedef ZqA$"),
    ("cyclic_typedef_3", _append("typedef i32 ZqOk\ntypedef ZqB ZqA\ntypedef ZqC ZqB\ntypedef list<ZqA> ZqC\ntypedef ZqOk ZqD"),
     r"Circular typedef ZqA$"),
    ("self_typedef", _append("typedef ZqA ZqA"), r"Circular typedef ZqA$"),
    ("typedef_depends_on_cycle", _append("typedef ZqA ZqZ\ntypedef ZqB ZqA\ntypedef ZqA ZqB"), r"Circular typedef ZqZ$"),
    ("cyclic_typedef_two_files", _typedef_two_files, r"Circular include: \["),
    ("cyclic_typedef_two_files_no_include", _typedef_two_files_noinc, r"Invalid alias T, type zqa\.T doesn't exist$"),
    ("dup_field_id", _append("struct ZqS { 1: i32 a, 2: i32 b, 1: i32 c }"), r"Duplicate field id 1 in struct ZqS$"),
    ("dup_field_id_union", _append("union ZqU { 7: i32 a, 7: string b }"), r"Duplicate field id 7 in struct ZqU$"),
    ("dup_field_id_exception", _append("exception ZqX { 3: i32 a, 3: string b }"), r"Duplicate field id 3 in struct ZqX$"),
    ("dup_field_id_negative", _append("struct ZqS { -4: i32 a, -4: i32 b }"), r"Duplicate field id -4 in struct ZqS$"),
    ("dup_field_name", _append("struct ZqS { 1: i32 a, 2: string a }"), r"Duplicate field name a in struct ZqS$"),
    ("dup_arg_id", _append("service ZqSv { void f(1: i32 a, 1: i32 b) }"), r"Duplicate field id 1 in method ZqSv\.f$"),
    ("dup_arg_name", _append("service ZqSv { void f(1: i32 a, 2: i32 a) }"), r"Duplicate field name a in method ZqSv\.f$"),
    ("dup_throws_id", _append("exception ZqX {}\nservice ZqSv { void f() throws (1: ZqX a, 1: ZqX b) }"),
     r"Duplicate field id 1 in method ZqSv\.f$"),
    ("dup_throws_name", _append("exception ZqX {}\nservice ZqSv { void f() throws (1: ZqX a, 2: ZqX a) }"),
     r"Duplicate field name a in method ZqSv\.f$"),
    ("oneway_return", _append("service ZqSv { oneway i32 f() }"), r"Void method ZqSv\.f cannot return i32$"),
    ("oneway_return_container", _append("service ZqSv { oneway map<string, list<i32>> f() }"),
     r"Void method ZqSv\.f cannot return map<string,list<i32>>$"),
    ("oneway_throws", _append("exception ZqX {}\nservice ZqSv { oneway void f() throws (1: ZqX a) }"),
     r"Oneway method ZqSv\.f cannot throw an exception$"),
    ("throws_struct", _append("struct ZqS { 1: i32 a }\nservice ZqSv { void f() throws (1: ZqS a) }"),
     r"Invalid exception type ZqS for ZqSv\.f: not an exception$"),
    ("throws_union", _append("union ZqU { 1: i32 a }\nservice ZqSv { void f() throws (1: ZqU a) }"),
     r"Invalid exception type ZqU for ZqSv\.f: not an exception$"),
    ("throws_enum", _append("enum ZqE { A }\nservice ZqSv { void f() throws (1: ZqE a) }"),
     r"Invalid exception type ZqE for ZqSv\.f: not an exception$"),
    ("throws_base", _append("service ZqSv { void f() throws (1: i32 a) }"),
     r"Invalid exception type i32 for ZqSv\.f: not an exception$"),
    ("throws_container", _append("exception ZqX {}\nservice ZqSv { void f() throws (1: list<ZqX> a) }"),
     r"Invalid exception type list for ZqSv\.f: not an exception$"),
    ("throws_typedef_of_struct", _append("struct ZqS {}\ntypedef ZqS ZqT\ntypedef ZqT ZqTT\nservice ZqSv { void f() throws (1: ZqTT a) }"),
     r"Invalid exception type ZqTT for ZqSv\.f: not an exception$"),
    ("throws_far_struct", _with_far("service ZqSv { void f() throws (1: zqinc.ZqFarS a) }"),
     r"Invalid exception type zqinc\.ZqFarS for ZqSv\.f: not an exception$"),
    ("extends_missing", _append("service ZqSv extends ZqNope { void f() }"), r"Invalid extends ZqNope for service ZqSv$"),
    ("extends_missing_include", _append("service ZqSv extends zqnoinc.X { void f() }"),
     r"Invalid extends zqnoinc\.X for service ZqSv$"),
    ("extends_missing_far_service", _with_far("service ZqSv extends zqinc.ZqNope { void f() }"),
     r"Invalid extends zqinc\.ZqNope for service ZqSv$"),
    ("extends_three_parts", _with_far("service ZqSv extends zqinc.ZqFar.x { void f() }"),
     r"Invalid extends zqinc\.ZqFar\.x for service ZqSv$"),
    ("extends_parent_dangling", _append("service ZqA extends ZqB {}\nservice ZqB extends ZqNope {}"),
     r"Invalid extends ZqNope for service ZqB$"),
    ("extends_self", _append("service ZqSv extends ZqSv { void f() }"), r"Circular extends ZqSv$"),
    ("extends_cycle_2", _append("service ZqA extends ZqB {}\nservice ZqB extends ZqA {}"), r"Circular extends ZqA$"),
    ("extends_cycle_3", _append("service ZqA extends ZqB {}\nservice ZqB extends ZqC {}\nservice ZqC extends ZqA {}"),
     r"Circular extends ZqA$"),
    ("extends_into_cycle", _append("service ZqZ extends ZqA {}\nservice ZqA extends ZqB {}\nservice ZqB extends ZqA {}"),
     r"Circular extends ZqZ$"),
    ("include_cycle", _include_cycle, r"Circular include: \["),
    ("include_self", lambda rng, files, victim: files.__setitem__(victim, 'include "%s"\n' % os.path.basename(victim) + files[victim]),
     r"Circular include: \["),
    ("include_missing", _append('include "zqnothere.frugal"'), r"open .*zqnothere\.frugal: no such file or directory$"),
    ("include_bad_ext", _append('include "zqx.txt"'), r"Bad include name: zqx\.txt$"),
    ("include_dup", _with_far('include "zqinc.frugal"'), r"Duplicate include: zqinc$"),
    ("dup_service", _append("service ZqSv {}\nservice ZqSv {}"), r"Duplicate service name ZqSv$"),
    ("case_conflict_service", _append("service zqSv {}\nservice ZqSv {}"), r"Services ZqSv and zqSv conflict\."),
    ("dup_method", _append("service ZqSv { void f() void f() }"), r"Duplicate method name f$"),
    ("case_conflict_method", _append("service ZqSv { void foo() void Foo() }"), r"Methods Foo and foo conflict\."),
    ("dup_scope", _append("struct ZqE {}\nscope ZqSc { x: ZqE }\nscope ZqSc { y: ZqE }"), r"Duplicate scope name ZqSc$"),
    ("case_conflict_scope", _append("struct ZqE {}\nscope ZqSc { x: ZqE }\nscope zqSc { y: ZqE }"), r"Scopes zqSc and ZqSc conflict\."),
    ("dup_prefix_variable", _append("struct ZqE {}\nscope ZqSc prefix a.{zone}.b.{zone} { x: ZqE }"),
     r"Duplicate prefix variable zone in scope ZqSc$"),
    ("dup_prefix_variable_after_valid", _append("struct ZqE {}\nscope ZqSc prefix p.{uu}.{vv}.{uu} { x: NoSuchTypeZq }"),
     r"Duplicate prefix variable uu in scope ZqSc$"),
    ("dup_op", _append("struct ZqE {}\nscope ZqSc { x: ZqE, x: ZqE }"), r"Duplicate operation name x$"),
    ("case_conflict_op", _append("struct ZqE {}\nscope ZqSc { xy: ZqE, Xy: ZqE }"), r"Operations Xy and xy conflict\."),
    ("wildcard_vendor", _append('namespace * zqfoo (vendor="x")'), r'"vendor" annotation not compatible with \* namespace$'),
    ("const_ref_1", _append("const i32 zqa = zqnope"), r"Referenced constant zqnope not found$"),
    ("const_ref_2_include", _append("const i32 zqa = zqnoinc.b"), r"Include zqnoinc not found$"),
    ("const_ref_2_far", _with_far("const i32 zqa = zqinc.nope"), r"Referenced constant nope from include zqinc not found$"),
    ("const_ref_3", _with_far("const i32 zqa = zqinc.ZqColor.BLUE"), r"Invalid constant name zqinc\.ZqColor\.BLUE$"),
    ("const_ref_3_noinc", _append("const i32 zqa = zqnoinc.E.V"), r"Invalid constant name zqnoinc\.E\.V$"),
    ("const_ref_4", _append("const i32 zqa = x.y.z.w"), r"Invalid constant name x\.y\.z\.w$"),
]

# constants whose value does not fit the declared type (recorded / repaired: see known_findings.json)
CONST_MISMATCH = [
    ("const_string_for_int", _append('const i32 zqx = "hello"')),
    ("const_int_for_list", _append("const list<i32> zqx = 5")),
    ("const_int_for_struct", _append("struct ZqS { 1: i32 a }\nconst ZqS zqx = 5")),
    ("const_list_for_map", _append("const map<string, i32> zqx = [1, 2]")),
    ("const_map_for_list", _append('const list<string> zqx = {"a": "b"}')),
    ("const_bad_element", _append('const list<i32> zqx = [1, "two", 3]')),
    ("const_string_for_double", _append('const double zqx = "1.5"')),
    ("const_int_for_string", _append("const string zqx = 7")),
    ("const_nested_dangling_ref", _append("const list<i32> zqx = [zqnope]")),
]
CONST_RX = r"Invalid value|Referenced constant zqnope not found"


def reachable(files, main):
    """files reachable from main through include statements (textual scan; the generators write one
    include per line)"""
    seen, todo = [], [main]
    while todo:
        n = todo.pop()
        if n in seen or n not in files:
            continue
        seen.append(n)
        for m in re.finditer(r'^\s*include\s+"([^"]+)"', files[n], re.M):
            todo.append(os.path.normpath(os.path.join(os.path.dirname(n), m.group(1))))
    return seen


def make_case(rng, idx, quota):
    """one program: valid base (c11_idlgen) + one mutation"""
    size = rng.choice([0.3, 0.5, 0.8, 1.2])
    base = G.valid_program(rng, exotic=False, size=size)
    files = dict(base["files"])
    main = base["main"]
    pool = VALID + INVALID + [(n, f, "CONST") for n, f in CONST_MISMATCH]
    # every mutation at least once per run, then at random; a share of untouched and text-mutated programs
    if idx < len(pool):
        name, fn, expect = pool[idx]
    else:
        r = rng.random()
        if r < 0.10:
            return {"files": files, "main": main, "mutation": "none", "expect": None, "victim": None}
        if r < 0.22:
            victim = rng.choice(sorted(files))
            data, how = G.mutate(rng, files[victim])
            if isinstance(data, bytes):
                data = data.decode("latin1")
            files[victim] = data
            return {"files": files, "main": main, "mutation": "text:" + how, "expect": "ANY", "victim": victim}
        name, fn, expect = rng.choice(pool)
    victim = rng.choice(reachable(files, main))
    fn(rng, files, victim)
    # a second, independent valid addition now and then (more services / typedefs around the defect)
    if rng.random() < 0.3:
        n2, f2, _ = rng.choice([VALID[0], VALID[2], VALID[4], VALID[6]])
        if n2 != name:
            f2(rng, files, victim)
    return {"files": files, "main": main, "mutation": name, "expect": expect, "victim": victim}


# ------------------------------------------------------------------------------------------------
# the facts the generators rely on, recomputed on an accepted tree (no model): direct oracle

def _b(h):
    return bytes.fromhex(h).decode("latin1")


class Node:
    def __init__(self, t):
        self.name = _b(t[0])
        fr = t[1]
        self.typedefs = {}
        for td in fr[2]:
            self.typedefs[_b(td[1])] = td[2]          # last declaration wins
        self.enums = {_b(e[1]) for e in fr[4]}
        self.structs = {_b(s[1]) for s in fr[5]}
        self.exceptions = {_b(s[1]) for s in fr[6]}
        self.unions = {_b(s[1]) for s in fr[7]}
        self.services = {_b(s[1]): _b(s[2]) for s in fr[8]}
        self.fr = fr
        self.incs = {_b(k): Node(sub) for k, sub in t[2]}

    def names(self):
        return self.enums | self.structs | self.exceptions | self.unions | set(self.typedefs)


def all_types(fr):
    for td in fr[2]:
        yield "typedef", td[2]
    for c in fr[3]:
        yield "const", c[2]
    for group in (fr[5], fr[6], fr[7]):
        for s in group:
            for f in s[2]:
                yield "field", f[4]
    for sv in fr[8]:
        for m in sv[3]:
            for r in m[3]:
                yield "return", r
            for f in m[4]:
                yield "arg", f[4]
            for f in m[5]:
                yield "throws", f[4]
    for sc in fr[9]:
        for o in sc[3]:
            yield "op", o[2]


def resolves(node, t):
    n = _b(t[0])
    if n in BASE:
        return True
    if n in ("list", "set"):
        return len(t[2]) == 1 and resolves(node, t[2][0])
    if n == "map":
        return len(t[1]) == 1 and len(t[2]) == 1 and resolves(node, t[1][0]) and resolves(node, t[2][0])
    if "." in n:
        inc, pn = n.split(".", 1)
        if inc != "":
            return inc in node.incs and pn in node.incs[inc].names()
        n = pn
    return n in node.names()


def chain_end(node, t, budget=200):
    """follow typedefs, each in the file that declares it; returns (node, name) of the end or None"""
    while budget > 0:
        budget -= 1
        n = _b(t[0])
        if n in BASE or n in CONTAINERS:
            return node, n
        if "." in n and n.split(".", 1)[0] != "":
            inc, pn = n.split(".", 1)
            if inc not in node.incs:
                return node, n
            node, n = node.incs[inc], pn
        elif "." in n:
            n = n.split(".", 1)[1]
        if n in node.typedefs:
            t = node.typedefs[n]
            continue
        return node, n
    return None


def soundness(tree):
    """list of (fact, detail) that do NOT hold on an accepted tree"""
    bad = []

    def walk(node):
        for where, t in all_types(node.fr):
            if not resolves(node, t):
                bad.append(("type_resolves", "%s %s in file %s" % (where, _b(t[0]), node.name)))
                continue
            end = chain_end(node, t)
            if end is None:
                bad.append(("typedef_chain_ends", "%s in file %s" % (_b(t[0]), node.name)))
            elif where == "throws":
                en, nm = end
                if nm not in en.exceptions:
                    bad.append(("throws_is_exception", "%s in file %s ends in %s" % (_b(t[0]), node.name, nm)))
        for sv, ext in node.services.items():
            seen, cur_node, cur = set(), node, sv
            while True:
                e = cur_node.services.get(cur)
                if e is None:
                    bad.append(("extends_resolves", "service %s of file %s: %s not found" % (sv, node.name, cur)))
                    break
                if e == "":
                    break
                if (id(cur_node), cur) in seen:
                    bad.append(("extends_acyclic", "service %s of file %s" % (sv, node.name)))
                    break
                seen.add((id(cur_node), cur))
                parts = e.split(".")
                if len(parts) == 2:
                    if parts[0] not in cur_node.incs:
                        bad.append(("extends_resolves", "service %s of file %s: include %s" % (sv, node.name, parts[0])))
                        break
                    cur_node, cur = cur_node.incs[parts[0]], parts[1]
                else:
                    cur = e
        for sub in node.incs.values():
            walk(sub)
    walk(Node(tree))
    return bad


# ------------------------------------------------------------------------------------------------

def run_harness(reqs, timeout=900):
    data = "".join(json.dumps(r) + "\n" for r in reqs)
    p = subprocess.run([VH], input=data.encode(), stdout=subprocess.PIPE, stderr=subprocess.PIPE, timeout=timeout)
    lines = [l for l in p.stdout.decode().split("\n") if l.strip()]
    out = [json.loads(l) for l in lines]
    while len(out) < len(reqs):
        out.append({"code": 104, "died": p.stderr.decode()[-800:]})
    return out


def run(ctx, quick):
    rng = ctx.rng
    n = 170 if quick else 1400
    cases = [make_case(rng, i, n) for i in range(n)]
    wd = os.path.join(ctx.rundir, "validate")
    reqs = [{"op": "validate", "dir": os.path.join(wd, str(i)), "files": c["files"], "main": c["main"]}
            for i, c in enumerate(cases)]
    resps = run_harness(reqs)

    viol = 0
    jcases, jsrc = [], []
    hist, outcome = {}, {"accepted": 0, "rejected": 0}
    facts_checked = 0
    err_classes = {}
    for c, r in zip(cases, resps):
        kind = c["mutation"].split(":")[0]
        hist[kind] = hist.get(kind, 0) + 1
        rep = {"kind": "validate", "mutation": c["mutation"], "mutated_file": c["victim"], "files": c["files"],
               "main": c["main"], "observed": {k: r.get(k) for k in ("code", "parse_ok", "parse_err", "link_err", "panic", "died")}}
        if r.get("code") != 0:
            viol += 1
            ctx.violation("C11 oracle: parsing/validation crashed or hung on %s: %s" %
                          (c["mutation"], (r.get("panic") or r.get("died") or "hang")[:300]), rep)
            continue
        ok = r["parse_ok"]
        outcome["accepted" if ok else "rejected"] += 1
        err = r.get("parse_err", "")
        if not ok:
            m = re.search(r"(?:Include [^:]*: )*(\S+(?: \S+)?)", err)
            key = m.group(1) if m else "?"
            err_classes[key] = err_classes.get(key, 0) + 1
        # harness self-check: the step-by-step replay ends as ParseFrugal does
        if (r.get("link_err") or "") != err:
            viol += 1
            ctx.violation("C11 harness self-check: step-by-step parseFrugal ends differently from ParseFrugal", rep)
        exp = c["expect"]
        if exp is None and not ok:
            viol += 1
            sig = None
            if c["mutation"] == "v_include_same_name_other_dir" and re.search(r"Circular include: \[", err):
                sig = {"class": "valid_rejected", "kind": "include_same_name_other_dir"}
            ctx.violation("C11 oracle: valid program (%s) rejected: %s" % (c["mutation"], err[:300]), rep, signature=sig)
        elif exp == "CONST":
            if ok:
                viol += 1
                ctx.violation("C11 oracle: invalid input (semantic:const_type_mismatch, %s) accepted by validation" % c["mutation"],
                              rep, signature={"class": "invalid_accepted", "kind": "semantic:const_type_mismatch"})
            elif not re.search(CONST_RX, err):
                viol += 1
                ctx.violation("C11 oracle: %s rejected with an unrelated diagnostic: %s" % (c["mutation"], err[:300]), rep)
        elif exp not in (None, "ANY"):
            if ok:
                viol += 1
                ctx.violation("C11 oracle: invalid input (%s) accepted by validation" % c["mutation"], rep)
            elif not re.search(exp, err):
                viol += 1
                ctx.violation("C11 oracle: %s rejected with an unexpected diagnostic: %s" % (c["mutation"], err[:300]), rep)
        if ok:
            bad = soundness(r["vtree"])
            facts_checked += 1
            for fact, detail in bad:
                viol += 1
                ctx.violation("C11 oracle: accepted program violates %s: %s" % (fact, detail), rep)
        # judge cases
        for call in r.get("calls", []):
            code = 0 if call.get("ok") else (100 if call.get("panic") else 1)
            jcases.append([1, c10_gen.from_json(call["tree"]), code, (call.get("err") or "").encode("latin1", "replace")])
            jsrc.append(("validate_call", c, r, call))
        entries = []
        for e in r.get("entries", []):
            if e.get("ok"):
                entries.append([e["path"].encode(), 0, c10_gen.from_json(e["ast"])])
            else:
                entries.append([e["path"].encode(), 1, e.get("err", "").encode("utf8")])
        obs = c10_gen.from_json(r["vtree"]) if ok else err.encode("utf8")
        jcases.append([2, entries, c["main"].encode(), 0 if ok else 1, obs])
        jsrc.append(("program", c, r, None))

    verdicts = vlib.run_judge(ctx.rundir, "JCompilerValidate", "judge", jcases, shard=600000, name="jv")
    tags = {}
    mism = 0
    for (kind, c, r, call), v in zip(jsrc, verdicts):
        if v >= 0:
            tags[v] = tags.get(v, 0) + 1
            continue
        mism += 1
        rep = {"kind": kind, "no_failing_input_found": True,
               "broken": "correspondence JCompilerValidate.judge (Model/CompilerValidate.v %s disagrees with the implementation; "
                         "theorems c11_validate_total / c11_validated_* are about that function)" %
                         ("cvalidate" if kind == "validate_call" else "cparse_program"),
               "mutation": c["mutation"], "files": c["files"], "main": c["main"],
               "observed": {"parse_ok": r.get("parse_ok"), "parse_err": r.get("parse_err"),
                            "call_err": call.get("err") if call else None, "call_ok": call.get("ok") if call else None}}
        ctx.violation("C11 correspondence: validation model and implementation disagree (%s, %s)" % (kind, c["mutation"]), rep)
    cov = {
        "validate_programs": len(cases),
        "validate_accepted": outcome["accepted"],
        "validate_rejected": outcome["rejected"],
        "validate_calls_judged": sum(1 for s in jsrc if s[0] == "validate_call"),
        "validate_programs_judged": sum(1 for s in jsrc if s[0] == "program"),
        "validate_judge_mismatches": mism,
        "validate_model_branch_tags": len(tags),
        "validate_tag_histogram": {str(k): v for k, v in sorted(tags.items())},
        "validate_soundness_facts_checked_on": facts_checked,
        "validate_mutation_histogram": hist,
        "validate_diagnostics": err_classes,
        "validate_oracle_failures": viol,
    }
    distinct = len({json.dumps(c["files"], sort_keys=True) for c in cases})
    return cov, len(cases), distinct, len([v for v in verdicts if v >= 0]), viol
